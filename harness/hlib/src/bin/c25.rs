//! C25 — default roles cannot act on high-privilege accounts. Stream `acp-default`.
//!
//! One real, migrated in-memory server (`setup_test`) carrying exactly the access controls and
//! groups the current tree ships.
//!
//! `--dump-lean <file>` (translate stage, spawned by `vtranslate default-access`): read every enabled
//! modify / create / delete profile entry, every group (`member` ∪ `dynmember`, `entry_managed_by`,
//! the `memberof` the plugin stored), the builtin accounts and `UUID_IDM_HIGH_PRIVILEGE` and print
//! them as the Lean data module `KanidmModel/Generated/DefaultAccess.lean` the theorems of
//! `KanidmProofs/C25.lean` are stated over.
//!
//! Correspondence run:
//!   1. the tables compiled into the model (`km_c25 defaults …`) must be what the booted server
//!      holds now (`impl-vs-model`, class `c25-default-table-stale:*`);
//!   2. acting users — a person and a service account for **every subset** of the builtin groups
//!      outside the closure of `idm_high_privilege`, plus persons inside the closure as positive
//!      controls — are created through the real server; their stored `memberof` must be the model's
//!      closure of their `directmemberof`;
//!   3. every actor × every target (high-privilege persons / service accounts / builtin `admin`,
//!      `idm_admin` / every high-privilege group, their non-high-privilege twins, delegated entries,
//!      the actor itself) × every modification of every sensitive attribute (purge, remove, present,
//!      assert), delete, and creates claiming `memberof idm_high_privilege`: the real
//!      `modify_allow_operation` / `delete_allow_operation` / `create_allow_operation` and the real
//!      `modify` / `delete` / `create` in a dropped write transaction, against `km_c25`.
//!
//! Oracle (from the property text only; reads nothing but what the server stored): if the actor's
//! `memberof` lacks `idm_high_privilege`, the target's `memberof` contains it, every entry manager of
//! the target is high-privilege, and the attribute is a credential / session / validity / naming /
//! membership attribute, the request must be refused.
use hlib::*;
use kanidm_proto::internal::Filter as ProtoFilter;
use kanidmd_lib::entry::{Entry, EntryCommitted, EntryInit, EntryNew, EntrySealed};
use kanidmd_lib::filter::{f_eq, f_pres, Filter, FilterInvalid};
use kanidmd_lib::modify::{Modify, ModifyInvalid, ModifyList};
use kanidmd_lib::prelude::*;
use kanidmd_lib::testkit::{setup_test, TestConfiguration};
#[allow(unused_imports)]
use kanidmd_lib::valueset::ValueSetT;
use serde_json::{json, Value as J};
use std::collections::{BTreeMap, BTreeSet};
use std::sync::Arc;
use std::time::Duration;

type Sealed = Entry<EntrySealed, EntryCommitted>;
type NewE = Entry<EntryInit, EntryNew>;

// ---------------------------------------------------------------------------------------------
// atoms
// ---------------------------------------------------------------------------------------------

struct Names {
    cls: BTreeMap<String, u64>,
    attr: BTreeMap<String, u64>,
}

impl Names {
    fn from_reply(r: &str) -> Names {
        let mut cls = BTreeMap::new();
        let mut attr = BTreeMap::new();
        for part in r.split(';') {
            let (k, v) = part.split_once('=').expect("tables reply");
            let m = if k == "classes" { &mut cls } else { &mut attr };
            for (i, n) in v.split(',').enumerate() {
                m.insert(n.to_string(), i as u64);
            }
        }
        assert!(cls.len() > 40 && attr.len() > 100, "tables too small");
        Names { cls, attr }
    }
    /// the two name tables of `Generated/AccessProtected.lean` (regenerated just before by
    /// `vtranslate access-protected`)
    fn from_lean_file(path: &str) -> Result<Names, String> {
        let src = std::fs::read_to_string(path).map_err(|e| format!("{path}: {e}"))?;
        let grab = |key: &str| -> Result<Vec<String>, String> {
            let pat = format!("def {key} : List String := [");
            let i = src.find(&pat).ok_or_else(|| format!("{key} not found in {path}"))?;
            let rest = &src[i + pat.len()..];
            let j = rest.find("]\n").ok_or_else(|| format!("{key}: no end"))?;
            Ok(rest[..j].split(',').map(|s| s.trim().trim_matches('"').to_string()).collect())
        };
        let c = grab("classNames")?;
        let a = grab("attrNames")?;
        let r = format!("classes={};attrs={}", c.join(","), a.join(","));
        Ok(Names::from_reply(&r))
    }
    fn c(&self, n: &str) -> Result<u64, String> {
        self.cls.get(n).copied().ok_or_else(|| format!("class {n} is not an EntryClass variant"))
    }
    fn a(&self, n: &str) -> Result<u64, String> {
        self.attr.get(n).copied().ok_or_else(|| format!("attribute {n} is not an Attribute variant"))
    }
    /// atoms for request lines: unknown names get numbers the tables do not use
    fn cx(&self, n: &str) -> u64 {
        self.cls.get(n).copied().unwrap_or(5000 + n.bytes().map(|b| b as u64).sum::<u64>())
    }
    fn ax(&self, n: &str) -> u64 {
        self.attr.get(n).copied().unwrap_or(5000 + n.bytes().map(|b| b as u64).sum::<u64>())
    }
}

fn list<T: ToString>(xs: impl IntoIterator<Item = T>) -> String {
    let v: Vec<String> = xs.into_iter().map(|x| x.to_string()).collect();
    if v.is_empty() {
        "-".into()
    } else {
        v.join(",")
    }
}

fn sval(s: &str) -> String {
    format!("s{}", s.chars().map(|c| (c as u32).to_string()).collect::<Vec<_>>().join("."))
}

fn lean_nats<T: ToString>(xs: impl IntoIterator<Item = T>) -> String {
    format!("[{}]", xs.into_iter().map(|x| x.to_string()).collect::<Vec<_>>().join(", "))
}

// ---------------------------------------------------------------------------------------------
// the default data as read from the booted server
// ---------------------------------------------------------------------------------------------

#[derive(Clone, Debug)]
enum Flt {
    EqClass(String),
    EqNum(String, u128),
    EqStr(String, String),
    Pres(String),
    SelfUuid,
    And(Vec<Flt>),
    Or(Vec<Flt>),
    AndNot(Box<Flt>),
}

impl Flt {
    fn sexp(&self, n: &Names) -> Result<String, String> {
        Ok(match self {
            Flt::EqClass(c) => format!("(eq {} s{})", n.a("class")?, n.c(c)?),
            Flt::EqNum(a, u) => format!("(eq {} n{})", n.a(a)?, u),
            Flt::EqStr(a, s) => format!("(eq {} {})", n.a(a)?, sval(s)),
            Flt::Pres(a) => format!("(pres {})", n.a(a)?),
            Flt::SelfUuid => "(self)".into(),
            Flt::And(l) => format!("(and {})", l.iter().map(|f| f.sexp(n)).collect::<Result<Vec<_>, _>>()?.join(" ")),
            Flt::Or(l) => format!("(or {})", l.iter().map(|f| f.sexp(n)).collect::<Result<Vec<_>, _>>()?.join(" ")),
            Flt::AndNot(f) => format!("(not {})", f.sexp(n)?),
        })
    }
    fn lean(&self, n: &Names) -> Result<String, String> {
        Ok(match self {
            Flt::EqClass(c) => format!(".eq {} (.str [{}])", n.a("class")?, n.c(c)?),
            Flt::EqNum(a, u) => format!(".eq {} (.num {})", n.a(a)?, u),
            Flt::EqStr(a, s) => format!(
                ".eq {} (.str {})",
                n.a(a)?,
                lean_nats(s.chars().map(|c| c as u32))
            ),
            Flt::Pres(a) => format!(".pres {}", n.a(a)?),
            Flt::SelfUuid => ".selfUuid".into(),
            Flt::And(l) => format!(".and [{}]", l.iter().map(|f| f.lean(n)).collect::<Result<Vec<_>, _>>()?.join(", ")),
            Flt::Or(l) => format!(".or [{}]", l.iter().map(|f| f.lean(n)).collect::<Result<Vec<_>, _>>()?.join(", ")),
            Flt::AndNot(f) => format!(".andnot ({})", f.lean(n)?),
        })
    }
}

fn pf_to_flt(txn: &mut QueryServerWriteTransaction<'_>, pf: &ProtoFilter) -> Result<Flt, String> {
    Ok(match pf {
        ProtoFilter::Eq(a, v) => {
            let a = a.to_lowercase();
            if a == "class" {
                Flt::EqClass(v.to_lowercase())
            } else {
                let pv = txn.clone_partialvalue(&Attribute::from(a.as_str()), v).map_err(|e| format!("target value {a}={v}: {e:?}"))?;
                match pv {
                    PartialValue::Uuid(u) | PartialValue::Refer(u) => Flt::EqNum(a, u.as_u128()),
                    PartialValue::Iutf8(s) | PartialValue::Iname(s) | PartialValue::Utf8(s) => Flt::EqStr(a, s),
                    PartialValue::Bool(b) => Flt::EqStr(a, b.to_string()),
                    PartialValue::Uint32(x) => Flt::EqStr(a, x.to_string()),
                    other => return Err(format!("target filter leaf {a} has an unmodelled value {other:?}")),
                }
            }
        }
        ProtoFilter::Cnt(a, _) => return Err(format!("target filter uses a substring term on {a}: not modelled")),
        ProtoFilter::Pres(a) => Flt::Pres(a.to_lowercase()),
        ProtoFilter::Or(l) => Flt::Or(l.iter().map(|f| pf_to_flt(txn, f)).collect::<Result<_, _>>()?),
        ProtoFilter::And(l) => Flt::And(l.iter().map(|f| pf_to_flt(txn, f)).collect::<Result<_, _>>()?),
        ProtoFilter::AndNot(f) => Flt::AndNot(Box::new(pf_to_flt(txn, f)?)),
        ProtoFilter::SelfUuid => Flt::SelfUuid,
    })
}

#[derive(Clone, Debug)]
enum Recv {
    None,
    Groups(Vec<u128>),
    EntryManager,
}

#[derive(Clone, Debug)]
struct AcpD {
    name: String,
    modify: bool,
    create: bool,
    delete: bool,
    recv: Recv,
    target: Option<Flt>,
    pres: Vec<String>,
    rem: Vec<String>,
    pres_cls: Vec<String>,
    rem_cls: Vec<String>,
    c_attrs: Vec<String>,
    c_classes: Vec<String>,
}

impl AcpD {
    fn profile_txt(&self, n: &Names) -> Result<String, String> {
        let r = match &self.recv {
            Recv::None => "N".to_string(),
            Recv::EntryManager => "M".to_string(),
            Recv::Groups(gs) => format!("G:{}", list(gs.iter())),
        };
        let t = match &self.target {
            None => "!".to_string(),
            Some(f) => f.sexp(n)?,
        };
        Ok(format!("{r}~{t}"))
    }
    fn profile_lean(&self, n: &Names) -> Result<String, String> {
        let r = match &self.recv {
            Recv::None => ".none".to_string(),
            Recv::EntryManager => ".entryManager".to_string(),
            Recv::Groups(gs) => format!(".group {}", lean_nats(gs.iter())),
        };
        let t = match &self.target {
            None => "none".to_string(),
            Some(f) => format!("some ({})", f.lean(n)?),
        };
        Ok(format!("⟨{r}, {t}⟩"))
    }
}

fn atoms_a(n: &Names, xs: &[String]) -> Result<Vec<u64>, String> {
    let mut v: Vec<u64> = xs.iter().map(|x| n.a(x)).collect::<Result<_, _>>()?;
    v.sort();
    v.dedup();
    Ok(v)
}

fn atoms_c(n: &Names, xs: &[String]) -> Result<Vec<u64>, String> {
    let mut v: Vec<u64> = xs.iter().map(|x| n.c(x)).collect::<Result<_, _>>()?;
    v.sort();
    v.dedup();
    Ok(v)
}

#[derive(Clone, Debug)]
struct GroupD {
    uuid: u128,
    name: String,
    members: Vec<u128>,
    dynamic: bool,
    managed_by: Option<Vec<u128>>,
    memberof: Vec<u128>,
}

#[derive(Clone, Debug)]
struct Defaults {
    hp: u128,
    groups: Vec<GroupD>,
    /// builtin accounts: (uuid, name, memberof)
    accounts: Vec<(u128, String, Vec<u128>)>,
    acps: Vec<AcpD>,
}

fn name_of(e: &Sealed) -> String {
    e.get_ava_set(Attribute::Name).and_then(|vs| vs.to_proto_string_clone_iter().next()).unwrap_or_else(|| "?".into())
}

fn refers(e: &Sealed, a: Attribute) -> Vec<u128> {
    e.get_ava_refer(a).map(|s| s.iter().map(|u| u.as_u128()).collect()).unwrap_or_default()
}

fn strs(e: &Sealed, a: Attribute) -> Option<Vec<String>> {
    e.get_ava_iter_iutf8(a).map(|i| i.map(|s| s.to_string()).collect())
}

/// Read the default data the way `reload_accesscontrols` + `AccessControl*::try_from` do
/// (server/mod.rs l.2343, access/profiles.rs): enabled profile entries of the three write classes,
/// receiver by class, target scope, attribute / class lists with the legacy class fallback.
fn read_defaults(txn: &mut QueryServerWriteTransaction<'_>) -> Result<Defaults, String> {
    let all = txn.internal_search(Filter::new_ignore_hidden(f_pres(Attribute::Class))).map_err(|e| format!("search: {e:?}"))?;
    let mut groups = vec![];
    let mut accounts = vec![];
    let mut acps = vec![];
    for e in &all {
        let cls: BTreeSet<String> = e.get_ava_as_iutf8(Attribute::Class).cloned().unwrap_or_default();
        if cls.contains("group") {
            let mut members = refers(e, Attribute::Member);
            members.extend(refers(e, Attribute::DynMember));
            members.sort();
            members.dedup();
            groups.push(GroupD {
                uuid: e.get_uuid().as_u128(),
                name: name_of(e),
                members,
                dynamic: cls.contains("dyngroup"),
                managed_by: e.get_ava_refer(Attribute::EntryManagedBy).map(|s| s.iter().map(|u| u.as_u128()).collect()),
                memberof: refers(e, Attribute::MemberOf),
            });
        }
        if cls.contains("account") {
            accounts.push((e.get_uuid().as_u128(), name_of(e), refers(e, Attribute::MemberOf)));
        }
        if cls.contains("access_control_profile") {
            let modify = cls.contains("access_control_modify");
            let create = cls.contains("access_control_create");
            let delete = cls.contains("access_control_delete");
            if !(modify || create || delete) {
                continue;
            }
            if e.attribute_equality(Attribute::AcpEnable, &PartialValue::Bool(false)) {
                continue;
            }
            let recv = if cls.contains("access_control_receiver_group") {
                Recv::Groups(refers(e, Attribute::AcpReceiverGroup))
            } else if cls.contains("access_control_receiver_entry_manager") {
                Recv::EntryManager
            } else {
                Recv::None
            };
            let target = if cls.contains("access_control_target_scope") {
                let pf = e.get_ava_single_protofilter(Attribute::AcpTargetScope).cloned().ok_or_else(|| format!("{}: no acp_targetscope", name_of(e)))?;
                Some(pf_to_flt(txn, &pf).map_err(|m| format!("{}: {m}", name_of(e)))?)
            } else {
                None
            };
            let legacy = strs(e, Attribute::AcpModifyClass).unwrap_or_default();
            acps.push(AcpD {
                name: name_of(e),
                modify,
                create,
                delete,
                recv,
                target,
                pres: strs(e, Attribute::AcpModifyPresentAttr).unwrap_or_default(),
                rem: strs(e, Attribute::AcpModifyRemovedAttr).unwrap_or_default(),
                pres_cls: strs(e, Attribute::AcpModifyPresentClass).unwrap_or_else(|| legacy.clone()),
                rem_cls: strs(e, Attribute::AcpModifyRemoveClass).unwrap_or_else(|| legacy.clone()),
                c_attrs: strs(e, Attribute::AcpCreateAttr).unwrap_or_default(),
                c_classes: strs(e, Attribute::AcpCreateClass).unwrap_or_default(),
            });
        }
    }
    groups.sort_by_key(|g| g.uuid);
    accounts.sort_by_key(|a| a.0);
    acps.sort_by(|a, b| a.name.cmp(&b.name));
    Ok(Defaults { hp: UUID_IDM_HIGH_PRIVILEGE.as_u128(), groups, accounts, acps })
}

impl Defaults {
    fn pairs(l: impl Iterator<Item = (u128, Vec<u128>)>) -> String {
        let v: Vec<String> = l.map(|(g, ms)| format!("{g}:{}", list(ms.iter()))).collect();
        if v.is_empty() {
            "-".into()
        } else {
            v.join(";")
        }
    }
    /// the canonical text `km_c25 defaults <what>` prints for the same data
    fn canonical(&self, what: &str, n: &Names) -> Result<String, String> {
        Ok(match what {
            "hp" => self.hp.to_string(),
            "groups" => Self::pairs(self.groups.iter().map(|g| (g.uuid, g.members.clone()))),
            "names" => self.groups.iter().map(|g| g.name.clone()).collect::<Vec<_>>().join(","),
            "managers" => Self::pairs(self.groups.iter().filter_map(|g| g.managed_by.clone().map(|m| (g.uuid, m)))),
            "memberof" => Self::pairs(self.groups.iter().map(|g| (g.uuid, g.memberof.clone()))),
            "accounts" => Self::pairs(self.accounts.iter().map(|a| (a.0, a.2.clone()))),
            "dyn" => list(self.groups.iter().filter(|g| g.dynamic).map(|g| g.uuid)),
            "modify" => {
                let v: Vec<String> = self
                    .acps
                    .iter()
                    .filter(|a| a.modify)
                    .map(|a| {
                        Ok(format!(
                            "{}={}~{}~{}~{}~{}",
                            a.name,
                            a.profile_txt(n)?,
                            list(atoms_a(n, &a.pres)?),
                            list(atoms_a(n, &a.rem)?),
                            list(atoms_c(n, &a.pres_cls)?),
                            list(atoms_c(n, &a.rem_cls)?)
                        ))
                    })
                    .collect::<Result<_, String>>()?;
                if v.is_empty() { "-".into() } else { v.join("|") }
            }
            "create" => {
                let v: Vec<String> = self
                    .acps
                    .iter()
                    .filter(|a| a.create)
                    .map(|a| Ok(format!("{}={}~{}~{}", a.name, a.profile_txt(n)?, list(atoms_a(n, &a.c_attrs)?), list(atoms_c(n, &a.c_classes)?))))
                    .collect::<Result<_, String>>()?;
                if v.is_empty() { "-".into() } else { v.join("|") }
            }
            "delete" => {
                let v: Vec<String> = self.acps.iter().filter(|a| a.delete).map(|a| Ok(format!("{}={}", a.name, a.profile_txt(n)?))).collect::<Result<_, String>>()?;
                if v.is_empty() { "-".into() } else { v.join("|") }
            }
            _ => return Err(format!("unknown table {what}")),
        })
    }

    fn lean_module(&self, n: &Names) -> Result<String, String> {
        let mut o = String::new();
        o.push_str("-- GENERATED by harness/hlib/src/bin/c25.rs (--dump-lean, spawned by `vtranslate default-access`) from a server\n");
        o.push_str("-- booted on the current tree (kanidmd_lib::testkit::setup_test): the enabled modify / create / delete access\n");
        o.push_str("-- control profiles, the groups with their members, and the builtin accounts. Do not edit: rewritten on every check run.\n");
        o.push_str("import KanidmModel.Access.Write\nnamespace Kanidm.Gen.Default\nopen Kanidm.Filter Kanidm.Access.Write\n\n");
        o.push_str("/-- `UUID_IDM_HIGH_PRIVILEGE` -/\n");
        o.push_str(&format!("def uuidHighPrivilege : Nat := {}\n", self.hp));
        o.push_str("/-- every group entry: (uuid, `member` ∪ `dynmember`) -/\n");
        o.push_str("def groups : List (Nat × List Nat) := [\n");
        o.push_str(&self.groups.iter().map(|g| format!("  ({}, {}) /- {} -/", g.uuid, lean_nats(g.members.iter()), g.name)).collect::<Vec<_>>().join(",\n"));
        o.push_str("]\n");
        o.push_str(&format!("def groupNames : List String := [{}]\n", self.groups.iter().map(|g| format!("\"{}\"", g.name)).collect::<Vec<_>>().join(", ")));
        o.push_str("/-- groups of class `dyngroup` (membership by filter) -/\n");
        o.push_str(&format!("def dynGroups : List Nat := {}\n", lean_nats(self.groups.iter().filter(|g| g.dynamic).map(|g| g.uuid))));
        o.push_str("/-- `entry_managed_by` of the groups that have one -/\n");
        o.push_str("def groupManagers : List (Nat × List Nat) := [\n");
        o.push_str(&self.groups.iter().filter_map(|g| g.managed_by.as_ref().map(|m| format!("  ({}, {})", g.uuid, lean_nats(m.iter())))).collect::<Vec<_>>().join(",\n"));
        o.push_str("]\n");
        o.push_str("/-- `memberof` as the memberof plugin stored it on the freshly migrated server -/\n");
        o.push_str("def groupMemberOf : List (Nat × List Nat) := [\n");
        o.push_str(&self.groups.iter().map(|g| format!("  ({}, {})", g.uuid, lean_nats(g.memberof.iter()))).collect::<Vec<_>>().join(",\n"));
        o.push_str("]\n");
        o.push_str("/-- builtin accounts: (uuid, stored `memberof`) -/\n");
        o.push_str("def accounts : List (Nat × List Nat) := [\n");
        o.push_str(&self.accounts.iter().map(|a| format!("  ({}, {}) /- {} -/", a.0, lean_nats(a.2.iter()), a.1)).collect::<Vec<_>>().join(",\n"));
        o.push_str("]\n");
        let m: Vec<&AcpD> = self.acps.iter().filter(|a| a.modify).collect();
        o.push_str("/-- ⟨⟨receiver, target⟩, present attrs, removed attrs, present classes, removed classes⟩ -/\n");
        o.push_str("def modifyAcps : List AcpModify := [\n");
        o.push_str(
            &m.iter()
                .map(|a| {
                    Ok(format!(
                        "  /- {} -/ ⟨{}, {}, {}, {}, {}⟩",
                        a.name,
                        a.profile_lean(n)?,
                        lean_nats(atoms_a(n, &a.pres)?),
                        lean_nats(atoms_a(n, &a.rem)?),
                        lean_nats(atoms_c(n, &a.pres_cls)?),
                        lean_nats(atoms_c(n, &a.rem_cls)?)
                    ))
                })
                .collect::<Result<Vec<_>, String>>()?
                .join(",\n"),
        );
        o.push_str("]\n");
        o.push_str(&format!("def modifyAcpNames : List String := [{}]\n", m.iter().map(|a| format!("\"{}\"", a.name)).collect::<Vec<_>>().join(", ")));
        let c: Vec<&AcpD> = self.acps.iter().filter(|a| a.create).collect();
        o.push_str("def createAcps : List AcpCreate := [\n");
        o.push_str(
            &c.iter()
                .map(|a| Ok(format!("  /- {} -/ ⟨{}, {}, {}⟩", a.name, a.profile_lean(n)?, lean_nats(atoms_a(n, &a.c_attrs)?), lean_nats(atoms_c(n, &a.c_classes)?))))
                .collect::<Result<Vec<_>, String>>()?
                .join(",\n"),
        );
        o.push_str("]\n");
        o.push_str(&format!("def createAcpNames : List String := [{}]\n", c.iter().map(|a| format!("\"{}\"", a.name)).collect::<Vec<_>>().join(", ")));
        let d: Vec<&AcpD> = self.acps.iter().filter(|a| a.delete).collect();
        o.push_str("def deleteAcps : List AcpDelete := [\n");
        o.push_str(&d.iter().map(|a| Ok(format!("  /- {} -/ ⟨{}⟩", a.name, a.profile_lean(n)?))).collect::<Result<Vec<_>, String>>()?.join(",\n"));
        o.push_str("]\n");
        o.push_str(&format!("def deleteAcpNames : List String := [{}]\n", d.iter().map(|a| format!("\"{}\"", a.name)).collect::<Vec<_>>().join(", ")));
        o.push_str("end Kanidm.Gen.Default\n");
        Ok(o)
    }
}

// ---------------------------------------------------------------------------------------------
// model text of entries
// ---------------------------------------------------------------------------------------------

/// `attr=V+V,…` for the model's filter entry: classes as class atoms, uuid / reference attributes as
/// numbers, plain string / bool / integer syntaxes through the server's own `to_proto_string`,
/// everything else as presence only.
fn fe_of(n: &Names, e: &Sealed) -> String {
    let mut items = vec![];
    for k in e.attr_keys() {
        let a = n.ax(k.as_str());
        let vals: Vec<String> = match k {
            Attribute::Class => e.get_ava_as_iutf8(Attribute::Class).map(|s| s.iter().map(|c| format!("s{}", n.cx(c))).collect()).unwrap_or_default(),
            Attribute::Uuid => vec![format!("n{}", e.get_uuid().as_u128())],
            _ => {
                if let Some(s) = e.get_ava_refer(k) {
                    s.iter().map(|u| format!("n{}", u.as_u128())).collect()
                } else if let Some(vs) = e.get_ava_set(k) {
                    let syn = format!("{:?}", vs.syntax());
                    if matches!(syn.as_str(), "Utf8String" | "Utf8StringInsensitive" | "Utf8StringIname" | "Boolean" | "Uint32") {
                        vs.to_proto_string_clone_iter().map(|s| sval(&s)).collect()
                    } else {
                        vec!["s".to_string()]
                    }
                } else {
                    vec![]
                }
            }
        };
        if !vals.is_empty() {
            items.push(format!("{a}={}", vals.join("+")));
        }
    }
    if items.is_empty() {
        "-".into()
    } else {
        items.join(",")
    }
}

fn ent_model(n: &Names, e: &Sealed) -> String {
    let classes = match e.get_ava_as_iutf8(Attribute::Class) {
        Some(s) => list(s.iter().map(|c| n.cx(c)).collect::<Vec<_>>()),
        None => "!".into(),
    };
    let managed = match e.get_ava_refer(Attribute::EntryManagedBy) {
        Some(s) => list(s.iter().map(|u| u.as_u128())),
        None => "!".into(),
    };
    let sp = match e.get_ava_single_refer(Attribute::SyncParentUuid) {
        Some(u) => u.as_u128().to_string(),
        None => "!".into(),
    };
    format!("{}~{}~{}~{}~{}", e.get_uuid().as_u128(), classes, managed, sp, fe_of(n, e))
}

// ---------------------------------------------------------------------------------------------
// world
// ---------------------------------------------------------------------------------------------

fn wu(k: u64) -> Uuid {
    nat_uuid(0xC25_0000 + k)
}

fn person(name: &str, uuid: Uuid) -> NewE {
    let mut e: NewE = Entry::new();
    e.add_ava(Attribute::Class, EntryClass::Object.to_value());
    e.add_ava(Attribute::Class, EntryClass::Account.to_value());
    e.add_ava(Attribute::Class, EntryClass::Person.to_value());
    e.add_ava(Attribute::Name, Value::new_iname(name));
    e.add_ava(Attribute::Uuid, Value::Uuid(uuid));
    e.add_ava(Attribute::Description, Value::new_utf8s(name));
    e.add_ava(Attribute::DisplayName, Value::new_utf8s(name));
    e
}

fn service(name: &str, uuid: Uuid, managed_by: Option<Uuid>) -> NewE {
    let mut e: NewE = Entry::new();
    e.add_ava(Attribute::Class, EntryClass::Object.to_value());
    e.add_ava(Attribute::Class, EntryClass::Account.to_value());
    e.add_ava(Attribute::Class, EntryClass::ServiceAccount.to_value());
    e.add_ava(Attribute::Name, Value::new_iname(name));
    e.add_ava(Attribute::Uuid, Value::Uuid(uuid));
    e.add_ava(Attribute::Description, Value::new_utf8s(name));
    e.add_ava(Attribute::DisplayName, Value::new_utf8s(name));
    if let Some(m) = managed_by {
        e.add_ava(Attribute::EntryManagedBy, Value::Refer(m));
    }
    e
}

fn group(name: &str, uuid: Uuid, members: &[Uuid], managed_by: Option<Uuid>) -> NewE {
    let mut e: NewE = Entry::new();
    e.add_ava(Attribute::Class, EntryClass::Object.to_value());
    e.add_ava(Attribute::Class, EntryClass::Group.to_value());
    e.add_ava(Attribute::Name, Value::new_iname(name));
    e.add_ava(Attribute::Uuid, Value::Uuid(uuid));
    e.add_ava(Attribute::Description, Value::new_utf8s(name));
    for m in members {
        e.add_ava(Attribute::Member, Value::Refer(*m));
    }
    if let Some(m) = managed_by {
        e.add_ava(Attribute::EntryManagedBy, Value::Refer(m));
    }
    e
}

#[derive(Clone, Debug)]
struct Actor {
    uuid: Uuid,
    label: String,
    /// person | service | hp-person
    kind: &'static str,
    entry: Arc<Sealed>,
    memberof: BTreeSet<Uuid>,
    direct: BTreeSet<Uuid>,
}

#[derive(Clone, Debug)]
struct Target {
    uuid: Uuid,
    kind: String,
    entry: Arc<Sealed>,
    memberof: BTreeSet<Uuid>,
    managed_by: Option<BTreeSet<Uuid>>,
}

struct World {
    qs: QueryServer,
    ct: Duration,
    defaults: Defaults,
    /// builtin groups outside the closure that are not dynamic, ascending
    roles: Vec<Uuid>,
    /// number of role subsets driven (actors: nsub persons, nsub service accounts, then the controls)
    nsub: usize,
    /// the groups of the closure as the server stored them
    hp_groups: BTreeSet<Uuid>,
    actors: Vec<Actor>,
    targets: Vec<Target>,
    /// uuid → is high-privilege (stored `memberof` contains idm_high_privilege), for every entry
    hp_of: BTreeMap<Uuid, bool>,
    plain_person: Uuid,
}

fn fetch(txn: &mut QueryServerWriteTransaction<'_>, u: Uuid) -> Option<Arc<Sealed>> {
    let f = Filter::new(f_eq(Attribute::Uuid, PartialValue::Uuid(u)));
    txn.internal_search(f).ok().and_then(|mut v| v.pop())
}

fn add_members(txn: &mut QueryServerWriteTransaction<'_>, g: Uuid, members: &[Uuid]) {
    if members.is_empty() {
        return;
    }
    let f = Filter::new_ignore_hidden(f_eq(Attribute::Uuid, PartialValue::Uuid(g)));
    let ml = ModifyList::new_list(members.iter().map(|m| Modify::Present(Attribute::Member, Value::Refer(*m))).collect());
    txn.internal_modify(&f, &ml).unwrap_or_else(|e| panic!("add members to {g}: {e:?}"));
}

/// Self-test only (`--inject <kind>`, never used by ./check): put a property-breaking default into the
/// booted server, as an edit of migration_data would, to see which channels notice.
///   bad-acp      a modify profile for idm_account_mail_read on every account's primary_credential
///   nest-role    idm_account_mail_read becomes a member of idm_people_admins (benign for the
///                property: its members are then high-privilege)
fn inject(txn: &mut QueryServerWriteTransaction<'_>, kind: &str) {
    match kind {
        "bad-acp" => {
            let mut e: NewE = Entry::new();
            for c in [
                EntryClass::Object,
                EntryClass::AccessControlProfile,
                EntryClass::AccessControlModify,
                EntryClass::AccessControlReceiverGroup,
                EntryClass::AccessControlTargetScope,
            ] {
                e.add_ava(Attribute::Class, c.to_value());
            }
            e.add_ava(Attribute::Name, Value::new_iname("c25_injected_bad_acp"));
            e.add_ava(Attribute::Uuid, Value::Uuid(wu(0xbad)));
            e.add_ava(Attribute::Description, Value::new_utf8s("c25 injected"));
            e.add_ava(Attribute::AcpReceiverGroup, Value::Refer(UUID_IDM_ACCOUNT_MAIL_READ));
            e.add_ava(
                Attribute::AcpTargetScope,
                Value::JsonFilt(ProtoFilter::And(vec![
                    ProtoFilter::Eq("class".into(), "account".into()),
                    ProtoFilter::AndNot(Box::new(ProtoFilter::Or(vec![
                        ProtoFilter::Eq("class".into(), "recycled".into()),
                        ProtoFilter::Eq("class".into(), "tombstone".into()),
                    ]))),
                ])),
            );
            e.add_ava(Attribute::AcpModifyPresentAttr, Value::new_iutf8("primary_credential"));
            e.add_ava(Attribute::AcpModifyRemovedAttr, Value::new_iutf8("primary_credential"));
            txn.internal_create(vec![e]).expect("inject bad acp");
        }
        "nest-role" => add_members(txn, UUID_IDM_PEOPLE_ADMINS, &[UUID_IDM_ACCOUNT_MAIL_READ]),
        other => panic!("unknown --inject {other}"),
    }
}

impl World {
    async fn build(inject_kind: Option<&str>) -> World {
        let qs = setup_test(TestConfiguration::default()).await;
        let t0 = duration_from_epoch_now() + Duration::from_secs(60);
        let hp = UUID_IDM_HIGH_PRIVILEGE;
        if let Some(k) = inject_kind {
            let mut txn = qs.write(t0).await.expect("inject txn");
            inject(&mut txn, k);
            txn.commit().expect("inject commit");
        }
        let defaults = {
            let mut txn = qs.write(t0 + Duration::from_millis(500)).await.expect("defaults txn");
            read_defaults(&mut txn).expect("read defaults")
        };
        // the split into high-privilege and other groups as the *server* stored it
        let is_hp_group = |g: &GroupD| g.uuid == hp.as_u128() || g.memberof.contains(&hp.as_u128());
        let roles: Vec<Uuid> = defaults.groups.iter().filter(|g| !is_hp_group(g) && !g.dynamic).map(|g| Uuid::from_u128(g.uuid)).collect();
        // every subset while that is at most 256 (the shipped data: 6 groups, 64 subsets); beyond that
        // (a tree in which many groups dropped out of the closure) none, every single group, all of them,
        // and 120 seeded random subsets. First = empty set, last = all groups.
        let full_mask: u64 = if roles.len() >= 64 { u64::MAX } else { (1u64 << roles.len()) - 1 };
        let subsets: Vec<u64> = if roles.len() <= 8 {
            (0..=full_mask).collect()
        } else {
            let mut v: Vec<u64> = vec![0];
            v.extend((0..roles.len().min(64)).map(|i| 1u64 << i));
            let mut r = Rng::for_case(0xC25, 7);
            for _ in 0..120 {
                v.push(r.next() & full_mask);
            }
            v.push(full_mask);
            v
        };
        let nsub = subsets.len() as u64;

        let mut actor_ids: Vec<(Uuid, String, &'static str)> = vec![];
        let mut targets: Vec<(Uuid, String)> = vec![];
        {
            let mut txn = qs.write(t0 + Duration::from_secs(1)).await.expect("setup txn");
            let mut es = vec![];
            for s in 0..nsub {
                let u = wu(0x1000 + s);
                es.push(person(&format!("c25p{s}"), u));
                actor_ids.push((u, format!("person:{:b}", subsets[s as usize]), "person"));
            }
            for s in 0..nsub {
                let u = wu(0x2000 + s);
                es.push(service(&format!("c25s{s}"), u, None));
                actor_ids.push((u, format!("service:{:b}", subsets[s as usize]), "service"));
            }
            let hp_actor_groups = [
                ("idm_people_admins", UUID_IDM_PEOPLE_ADMINS),
                ("idm_service_desk", UUID_IDM_SERVICE_DESK),
                ("idm_group_admins", UUID_IDM_GROUP_ADMINS),
                ("idm_unix_admins", UUID_IDM_UNIX_ADMINS),
                ("idm_service_account_admins", UUID_IDM_SERVICE_ACCOUNT_ADMINS),
                ("idm_access_control_admins", UUID_IDM_ACCESS_CONTROL_ADMINS),
                ("idm_admins", UUID_IDM_ADMINS),
            ];
            for (i, (gn, _)) in hp_actor_groups.iter().enumerate() {
                let u = wu(0x3000 + i as u64);
                es.push(person(&format!("c25h{i}"), u));
                actor_ids.push((u, format!("hp-person:{gn}"), "hp-person"));
            }
            // high-privilege targets
            let all_roles_person = wu(0x1000 + nsub - 1);
            let mut t = person("c25hpperson1", wu(0x100));
            t.add_ava(Attribute::Class, EntryClass::PosixAccount.to_value());
            es.push(t);
            es.push(person("c25hpperson2", wu(0x101)));
            es.push(person("c25hpperson3", wu(0x102)));
            es.push(service("c25hpsvc1", wu(0x103), None));
            es.push(service("c25hpsvc2", wu(0x104), Some(UUID_IDM_ADMINS)));
            es.push(group("c25hpgroup", wu(0x105), &[], Some(UUID_IDM_ADMINS)));
            // against the premise: high-privilege entries delegated outside the closure
            es.push(group("c25hpgroupdeleg", wu(0x106), &[], Some(UUID_IDM_ACCOUNT_MAIL_READ)));
            es.push(service("c25hpsvcdeleg", wu(0x107), Some(all_roles_person)));
            // twins outside the closure
            es.push(person("c25plainperson", wu(0x110)));
            es.push(service("c25plainsvc", wu(0x111), Some(UUID_IDM_ACCOUNT_MAIL_READ)));
            es.push(group("c25plaingroup", wu(0x112), &[wu(0x110)], None));
            es.push(group("c25managedgroup", wu(0x113), &[], Some(UUID_IDM_ACCOUNT_MAIL_READ)));
            es.push(group("c25usermanagedgroup", wu(0x114), &[], Some(all_roles_person)));
            txn.internal_create(es).expect("create actors and targets");
            // role memberships of the actors: bit i of the subset ↦ roles[i]
            for (i, g) in roles.iter().enumerate() {
                let mut ms = vec![];
                for s in 0..nsub {
                    if i < 64 && subsets[s as usize] & (1u64 << i) != 0 {
                        ms.push(wu(0x1000 + s));
                        ms.push(wu(0x2000 + s));
                    }
                }
                add_members(&mut txn, *g, &ms);
            }
            for (i, (_, g)) in hp_actor_groups.iter().enumerate() {
                add_members(&mut txn, *g, &[wu(0x3000 + i as u64)]);
            }
            add_members(&mut txn, UUID_IDM_ADMINS, &[wu(0x100)]);
            add_members(&mut txn, UUID_IDM_PEOPLE_PII_READ, &[wu(0x101)]);
            add_members(&mut txn, UUID_IDM_HIGH_PRIVILEGE, &[wu(0x102)]);
            add_members(&mut txn, UUID_SYSTEM_ADMINS, &[wu(0x103)]);
            add_members(&mut txn, UUID_IDM_RADIUS_SERVERS, &[wu(0x104)]);
            add_members(&mut txn, UUID_IDM_SERVICE_DESK, &[wu(0x105), wu(0x106), wu(0x107)]);
            txn.commit().expect("setup commit");
        }
        for (u, k) in [
            (wu(0x100), "hp-person(idm_admins,posix)"),
            (wu(0x101), "hp-person(idm_people_pii_read)"),
            (wu(0x102), "hp-person(direct)"),
            (wu(0x103), "hp-service(system_admins)"),
            (wu(0x104), "hp-service(idm_radius_servers,managed)"),
            (UUID_ADMIN, "builtin-admin"),
            (UUID_IDM_ADMIN, "builtin-idm_admin"),
            (wu(0x105), "hp-group(custom)"),
            (wu(0x106), "hp-group-delegated-to-role"),
            (wu(0x107), "hp-service-delegated-to-actor"),
            (wu(0x110), "plain-person"),
            (wu(0x111), "plain-service-managed-by-role"),
            (wu(0x112), "plain-group"),
            (wu(0x113), "group-managed-by-role"),
            (wu(0x114), "group-managed-by-actor"),
            (UUID_ANONYMOUS, "builtin-anonymous"),
        ] {
            targets.push((u, k.to_string()));
        }
        for g in &defaults.groups {
            let k = if is_hp_group(g) { "builtin-hp-group" } else if g.dynamic { "builtin-dyngroup" } else { "builtin-role-group" };
            targets.push((Uuid::from_u128(g.uuid), format!("{k}:{}", g.name)));
        }
        let ct = t0 + Duration::from_secs(100);
        let mut txn = qs.write(ct).await.expect("view txn");
        let mut hp_of = BTreeMap::new();
        let all = txn.internal_search(Filter::new_ignore_hidden(f_pres(Attribute::Class))).expect("all");
        for e in &all {
            let mo = e.get_ava_refer(Attribute::MemberOf).cloned().unwrap_or_default();
            hp_of.insert(e.get_uuid(), mo.contains(&hp));
        }
        let actors: Vec<Actor> = actor_ids
            .iter()
            .map(|(u, label, kind)| {
                let e = fetch(&mut txn, *u).expect("actor entry");
                Actor {
                    uuid: *u,
                    label: label.clone(),
                    kind,
                    memberof: e.get_ava_refer(Attribute::MemberOf).cloned().unwrap_or_default(),
                    direct: e.get_ava_refer(Attribute::DirectMemberOf).cloned().unwrap_or_default(),
                    entry: e,
                }
            })
            .collect();
        let targets: Vec<Target> = targets
            .iter()
            .map(|(u, kind)| {
                let e = fetch(&mut txn, *u).unwrap_or_else(|| panic!("target {kind}"));
                Target {
                    uuid: *u,
                    kind: kind.clone(),
                    memberof: e.get_ava_refer(Attribute::MemberOf).cloned().unwrap_or_default(),
                    managed_by: e.get_ava_refer(Attribute::EntryManagedBy).cloned(),
                    entry: e,
                }
            })
            .collect();
        drop(txn);
        let hp_groups: BTreeSet<Uuid> = defaults.groups.iter().filter(|g| is_hp_group(g)).map(|g| Uuid::from_u128(g.uuid)).collect();
        World { qs, ct, defaults, roles, nsub: nsub as usize, hp_groups, actors, targets, hp_of, plain_person: wu(0x110) }
    }
}

// ---------------------------------------------------------------------------------------------
// operations
// ---------------------------------------------------------------------------------------------

/// The oracle's own list, from the property text: credentials, sessions, account validity and
/// details (naming, posix, mail, class, delegation), group membership.
const SENSITIVE: [&str; 38] = [
    "primary_credential",
    "passkeys",
    "attested_passkeys",
    "unix_password",
    "radius_secret",
    "ssh_publickey",
    "application_password",
    "credential_update_intent_token",
    "password_import",
    "unix_password_import",
    "totp_import",
    "id_verification_eckey",
    "oauth2_account_credential_uuid",
    "oauth2_account_provider",
    "oauth2_account_unique_user_id",
    "oauth2_account_unique_user_sub",
    "user_auth_token_session",
    "oauth2_session",
    "api_token_session",
    "account_expire",
    "account_valid_from",
    "account_softlock_expire",
    "name",
    "spn",
    "displayname",
    "legalname",
    "mail",
    "description",
    "gidnumber",
    "loginshell",
    "uuid",
    "class",
    "entry_managed_by",
    "member",
    "dynmember",
    "memberof",
    "directmemberof",
    "dyngroup_filter",
];

/// attributes outside the property's list, driven for the differential only
const CONTROLS: [&str; 3] = ["image", "oauth2_consent_scope_map", "grant_ui_hint"];

#[derive(Clone, Debug, PartialEq)]
enum MKind {
    Purged,
    Removed,
    Present,
    Assert,
}

#[derive(Clone, Debug)]
struct ModSpec {
    kind: MKind,
    attr: String,
    val: String,
}

#[derive(Clone, Debug)]
enum OpSpec {
    Mod(ModSpec),
    Delete,
}

fn value_text(attr: &str, w: &World) -> Vec<String> {
    let refer = w.plain_person.to_string();
    match attr {
        "name" => vec!["c25newname".into()],
        "displayname" | "legalname" | "description" => vec!["C25 new".into()],
        "mail" => vec!["c25new@example.com".into()],
        "gidnumber" => vec!["70001".into()],
        "loginshell" => vec!["/bin/c25sh".into()],
        "account_expire" | "account_valid_from" | "account_softlock_expire" => vec!["2031-01-01T00:00:00+00:00".into()],
        "member" | "dynmember" | "entry_managed_by" | "uuid" => vec![refer],
        "memberof" | "directmemberof" => vec![UUID_IDM_HIGH_PRIVILEGE.to_string()],
        "class" => vec!["posixaccount".into(), "posixgroup".into(), "person".into(), "group".into()],
        "spn" => vec!["c25new@example.com".into()],
        "dyngroup_filter" => vec!["{\"pres\":\"class\"}".into()],
        "user_auth_token_session" | "oauth2_session" | "api_token_session" | "passkeys" | "attested_passkeys" | "oauth2_account_credential_uuid" | "oauth2_account_provider" => {
            vec![refer]
        }
        _ => vec!["c25value".into()],
    }
}

/// Every modification the public API can build for the sensitive (and control) attributes.
fn build_ops(w: &World, txn: &mut QueryServerWriteTransaction<'_>) -> Vec<OpSpec> {
    let mut ops = vec![];
    for a in SENSITIVE.iter().chain(CONTROLS.iter()) {
        let attr = Attribute::from(*a);
        ops.push(OpSpec::Mod(ModSpec { kind: MKind::Purged, attr: a.to_string(), val: String::new() }));
        for v in value_text(a, w) {
            if txn.clone_partialvalue(&attr, &v).is_ok() {
                ops.push(OpSpec::Mod(ModSpec { kind: MKind::Removed, attr: a.to_string(), val: v.clone() }));
                ops.push(OpSpec::Mod(ModSpec { kind: MKind::Assert, attr: a.to_string(), val: v.clone() }));
            }
            if txn.clone_value(&attr, &v).is_ok() {
                ops.push(OpSpec::Mod(ModSpec { kind: MKind::Present, attr: a.to_string(), val: v.clone() }));
            }
        }
    }
    ops.push(OpSpec::Delete);
    ops
}

impl ModSpec {
    fn real(&self, txn: &mut QueryServerWriteTransaction<'_>) -> Option<Modify> {
        let attr = Attribute::from(self.attr.as_str());
        Some(match self.kind {
            MKind::Purged => Modify::Purged(attr),
            MKind::Removed => Modify::Removed(attr.clone(), txn.clone_partialvalue(&attr, &self.val).ok()?),
            MKind::Assert => Modify::Assert(attr.clone(), txn.clone_partialvalue(&attr, &self.val).ok()?),
            MKind::Present => Modify::Present(attr.clone(), txn.clone_value(&attr, &self.val).ok()?),
        })
    }
    fn model(&self, n: &Names) -> String {
        let a = n.ax(&self.attr);
        let cv = if self.attr == "class" { n.cx(&self.val) } else { 0 };
        match self.kind {
            MKind::Purged => format!("u:{a}"),
            MKind::Removed => format!("r:{a}:{cv}"),
            MKind::Assert => format!("a:{a}:{cv}"),
            MKind::Present => format!("p:{a}:{cv}"),
        }
    }
    /// does an allowed request of this kind hand out the ability to change the attribute?
    fn describes(&self) -> String {
        format!("{:?} {}{}", self.kind, self.attr, if self.val.is_empty() { String::new() } else { format!(" = {}", self.val) })
    }
}

fn ident_txt(a: &Actor) -> String {
    let mo = a.entry.get_ava_refer(Attribute::MemberOf);
    format!(
        "U:{}:1:{}",
        a.uuid.as_u128(),
        match mo {
            Some(s) => list(s.iter().map(|u| u.as_u128())),
            None => "!".into(),
        }
    )
}

fn op_class(r: &Result<(), OperationError>) -> &'static str {
    match r {
        Ok(()) => "ok",
        Err(OperationError::AccessDenied) => "accessDenied",
        Err(OperationError::NoMatchingEntries) => "noMatchingEntries",
        Err(OperationError::EmptyRequest) => "emptyRequest",
        Err(_) => "other-error",
    }
}

fn op_agrees(model: &str, real: &str) -> bool {
    match model {
        "proceed" => real == "ok" || real == "other-error",
        "nothingToDo" => real == "ok",
        m => m == real,
    }
}

// ---------------------------------------------------------------------------------------------
// oracle
// ---------------------------------------------------------------------------------------------

/// `None` = the property speaks about this (actor, target): the request must be refused.
/// `Some(reason)` = outside the statement.
fn outside_statement(w: &World, a: &Actor, t: &Target) -> Option<&'static str> {
    let hp = UUID_IDM_HIGH_PRIVILEGE;
    if a.memberof.contains(&hp) {
        return Some("actor-high-privilege");
    }
    if !t.memberof.contains(&hp) {
        return Some("target-not-high-privilege");
    }
    if let Some(ms) = &t.managed_by {
        for m in ms {
            // a manager is high-privilege if it is (a member of) idm_high_privilege
            let m_hp = *m == hp || w.hp_of.get(m).copied().unwrap_or(false);
            if !m_hp {
                return Some("premise-violated:delegated-outside-the-closure");
            }
        }
    }
    None
}

struct Ctx<'a> {
    w: &'a World,
    n: &'a Names,
    rep: &'a mut Report,
}

impl<'a> Ctx<'a> {
    fn mismatch(&mut self, what: &str, input: &J, line: &str, model: &str, real: &str) {
        self.rep.fail(Failure {
            kind: "impl-vs-model".into(),
            class: format!("c25-{what}-mismatch"),
            input: json!({"replay": input, "what": what, "model_request": line}),
            expected: format!("model: {model}"),
            observed: format!("implementation: {real}"),
        });
    }
    fn violation(&mut self, class: &str, input: &J, msg: String) {
        self.rep.fail(Failure {
            kind: "impl-vs-oracle".into(),
            class: class.into(),
            input: json!({"replay": input}),
            expected: "a user outside idm_high_privilege is refused on a high-privilege account / group (C25)".into(),
            observed: msg,
        });
    }
}

/// one (actor, target, op) request that has been evaluated on the real code, waiting for the model
struct Pending {
    input: J,
    line: String,
    real: String,
    what: &'static str,
    decision: bool,
}

fn flush(cx: &mut Ctx<'_>, d: &mut Driver, pend: &mut Vec<Pending>) {
    if pend.is_empty() {
        return;
    }
    let lines: Vec<String> = pend.iter().map(|p| p.line.clone()).collect();
    // `ask_batch` writes up to 200 lines at once and wants them below the pipe capacity
    let mut replies: Vec<String> = Vec::with_capacity(lines.len());
    let mut start = 0;
    let mut bytes = 0;
    for i in 0..lines.len() {
        if bytes + lines[i].len() + 1 > 40_000 || i - start >= 190 {
            replies.extend(d.ask_batch(&lines[start..i]));
            start = i;
            bytes = 0;
        }
        bytes += lines[i].len() + 1;
    }
    replies.extend(d.ask_batch(&lines[start..]));
    for (p, m) in pend.iter().zip(replies.iter()) {
        let ok = if p.decision { (m == "1" && p.real == "true") || (m == "0" && p.real == "false") } else { op_agrees(m, &p.real) };
        if !ok {
            cx.mismatch(p.what, &p.input, &p.line, m, &p.real);
        }
    }
    pend.clear();
}

fn case_input(ai: usize, ti: usize, oi: usize, level: &str) -> J {
    json!({"actor": ai, "target": ti, "op": oi, "level": level})
}

fn sampled(seed: u64, ai: usize, ti: usize, oi: usize, num: u64, den: u64) -> bool {
    if num >= den {
        return true;
    }
    let mut r = Rng::for_case(seed ^ 0xC25, ((ai as u64) << 40) ^ ((ti as u64) << 20) ^ oi as u64);
    r.chance(num, den)
}

/// decision level: `modify_allow_operation` / `delete_allow_operation`
fn run_decision(cx: &mut Ctx<'_>, txn: &mut QueryServerWriteTransaction<'_>, ops: &[OpSpec], ai: usize, ti: usize, oi: usize, pend: &mut Vec<Pending>) {
    let w = cx.w;
    let a = &w.actors[ai];
    let t = &w.targets[ti];
    let ident = Identity::from_impersonate_entry_readwrite(a.entry.clone());
    let filter: Filter<FilterInvalid> = Filter::new(f_eq(Attribute::Uuid, PartialValue::Uuid(t.uuid)));
    let ents = vec![t.entry.clone()];
    let input = case_input(ai, ti, oi, "decision");
    let outside = outside_statement(w, a, t);
    let (real, line, what, attr, descr): (bool, String, &'static str, Option<String>, String) = match &ops[oi] {
        OpSpec::Mod(ms) => {
            let Some(m) = ms.real(txn) else {
                cx.rep.count("skipped:value-not-constructible");
                return;
            };
            let rl = ModifyList::<ModifyInvalid>::new_list(vec![m]);
            let me = match ModifyEvent::from_internal_parts(ident, &rl, &filter, txn) {
                Ok(me) => me,
                Err(_) => {
                    cx.rep.count("skipped:modlist-invalid");
                    return;
                }
            };
            let real = txn.get_accesscontrols().modify_allow_operation(&me, &ents).expect("modify_allow_operation");
            let line = format!("mod\t{}\t-\t{}\t{}", ident_txt(a), ent_model(cx.n, &t.entry), ms.model(cx.n));
            (real, line, "modify-decision", Some(ms.attr.clone()), ms.describes())
        }
        OpSpec::Delete => {
            let de = DeleteEvent::from_parts(ident, &filter, txn).expect("delete event");
            let real = txn.get_accesscontrols().delete_allow_operation(&de, &ents).expect("delete_allow_operation");
            let line = format!("del\t{}\t{}", ident_txt(a), ent_model(cx.n, &t.entry));
            (real, line, "delete-decision", None, "Delete".to_string())
        }
    };
    cx.rep.count(&format!("{what}:{}", if real { "allowed" } else { "denied" }));
    let sensitive = attr.as_deref().map(|x| SENSITIVE.contains(&x)).unwrap_or(true);
    let mut key = None;
    match outside {
        None if sensitive => {
            cx.rep.count("oracle:checked");
            key = Some(format!("{}|{}|{}", a.label, t.kind, descr));
            if real {
                let class = match &ops[oi] {
                    OpSpec::Delete => "c25-nonhp-deletes-hp".to_string(),
                    OpSpec::Mod(ms) if ms.kind == MKind::Assert => format!("c25-nonhp-granted-present-on-hp:{}", ms.attr),
                    OpSpec::Mod(ms) => format!("c25-nonhp-modifies-hp:{}", ms.attr),
                };
                cx.violation(
                    &class,
                    &input,
                    format!(
                        "actor {} (memberof {:?}, not high-privilege) is allowed `{}` on {} ({}), whose memberof contains idm_high_privilege and whose entry managers {:?} are all high-privilege",
                        a.label,
                        a.memberof.iter().map(|u| u.as_u128()).collect::<Vec<_>>(),
                        descr,
                        t.kind,
                        t.uuid,
                        t.managed_by
                    ),
                );
            }
        }
        None => cx.rep.count("oracle:not-a-sensitive-attribute"),
        Some(r) => {
            cx.rep.count(&format!("oracle:outside:{r}"));
            if real {
                key = Some(format!("allowed|{}|{}|{}", a.label, t.kind, descr));
            }
        }
    }
    cx.rep.case(key);
    pend.push(Pending { input, line, real: real.to_string(), what, decision: true });
}

/// operation level: the real `modify` / `delete` in a transaction that is dropped afterwards.
/// Returns true if the transaction now holds a change (the caller opens a fresh one).
fn run_operation(cx: &mut Ctx<'_>, txn: &mut QueryServerWriteTransaction<'_>, ops: &[OpSpec], ai: usize, ti: usize, oi: usize, pend: &mut Vec<Pending>) -> bool {
    let w = cx.w;
    let a = &w.actors[ai];
    let t = &w.targets[ti];
    let ident = Identity::from_impersonate_entry_readwrite(a.entry.clone());
    let filter: Filter<FilterInvalid> = Filter::new(f_eq(Attribute::Uuid, PartialValue::Uuid(t.uuid)));
    let input = case_input(ai, ti, oi, "operation");
    let outside = outside_statement(w, a, t);
    let (r, line, what, attr, descr): (Result<(), OperationError>, String, &'static str, Option<String>, String) = match &ops[oi] {
        OpSpec::Mod(ms) => {
            let Some(m) = ms.real(txn) else {
                return false;
            };
            let rl = ModifyList::<ModifyInvalid>::new_list(vec![m]);
            let me = match ModifyEvent::from_internal_parts(ident, &rl, &filter, txn) {
                Ok(me) => me,
                Err(_) => return false,
            };
            let cands = match txn.impersonate_search_valid(me.filter.clone(), me.filter_orig.clone(), &me.ident) {
                Ok(c) => c,
                Err(_) => return false,
            };
            let cs = if cands.is_empty() { "-".to_string() } else { cands.iter().map(|e| ent_model(cx.n, e)).collect::<Vec<_>>().join("^") };
            let r = txn.modify(&me);
            (r, format!("modop\t{}\t-\t{}\t{}", ident_txt(a), cs, ms.model(cx.n)), "modify-operation", Some(ms.attr.clone()), ms.describes())
        }
        OpSpec::Delete => {
            let de = DeleteEvent::from_parts(ident, &filter, txn).expect("delete event");
            let cands = match txn.impersonate_search_valid(de.filter.clone(), de.filter_orig.clone(), &de.ident) {
                Ok(c) => c,
                Err(_) => return false,
            };
            let cs = if cands.is_empty() { "-".to_string() } else { cands.iter().map(|e| ent_model(cx.n, e)).collect::<Vec<_>>().join("^") };
            let r = txn.delete(&de);
            (r, format!("delop\t{}\t{}", ident_txt(a), cs), "delete-operation", None, "Delete".to_string())
        }
    };
    let rc = op_class(&r);
    cx.rep.count(&format!("{what}:{rc}"));
    let sensitive = attr.as_deref().map(|x| SENSITIVE.contains(&x)).unwrap_or(true);
    let is_assert = matches!(&ops[oi], OpSpec::Mod(ms) if ms.kind == MKind::Assert);
    let mut key = None;
    if outside.is_none() && sensitive {
        cx.rep.count("oracle:checked-operation");
        key = Some(format!("op|{}|{}|{}", a.label, t.kind, descr));
        // refused = AccessDenied or nothing found; anything else got past the access decision
        // (a failed `Assert` is reported by the modify itself, after access: not counted)
        if !(rc == "accessDenied" || rc == "noMatchingEntries") && !is_assert {
            cx.violation(
                &format!("c25-nonhp-operation-on-hp:{}", attr.clone().unwrap_or_else(|| "delete".into())),
                &input,
                format!("actor {} (not high-privilege) ran `{}` on {} ({}) and the server answered {r:?} instead of AccessDenied", a.label, descr, t.kind, t.uuid),
            );
        }
    } else if r.is_ok() {
        key = Some(format!("op-ok|{}|{}|{}", a.label, t.kind, descr));
    }
    cx.rep.case(key);
    pend.push(Pending { input, line, real: rc.to_string(), what, decision: false });
    r.is_ok()
}

/// create: entries that claim `memberof idm_high_privilege` (and plain twins)
fn create_specs(w: &World) -> Vec<(&'static str, bool, NewE, Option<Uuid>)> {
    let hp = UUID_IDM_HIGH_PRIVILEGE;
    let mut v = vec![];
    for claim in [true, false] {
        let mut p = person("c25newperson", wu(0x900));
        let mut s = service("c25newsvc", wu(0x901), Some(UUID_IDM_ADMINS));
        let mut g = group("c25newgroup", wu(0x902), &[w.plain_person], None);
        if claim {
            p.add_ava(Attribute::MemberOf, Value::Refer(hp));
            s.add_ava(Attribute::MemberOf, Value::Refer(hp));
            g.add_ava(Attribute::MemberOf, Value::Refer(hp));
        }
        v.push((if claim { "new-person-claims-hp" } else { "new-person" }, claim, p, Some(wu(0x900))));
        v.push((if claim { "new-service-claims-hp" } else { "new-service" }, claim, s, Some(wu(0x901))));
        v.push((if claim { "new-group-claims-hp" } else { "new-group" }, claim, g, Some(wu(0x902))));
    }
    v
}

fn newent_model(n: &Names, e: &NewE, uuid: Option<Uuid>) -> String {
    let u = match uuid {
        Some(u) => u.as_u128().to_string(),
        None => "!".into(),
    };
    let classes = match e.get_ava_as_iutf8(Attribute::Class) {
        Some(s) => list(s.iter().map(|c| n.cx(c)).collect::<Vec<_>>()),
        None => "!".into(),
    };
    let attrs: Vec<u64> = e.get_ava_names().map(|a| n.ax(a)).collect();
    let mut items = vec![];
    for k in e.attr_keys() {
        let a = n.ax(k.as_str());
        let vals: Vec<String> = match k {
            Attribute::Class => e.get_ava_as_iutf8(Attribute::Class).map(|s| s.iter().map(|c| format!("s{}", n.cx(c))).collect()).unwrap_or_default(),
            _ => {
                if let Some(s) = e.get_ava_refer(k) {
                    s.iter().map(|u| format!("n{}", u.as_u128())).collect()
                } else if let Some(vs) = e.get_ava_set(k) {
                    let syn = format!("{:?}", vs.syntax());
                    if syn == "Uuid" {
                        uuid.iter().map(|u| format!("n{}", u.as_u128())).collect()
                    } else if matches!(syn.as_str(), "Utf8String" | "Utf8StringInsensitive" | "Utf8StringIname" | "Boolean" | "Uint32") {
                        vs.to_proto_string_clone_iter().map(|s| sval(&s)).collect()
                    } else {
                        vec!["s".to_string()]
                    }
                } else {
                    vec![]
                }
            }
        };
        if !vals.is_empty() {
            items.push(format!("{a}={}", vals.join("+")));
        }
    }
    format!("{u}~{classes}~{}~{}", list(attrs), if items.is_empty() { "-".to_string() } else { items.join(",") })
}

/// returns true if the transaction now holds a change
fn run_create(cx: &mut Ctx<'_>, txn: &mut QueryServerWriteTransaction<'_>, ai: usize, ci: usize, pend: &mut Vec<Pending>) -> bool {
    let w = cx.w;
    let a = &w.actors[ai];
    let specs = create_specs(w);
    let (label, claims, e, uuid) = &specs[ci];
    let ident = Identity::from_impersonate_entry_readwrite(a.entry.clone());
    let ents = vec![e.clone()];
    let ce = CreateEvent::new_impersonate_identity(ident, ents.clone());
    let real = txn.get_accesscontrols().create_allow_operation(&ce, &ents).expect("create_allow_operation");
    let es = newent_model(cx.n, e, *uuid);
    let input = json!({"actor": ai, "create": ci, "level": "create"});
    cx.rep.count(&format!("create-decision:{}", if real { "allowed" } else { "denied" }));
    let actor_hp = a.memberof.contains(&UUID_IDM_HIGH_PRIVILEGE);
    let mut key = None;
    if !actor_hp && *claims {
        cx.rep.count("oracle:checked-create");
        key = Some(format!("create|{}|{label}", a.label));
        if real {
            cx.violation("c25-nonhp-creates-hp", &input, format!("actor {} (not high-privilege) may create {label}: an entry whose memberof names idm_high_privilege", a.label));
        }
    } else if real {
        key = Some(format!("create-allowed|{}|{label}", a.label));
    }
    cx.rep.case(key);
    pend.push(Pending { input: input.clone(), line: format!("cre\t{}\t{}", ident_txt(a), es), real: real.to_string(), what: "create-decision", decision: true });
    let r = txn.create(&ce).map(|_| ());
    let rc = op_class(&r);
    cx.rep.count(&format!("create-operation:{rc}"));
    if !actor_hp && *claims && r.is_ok() {
        cx.violation("c25-nonhp-creates-hp", &input, format!("actor {} (not high-privilege) created {label}", a.label));
    }
    pend.push(Pending { input, line: format!("creop\t{}\t{}", ident_txt(a), es), real: rc.to_string(), what: "create-operation", decision: false });
    r.is_ok()
}

// ---------------------------------------------------------------------------------------------
// main
// ---------------------------------------------------------------------------------------------

const TABLES: [&str; 10] = ["hp", "groups", "names", "managers", "memberof", "accounts", "dyn", "modify", "create", "delete"];

/// `km_c25 defaults <what>` against the canonical text of the booted server's data
fn compare_tables(d: &mut Driver, w: &World, names: &Names) -> (Vec<&'static str>, Vec<Failure>) {
    let mut stale = vec![];
    let mut fails = vec![];
    for what in TABLES {
        let model = d.ask(&format!("defaults\t{what}"));
        match w.defaults.canonical(what, names) {
            Ok(real) => {
                if model != real {
                    stale.push(what);
                    fails.push(Failure {
                        kind: "impl-vs-model".into(),
                        class: format!("c25-default-table-stale:{what}"),
                        input: json!({"replay": {"table": what}}),
                        expected: format!("model table: {}", model.chars().take(1500).collect::<String>()),
                        observed: format!("booted server: {}", real.chars().take(1500).collect::<String>()),
                    });
                }
            }
            Err(e) => {
                stale.push(what);
                fails.push(Failure {
                    kind: "impl-vs-model".into(),
                    class: format!("c25-default-table-unmodelled:{what}"),
                    input: json!({"replay": {"table": what}}),
                    expected: "a default profile inside the modelled grammar".into(),
                    observed: e,
                });
            }
        }
    }
    (stale, fails)
}

async fn dump_lean(out: &str, inject_kind: Option<&str>) -> Result<String, String> {
    let dir = std::path::Path::new(out).parent().ok_or("no parent dir")?;
    let names = Names::from_lean_file(dir.join("AccessProtected.lean").to_str().ok_or("path")?)?;
    let qs = setup_test(TestConfiguration::default()).await;
    let mut txn = qs.write(duration_from_epoch_now()).await.map_err(|e| format!("{e:?}"))?;
    if let Some(k) = inject_kind {
        inject(&mut txn, k);
    }
    let d = read_defaults(&mut txn)?;
    let text = d.lean_module(&names)?;
    let old = std::fs::read_to_string(out).unwrap_or_default();
    let changed = old != text;
    if changed {
        std::fs::write(out, &text).map_err(|e| format!("{out}: {e}"))?;
    }
    Ok(format!(
        "{} groups, {} builtin accounts, {} modify / {} create / {} delete profiles{}",
        d.groups.len(),
        d.accounts.len(),
        d.acps.iter().filter(|a| a.modify).count(),
        d.acps.iter().filter(|a| a.create).count(),
        d.acps.iter().filter(|a| a.delete).count(),
        if changed { " (file rewritten)" } else { " (unchanged)" }
    ))
}

#[tokio::main(flavor = "multi_thread", worker_threads = 2)]
async fn main() {
    let args = Args::parse();
    if std::env::var_os("RUST_LOG").is_none() {
        std::env::set_var("RUST_LOG", "off");
    }
    if let Some(out) = args.extra.get("dump-lean") {
        match dump_lean(out, args.extra.get("inject").map(|s| s.as_str())).await {
            Ok(m) => {
                println!("{m}");
                return;
            }
            Err(e) => {
                eprintln!("c25 dump: {e}");
                std::process::exit(1);
            }
        }
    }
    let mut rep = Report::new(
        "acp-default",
        "an acting user outside idm_high_privilege, a target inside it whose entry managers are all high-privilege, a sensitive attribute (or delete / create) — the property's own domain — or a request the server allows (distinct actor|target|operation)",
    );
    let mut d = Driver::spawn(&args.driver);
    let names = Names::from_reply(&d.ask("tables"));
    let w = World::build(args.extra.get("inject").map(|s| s.as_str())).await;

    // the oracle's attribute list is the model's spec list
    let sens = d.ask("sens");
    let mine = SENSITIVE.join(",");
    assert_eq!(sens, mine, "the harness's and the model's sensitive attribute lists differ");

    // 1. the compiled tables are what this server holds
    let (mut stale, mut stale_failures) = compare_tables(&mut d, &w, &names);
    rep.count_n("tables-compared", TABLES.len() as u64);
    // The translate stage regenerates the table before `lake build`; when it could not (harness build
    // slower than its time budget) the compiled table is the committed snapshot. If that differs from
    // this server, regenerate now, re-prove, and continue with the rebuilt driver: a changed table over
    // which the theorems still hold is not a finding. (Not during a replay, not for injected self-tests.)
    if !stale.is_empty() && args.replay.is_none() && (!args.extra.contains_key("inject") || args.extra.contains_key("regenerate")) && !args.extra.contains_key("no-regenerate") {
        match w.defaults.lean_module(&names) {
            Ok(text) => {
                let lean_dir = std::path::Path::new(&args.driver).ancestors().nth(4).map(|p| p.to_path_buf());
                if let Some(lean_dir) = lean_dir.filter(|p| p.join("lakefile.toml").exists()) {
                    let gen = lean_dir.join("KanidmModel").join("Generated").join("DefaultAccess.lean");
                    drop(d);
                    std::fs::write(&gen, &text).expect("rewrite DefaultAccess.lean");
                    let o = std::process::Command::new("lake").args(["build", "KanidmProofs.C25", "km_c25"]).current_dir(&lean_dir).output();
                    d = Driver::spawn(&args.driver);
                    match o {
                        Ok(o) if o.status.success() => {
                            let (s2, f2) = compare_tables(&mut d, &w, &names);
                            rep.note(format!(
                                "tables {stale:?} were stale at translate time: DefaultAccess.lean regenerated from the booted server and KanidmProofs.C25 re-proved in the harness stage (still stale afterwards: {s2:?})"
                            ));
                            stale = s2;
                            stale_failures = f2;
                        }
                        Ok(o) => {
                            let out = format!("{}{}", String::from_utf8_lossy(&o.stdout), String::from_utf8_lossy(&o.stderr));
                            let errs: Vec<&str> = out.lines().filter(|l| l.contains("error")).take(8).collect();
                            stale_failures.push(Failure {
                                kind: "impl-vs-model".into(),
                                class: "c25-default-table-breaks-theorems".into(),
                                input: json!({"replay": {"table": "regenerated"}}),
                                expected: "KanidmProofs.C25 builds over the table dumped from the booted server".into(),
                                observed: errs.join(" | ").chars().take(1500).collect(),
                            });
                        }
                        Err(e) => rep.note(format!("could not run lake to re-prove over the regenerated table: {e}")),
                    }
                }
            }
            Err(e) => rep.note(format!("the booted server's defaults cannot be printed as Lean data: {e}")),
        }
    }
    for f in stale_failures {
        rep.fail(f);
    }
    // the closure the model computes for the high-privilege group = the server's memberof
    let model_hp = d.ask("hpgroups");
    let real_hp = list(w.defaults.groups.iter().filter(|g| g.uuid == w.defaults.hp || g.memberof.contains(&w.defaults.hp)).map(|g| g.uuid));
    if model_hp != real_hp {
        rep.fail(Failure {
            kind: "impl-vs-model".into(),
            class: "c25-hp-closure-mismatch".into(),
            input: json!({"replay": {"table": "hpgroups"}}),
            expected: format!("model: {model_hp}"),
            observed: format!("groups whose stored memberof contains idm_high_privilege: {real_hp}"),
        });
    }
    let unsafe_profiles = d.ask("safe");
    rep.note(format!(
        "{} role groups outside the closure: {:?}; {} actors, {} targets; model's unsafe default profiles: {unsafe_profiles}",
        w.roles.len(),
        w.roles.iter().map(|u| u.as_u128()).collect::<Vec<_>>(),
        w.actors.len(),
        w.targets.len()
    ));

    // 2. memberof of every actor and target = the model's closure of its direct memberships
    for (label, uuid, direct, memberof) in w
        .actors
        .iter()
        .map(|a| (a.label.clone(), a.uuid, a.direct.clone(), a.memberof.clone()))
        .chain(w.targets.iter().map(|t| (t.kind.clone(), t.uuid, t.entry.get_ava_refer(Attribute::DirectMemberOf).cloned().unwrap_or_default(), t.memberof.clone())))
    {
        let line = format!("closure\t{}", list(direct.iter().map(|u| u.as_u128())));
        let model = d.ask(&line);
        let real = list(memberof.iter().map(|u| u.as_u128()));
        rep.count("closure-compared");
        if model != real {
            rep.fail(Failure {
                kind: "impl-vs-model".into(),
                class: "c25-memberof-closure-mismatch".into(),
                input: json!({"replay": {"closure": uuid.to_string(), "label": label}, "model_request": line}),
                expected: format!("model: {model}"),
                observed: format!("stored memberof: {real}"),
            });
        }
    }
    // "directly or transitively a member": an account is high-privilege exactly when one of the groups
    // it was put into (directmemberof) is a group of the closure — for every actor, as stored
    for a in &w.actors {
        let hp = a.memberof.contains(&UUID_IDM_HIGH_PRIVILEGE);
        let expected = a.direct.iter().any(|g| w.hp_groups.contains(g));
        rep.count(&format!("actor:{}:{}", a.kind, if hp { "high-privilege" } else { "outside" }));
        if hp != expected {
            rep.fail(Failure {
                kind: "impl-vs-oracle".into(),
                class: "c25-membership-not-transitive".into(),
                input: json!({"replay": {"actor": a.label}}),
                expected: format!("memberof contains idm_high_privilege iff a direct group is in the closure ({expected})"),
                observed: format!("{}: directmemberof {:?}, memberof {:?}", a.label, a.direct, a.memberof),
            });
        }
    }

    let mut cx = Ctx { w: &w, n: &names, rep: &mut rep };
    let mut pend: Vec<Pending> = vec![];
    let ops = {
        let mut txn = w.qs.write(w.ct).await.expect("ops txn");
        build_ops(&w, &mut txn)
    };
    let ncreate = create_specs(&w).len();

    if let Some(path) = &args.replay {
        let txt = std::fs::read_to_string(path).expect("replay file");
        let v: J = serde_json::from_str(&txt).expect("replay json");
        let inp = v.get("input").cloned().unwrap_or(v.clone());
        let inp = inp.get("replay").cloned().unwrap_or(inp);
        if let (Some(ai), Some(level)) = (inp["actor"].as_u64(), inp["level"].as_str()) {
            let ai = ai as usize;
            let mut txn = w.qs.write(w.ct).await.expect("replay txn");
            if level == "create" {
                run_create(&mut cx, &mut txn, ai, inp["create"].as_u64().expect("create") as usize, &mut pend);
            } else {
                let ti = inp["target"].as_u64().expect("target") as usize;
                let oi = inp["op"].as_u64().expect("op") as usize;
                cx.rep.note(format!("replay: {} on {} by {}", format!("{:?}", ops[oi]), w.targets[ti].kind, w.actors[ai].label));
                run_decision(&mut cx, &mut txn, &ops, ai, ti, oi, &mut pend);
                run_operation(&mut cx, &mut txn, &ops, ai, ti, oi, &mut pend);
            }
            flush(&mut cx, &mut d, &mut pend);
        } else {
            cx.rep.note("replay: table / closure comparison re-run above".to_string());
        }
        rep.model_requests = d.requests;
        rep.write(&args.out);
        println!("c25 replay: {} failure(s)", rep.failures.len());
        return;
    }

    // sampling: the full-role and no-role actors of each kind and the control actors see everything at
    // decision level; the other subsets a seeded fraction (all of it in the thorough tier)
    let nsub = w.nsub;
    let always = |ai: usize| ai == 0 || ai == nsub - 1 || ai == nsub || ai == 2 * nsub - 1;
    let (dnum, dden) = if args.thorough() { (1, 1) } else { (args.budget.min(16), 16) };
    let (onum, oden) = if args.thorough() { (args.budget.min(6), 6) } else { (args.budget.min(40), 40) };
    rep_sample_setup(&mut cx, &ops);
    for ai in 0..w.actors.len() {
        let mut txn = w.qs.write(w.ct).await.expect("case txn");
        let full = always(ai);
        for ti in 0..w.targets.len() {
            for oi in 0..ops.len() {
                // the control actors inside the closure: a quarter of the requests in the quick tier
                let rate = if ai >= 2 * nsub { (dnum * 4).min(dden) } else { dnum };
                if full || sampled(args.seed, ai, ti, oi, rate, dden) {
                    run_decision(&mut cx, &mut txn, &ops, ai, ti, oi, &mut pend);
                }
            }
            if pend.len() > 400 {
                flush(&mut cx, &mut d, &mut pend);
            }
        }
        // the actor acting on its own entry (self-write profiles): decision level, every op
        flush(&mut cx, &mut d, &mut pend);
        for ti in 0..w.targets.len() {
            for oi in 0..ops.len() {
                let take = if full { sampled(args.seed ^ 1, ai, ti, oi, onum * 4, oden) } else { sampled(args.seed ^ 1, ai, ti, oi, onum, oden) };
                if take {
                    let dirty = run_operation(&mut cx, &mut txn, &ops, ai, ti, oi, &mut pend);
                    if dirty {
                        drop(txn);
                        txn = w.qs.write(w.ct).await.expect("fresh txn");
                    }
                }
            }
        }
        for ci in 0..ncreate {
            let dirty = run_create(&mut cx, &mut txn, ai, ci, &mut pend);
            if dirty {
                drop(txn);
                txn = w.qs.write(w.ct).await.expect("fresh txn");
            }
        }
        flush(&mut cx, &mut d, &mut pend);
    }
    // the actors on their own entries: targets are the actors themselves
    self_cases(&mut cx, &mut d, &ops, &mut pend).await;

    rep.exhaustive = args.thorough();
    rep.model_requests = d.requests;
    let nt = rep.nontrivial_keys.len() as u64;
    rep.write(&args.out);
    println!(
        "c25 acp-default: {} cases, {} non-trivial, {} model requests, {} failure(s){}",
        rep.evaluations,
        nt,
        rep.model_requests,
        rep.failures.len(),
        if stale.is_empty() { String::new() } else { format!(", stale tables {stale:?}") }
    );
}

fn rep_sample_setup(cx: &mut Ctx<'_>, ops: &[OpSpec]) {
    let w = cx.w;
    cx.rep.sample(json!({"roles_outside_closure": w.roles.iter().map(|u| u.to_string()).collect::<Vec<_>>(), "actors": w.actors.len(), "targets": w.targets.iter().map(|t| t.kind.clone()).collect::<Vec<_>>()}));
    cx.rep.sample(json!({"operations": ops.len(), "first": ops.iter().take(6).map(|o| format!("{o:?}")).collect::<Vec<_>>()}));
    cx.rep.count_n("operations", ops.len() as u64);
    cx.rep.count_n("actors", w.actors.len() as u64);
    cx.rep.count_n("targets", w.targets.len() as u64);
}

/// Every actor on its own entry (the self-write profiles are the only default profiles handed to
/// groups outside the closure): differential + the positive side of the property (a user may change
/// its own credentials while being refused on the high-privilege twins).
async fn self_cases(cx: &mut Ctx<'_>, d: &mut Driver, ops: &[OpSpec], pend: &mut Vec<Pending>) {
    let w = cx.w;
    let mut txn = w.qs.write(w.ct).await.expect("self txn");
    for (ai, a) in w.actors.iter().enumerate() {
        let ident = Identity::from_impersonate_entry_readwrite(a.entry.clone());
        let filter: Filter<FilterInvalid> = Filter::new(f_eq(Attribute::Uuid, PartialValue::Uuid(a.uuid)));
        let ents = vec![a.entry.clone()];
        for (oi, op) in ops.iter().enumerate() {
            let OpSpec::Mod(ms) = op else { continue };
            let Some(m) = ms.real(&mut txn) else { continue };
            let rl = ModifyList::<ModifyInvalid>::new_list(vec![m]);
            let Ok(me) = ModifyEvent::from_internal_parts(ident.clone(), &rl, &filter, &txn) else { continue };
            let real = txn.get_accesscontrols().modify_allow_operation(&me, &ents).expect("modify_allow_operation");
            cx.rep.count(&format!("self-modify-decision:{}", if real { "allowed" } else { "denied" }));
            cx.rep.case(if real { Some(format!("self|{}|{}", a.label, ms.describes())) } else { None });
            pend.push(Pending {
                input: json!({"actor": ai, "self": true, "op": oi, "level": "self"}),
                line: format!("mod\t{}\t-\t{}\t{}", ident_txt(a), ent_model(cx.n, &a.entry), ms.model(cx.n)),
                real: real.to_string(),
                what: "self-modify-decision",
                decision: true,
            });
        }
        if pend.len() > 400 {
            flush(cx, d, pend);
        }
    }
    flush(cx, d, pend);
}
