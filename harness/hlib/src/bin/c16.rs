//! C16 — no dangling references.
//!
//! Drives a real in-memory server (`testkit::setup_test`, one committed write transaction per
//! operation: `internal_create` / `internal_modify_uuid` / `internal_delete` / `revive_recycled`
//! / `purge_recycled` / `purge_tombstones`) and the Lean model (`km_c16`) with the same history
//! over groups, persons, OAuth2 clients and client certificates (`refers` entries).
//!
//! After **every** operation:
//! * oracle (implementation only, written from the property text): every reference-valued value
//!   of every live entry of the whole database (built-in entries, dynamic groups, memberof and
//!   dynmember included) must be the uuid of a live entry.  "Reference-valued" is decided by the
//!   oracle's own list of syntaxes and its own accessors (refer sets, scope-map keys, claim-map
//!   groups read from the proto strings, the resource server of every *non-revoked* OAuth2
//!   session, application-password keys) — never through `get_reference_types` or
//!   `as_ref_uuid_iter`;
//! * correspondence: state (live / recycled / tombstone / absent) and every tracked reference
//!   attribute of every entry of the history, and the accept/refuse result with its error kind,
//!   equal the model's prediction.
//! Stream `pair` drives two replicas (`setup_pair_test`) with operations on either side, uuid and
//! name conflicts, and incremental replication in both directions; oracle on both, no model.
//! Stream `schema` dumps the reference attributes of the booted schema and compares them with the
//! syntax rule the translator read from schema.rs (and with the oracle's own syntax list).
use hlib::*;
use kanidm_lib_crypto::CryptoPolicy;
use kanidmd_lib::credential::apppwd::ApplicationPassword;
use kanidmd_lib::entry::{Entry, EntryInit, EntryNew, EntrySealedCommitted};
use kanidmd_lib::event::ReviveRecycledEvent;
use kanidmd_lib::prelude::*;
use kanidmd_lib::repl::proto::ConsumerState;
use kanidmd_lib::schema::SchemaTransaction;
use kanidmd_lib::testkit::{setup_pair_test, setup_test, TestConfiguration};
use kanidmd_lib::value::{Oauth2Session, OauthClaimMapJoin, SessionState, SyntaxType};
use kanidmd_lib::valueset::ValueSet;
use serde_json::{json, Value as J};
use std::collections::{BTreeMap, BTreeSet};
use std::time::Duration as StdDuration;

const SLOT: u64 = 64;
const NG: u8 = 6; // ids 1..=6 groups
const P0: u8 = 7; // 7..=10 persons
const O0: u8 = 11; // 11..=13 oauth2 clients
const C0: u8 = 14; // 14..=16 client certificates
const GHOST0: u8 = 17; // 17..=19 never created
const LAST: u8 = 19;
const SID0: u8 = 32; // 32..=63 oauth2 session ids (never entry uuids)

const CERT: &str = "-----BEGIN CERTIFICATE-----
MIICeDCCAh6gAwIBAgIBAjAKBggqhkjOPQQDAjCBhDELMAkGA1UEBhMCQVUxDDAK
BgNVBAgMA1FMRDEPMA0GA1UECgwGS2FuaWRtMRwwGgYDVQQDDBNLYW5pZG0gR2Vu
ZXJhdGVkIENBMTgwNgYDVQQLDC9EZXZlbG9wbWVudCBhbmQgRXZhbHVhdGlvbiAt
IE5PVCBGT1IgUFJPRFVDVElPTjAeFw0yNTA3MjkwMzMxMDNaFw0yNTA4MDMwMzMx
MDNaMHoxCzAJBgNVBAYTAkFVMQwwCgYDVQQIDANRTEQxDzANBgNVBAoMBkthbmlk
bTESMBAGA1UEAwwJbG9jYWxob3N0MTgwNgYDVQQLDC9EZXZlbG9wbWVudCBhbmQg
RXZhbHVhdGlvbiAtIE5PVCBGT1IgUFJPRFVDVElPTjBZMBMGByqGSM49AgEGCCqG
SM49AwEHA0IABPFkpVzFH+feItm9JFFm/noge+BlZLpdGWOuSUvfoivAzCgPr7Kr
nGd8kUzIyJermePzu2SVQLaEt/7GY8Ha+2ujgYkwgYYwCQYDVR0TBAIwADAOBgNV
HQ8BAf8EBAMCBaAwEwYDVR0lBAwwCgYIKwYBBQUHAwEwHQYDVR0OBBYEFOjucEtX
mj/wQ7npVaMOyDtLU6dUMB8GA1UdIwQYMBaAFNo5o+5ea0sNMlW/75VgGJCv2AcJ
MBQGA1UdEQQNMAuCCWxvY2FsaG9zdDAKBggqhkjOPQQDAgNIADBFAiEA1TACf4eS
g07LRiKhlMgA+6xxztxiZCuV6LakRp7FZdECIFp0rFSiFJdkLEO9IyqYc+zPW770
ta41VMU3u9UQfHxF
-----END CERTIFICATE-----
";

/// model attribute ids (0..=6 are the ones `KanidmModel/Refint.lean` names)
const A_MEMBER: u8 = 0;
const A_REFERS: u8 = 4;
const A_RDMO: u8 = 5;
const A_CASCADE: u8 = 6;
const A_MANAGED: u8 = 7;
const A_SCOPE: u8 = 8;
const A_SUPSCOPE: u8 = 9;
const A_CLAIM: u8 = 10;
const A_SESSION: u8 = 11;
const A_APPPWD: u8 = 12;

fn attr_of(a: u8) -> Attribute {
    match a {
        0 => Attribute::Member,
        1 => Attribute::DynMember,
        2 => Attribute::MemberOf,
        3 => Attribute::DirectMemberOf,
        4 => Attribute::Refers,
        5 => Attribute::RecycledDirectMemberOf,
        6 => Attribute::CascadeDeleted,
        7 => Attribute::EntryManagedBy,
        8 => Attribute::OAuth2RsScopeMap,
        9 => Attribute::OAuth2RsSupScopeMap,
        10 => Attribute::OAuth2RsClaimMap,
        11 => Attribute::OAuth2Session,
        12 => Attribute::ApplicationPassword,
        x => panic!("attr id {x}"),
    }
}
/// attributes compared with the model (memberof / directmemberof / dynmember are other plugins' output)
const TRACKED: [u8; 10] = [0, 4, 5, 6, 7, 8, 9, 10, 11, 12];

#[derive(Clone, Debug, PartialEq, Eq, PartialOrd, Ord)]
enum V {
    Key(char, u8),       // r | s | p  : refer / scope map / application password key
    Claim(u8, u8),       // claim name, group
    ClaimName(u8),       // empty claim mapping
    Sess(u8, u8, bool),  // sid, rs, revoked
}
#[derive(Clone, Debug, PartialEq, Eq, PartialOrd, Ord)]
enum M {
    Present(u8, V),
    Removed(u8, u8),
    Purged(u8),
}
#[derive(Clone, Debug, PartialEq, Eq, PartialOrd, Ord)]
struct NewEnt {
    id: u8,
    vals: Vec<(u8, V)>,
}
#[derive(Clone, Debug, PartialEq, Eq, PartialOrd, Ord)]
enum Op {
    Create(Vec<NewEnt>),
    Mod(u8, Vec<M>),
    Del(Vec<u8>),
    Rev(Vec<u8>),
    PurgeRec,
    PurgeTomb,
}

fn kind_of(id: u8) -> char {
    if id >= 1 && id <= NG { 'g' } else if id < O0 { 'p' } else if id < C0 { 'o' } else { 'c' }
}

fn v_token(v: &V) -> String {
    match v {
        V::Key(k, u) => format!("{k}:{u}"),
        V::Claim(n, g) => format!("c:{n}>{g}"),
        V::ClaimName(n) => format!("n:{n}"),
        V::Sess(s, r, x) => format!("x:{s}>{r}>{}", *x as u8),
    }
}
fn v_parse(s: &str) -> V {
    let (k, rest) = s.split_once(':').expect("val");
    let n = |x: &str| -> u8 { x.parse().expect("num") };
    match k {
        "r" | "s" | "p" => V::Key(k.chars().next().unwrap(), n(rest)),
        "c" => {
            let (a, b) = rest.split_once('>').expect("claim");
            V::Claim(n(a), n(b))
        }
        "n" => V::ClaimName(n(rest)),
        "x" => {
            let p: Vec<&str> = rest.split('>').collect();
            V::Sess(n(p[0]), n(p[1]), p[2] != "0")
        }
        x => panic!("bad val kind {x}"),
    }
}
fn dots(v: &[u8]) -> String {
    if v.is_empty() { "-".into() } else { v.iter().map(|x| x.to_string()).collect::<Vec<_>>().join(".") }
}
fn commas(v: &[u8]) -> String {
    if v.is_empty() { "-".into() } else { v.iter().map(|x| x.to_string()).collect::<Vec<_>>().join(",") }
}
fn parse_commas(s: &str) -> Vec<u8> {
    if s == "-" || s.is_empty() { vec![] } else { s.split(',').map(|x| x.parse().expect("id")).collect() }
}

/// The model's `<vs>` text of a list of presented values of one attribute.
fn vs_token(vals: &[&V]) -> String {
    match vals[0] {
        V::Key(k, _) => {
            let mut ks: Vec<u8> = vals.iter().filter_map(|v| if let V::Key(_, u) = v { Some(*u) } else { None }).collect();
            ks.sort();
            ks.dedup();
            format!("{k}:{}", dots(&ks))
        }
        V::Claim(..) | V::ClaimName(_) => {
            let mut m: BTreeMap<u8, BTreeSet<u8>> = BTreeMap::new();
            for v in vals {
                match v {
                    V::Claim(n, g) => { m.entry(*n).or_default().insert(*g); }
                    V::ClaimName(n) => { m.entry(*n).or_default(); }
                    _ => {}
                }
            }
            format!("c:{}", m.iter().map(|(n, g)| format!("{n}>{}", dots(&g.iter().copied().collect::<Vec<_>>()))).collect::<Vec<_>>().join("+"))
        }
        V::Sess(..) => {
            let mut m: BTreeMap<u8, (u8, bool)> = BTreeMap::new();
            for v in vals {
                if let V::Sess(s, r, x) = v { m.entry(*s).or_insert((*r, *x)); }
            }
            format!("x:{}", m.iter().map(|(s, (r, x))| format!("{s}>{r}>{}", *x as u8)).collect::<Vec<_>>().join("+"))
        }
    }
}

impl NewEnt {
    fn token(&self) -> String {
        let must = if kind_of(self.id) == 'c' { "4" } else { "-" };
        let mut by: BTreeMap<u8, Vec<&V>> = BTreeMap::new();
        for (a, v) in &self.vals { by.entry(*a).or_default().push(v); }
        let attrs = if by.is_empty() { "-".to_string() } else {
            by.iter().map(|(a, vs)| format!("{a}={}", vs_token(vs))).collect::<Vec<_>>().join(";")
        };
        format!("{}/L/0/{must}/{attrs}", self.id)
    }
    /// replay form: `id|a=val|a=val`
    fn replay(&self) -> String {
        let mut s = self.id.to_string();
        for (a, v) in &self.vals { s += &format!("|{a}={}", v_token(v)); }
        s
    }
    fn parse(s: &str) -> NewEnt {
        let mut it = s.split('|');
        let id = it.next().unwrap().parse().expect("id");
        let vals = it.map(|p| { let (a, v) = p.split_once('=').expect("a=v"); (a.parse().expect("attr"), v_parse(v)) }).collect();
        NewEnt { id, vals }
    }
}

impl M {
    fn token(&self) -> String {
        match self {
            M::Present(a, v) => format!("+{a}={}", v_token(v)),
            M::Removed(a, u) => format!("-{a}={u}"),
            M::Purged(a) => format!("!{a}"),
        }
    }
    fn parse(s: &str) -> M {
        let body = &s[1..];
        match &s[..1] {
            "+" => { let (a, v) = body.split_once('=').expect("a=v"); M::Present(a.parse().expect("attr"), v_parse(v)) }
            "-" => { let (a, u) = body.split_once('=').expect("a=u"); M::Removed(a.parse().expect("attr"), u.parse().expect("u")) }
            "!" => M::Purged(body.parse().expect("attr")),
            x => panic!("bad mod {x}"),
        }
    }
}

impl Op {
    /// driver request (without the `del` stash, which depends on the state)
    fn token(&self) -> String {
        match self {
            Op::Create(es) => format!("create {}", es.iter().map(|e| e.token()).collect::<Vec<_>>().join(" ")),
            Op::Mod(u, ms) => format!("mod {u} {}", ms.iter().map(|m| m.token()).collect::<Vec<_>>().join(" ")),
            Op::Del(ids) => format!("del {}", commas(ids)),
            Op::Rev(ids) => format!("rev {}", commas(ids)),
            Op::PurgeRec => "prec".into(),
            Op::PurgeTomb => "ptomb".into(),
        }
    }
    fn replay(&self) -> String {
        match self {
            Op::Create(es) => format!("create {}", es.iter().map(|e| e.replay()).collect::<Vec<_>>().join(" ")),
            o => o.token(),
        }
    }
    fn parse(s: &str) -> Op {
        let p: Vec<&str> = s.split_whitespace().collect();
        match p[0] {
            "create" => Op::Create(p[1..].iter().map(|e| NewEnt::parse(e)).collect()),
            "mod" => Op::Mod(p[1].parse().expect("id"), p[2..].iter().map(|m| M::parse(m)).collect()),
            "del" => Op::Del(parse_commas(p[1])),
            "rev" => Op::Rev(parse_commas(p[1])),
            "prec" => Op::PurgeRec,
            "ptomb" => Op::PurgeTomb,
            x => panic!("bad op {x}"),
        }
    }
}

// ---------------------------------------------------------------------------------------------
// the implementation side
// ---------------------------------------------------------------------------------------------

fn uuid_of(base: u64, id: u8) -> Uuid {
    nat_uuid(0x1600_0000_0000 + base * SLOT + id as u64)
}
fn id_of(base: u64, u: &Uuid) -> Option<u8> {
    let lo = nat_uuid(0x1600_0000_0000 + base * SLOT).as_u128();
    let v = u.as_u128();
    if v >= lo && v < lo + SLOT as u128 { Some((v - lo) as u8) } else { None }
}

fn far_future() -> time::OffsetDateTime {
    // oauth2 sessions without a parent are revoked by the session plugin once `issued_at` is
    // older than the grace window; the histories jump the clock by weeks, so issue them late
    time::OffsetDateTime::UNIX_EPOCH + time::Duration::days(365 * 200)
}

fn real_value(base: u64, v: &V, cid_ct: Duration) -> Value {
    let u = |i: u8| uuid_of(base, i);
    match v {
        V::Key('r', x) => Value::Refer(u(*x)),
        V::Key('s', x) => Value::new_oauthscopemap(u(*x), ["openid".to_string()].into_iter().collect()).expect("scopemap"),
        V::Key('p', x) => {
            // one hash for the whole run (hashing costs ~1 s unoptimised); the hook only fills the struct
            static PW: std::sync::OnceLock<kanidm_lib_crypto::Password> = std::sync::OnceLock::new();
            static N: std::sync::atomic::AtomicU64 = std::sync::atomic::AtomicU64::new(0);
            let pw = PW.get_or_init(|| {
                let ap = ApplicationPassword::new(Uuid::nil(), "seed", "c16 application password", &CryptoPolicy::minimum()).expect("apppwd");
                kanidmd_lib::verif_hooks::c12::app_password_parts(&ap).3.clone()
            });
            let n = N.fetch_add(1, std::sync::atomic::Ordering::Relaxed);
            Value::ApplicationPassword(kanidmd_lib::verif_hooks::c12::app_password(nat_uuid(0x16AA_0000_0000 + n), u(*x), format!("l{x}"), pw.clone()))
        }
        V::Key(k, _) => panic!("key kind {k}"),
        V::Claim(n, g) => Value::OauthClaimValue(format!("claim{n}"), u(*g), ["v".to_string()].into_iter().collect()),
        V::ClaimName(n) => Value::OauthClaimMap(format!("claim{n}"), OauthClaimMapJoin::CommaSeparatedValue),
        V::Sess(s, r, revoked) => Value::Oauth2Session(
            u(*s),
            Oauth2Session {
                parent: None,
                state: if *revoked { SessionState::RevokedAt(Cid { ts: cid_ct, s_uuid: Uuid::nil() }) } else { SessionState::NeverExpires },
                issued_at: far_future(),
                rs_uuid: u(*r),
            },
        ),
    }
}

fn new_entry(base: u64, ne: &NewEnt, ct: Duration, tag: &str) -> Entry<EntryInit, EntryNew> {
    let mut e: Entry<EntryInit, EntryNew> = Entry::new();
    let i = ne.id;
    e.add_ava(Attribute::Class, EntryClass::Object.to_value());
    e.add_ava(Attribute::Uuid, Value::Uuid(uuid_of(base, i)));
    let name = format!("c16{tag}{}x{base}x{i}", kind_of(i));
    match kind_of(i) {
        'g' => {
            e.add_ava(Attribute::Class, EntryClass::Group.to_value());
            e.add_ava(Attribute::Name, Value::new_iname(&name));
        }
        'p' => {
            e.add_ava(Attribute::Class, EntryClass::Account.to_value());
            e.add_ava(Attribute::Class, EntryClass::Person.to_value());
            e.add_ava(Attribute::Name, Value::new_iname(&name));
            e.add_ava(Attribute::DisplayName, Value::new_utf8s(&name));
        }
        'o' => {
            e.add_ava(Attribute::Class, EntryClass::Account.to_value());
            e.add_ava(Attribute::Class, EntryClass::OAuth2ResourceServer.to_value());
            e.add_ava(Attribute::Class, EntryClass::OAuth2ResourceServerPublic.to_value());
            e.add_ava(Attribute::Name, Value::new_iname(&name));
            e.add_ava(Attribute::DisplayName, Value::new_utf8s(&name));
            e.add_ava(Attribute::OAuth2RsOriginLanding, Value::new_url_s(&format!("https://{name}.example.com/")).unwrap());
        }
        _ => {
            e.add_ava(Attribute::Class, EntryClass::ClientCertificate.to_value());
            e.add_ava(Attribute::Certificate, Value::new_certificate_s(CERT).expect("cert"));
        }
    }
    for (a, v) in &ne.vals {
        e.add_ava(attr_of(*a), real_value(base, v, ct));
    }
    e
}

fn err_kind(e: &OperationError) -> String {
    let s = format!("{e:?}");
    if s.contains("ReferentialIntegrity") { "refint".into() }
    else if s.contains("ReferenceLoop") { "loop".into() }
    else if s.contains("NoMatchingEntries") { "nomatch".into() }
    else if s.contains("SchemaViolation") { "invalid".into() }
    else if s.contains("uuid") && s.contains("exist") || s.contains("UuidExists") || s.contains("Base(") { "exists".into() }
    else { format!("other[{}]", s.chars().take(80).collect::<String>().replace(' ', "_")) }
}

const WEEK_PLUS: u64 = 8 * 86400;

fn exec_op(qs: &QueryServer, rt: &tokio::runtime::Runtime, ct: &mut Duration, base: u64, op: &Op, tag: &str) -> Result<(), String> {
    *ct += Duration::from_secs(1);
    if matches!(op, Op::PurgeRec | Op::PurgeTomb) {
        *ct += Duration::from_secs(WEEK_PLUS);
    }
    let mut w = rt.block_on(qs.write(*ct)).map_err(|e| format!("other[write:{e:?}]"))?;
    let u = |i: u8| uuid_of(base, i);
    let r: Result<(), OperationError> = match op {
        Op::Create(es) => w.internal_create(es.iter().map(|ne| new_entry(base, ne, *ct, tag)).collect()),
        Op::Mod(t, ms) => {
            let mods: Vec<Modify> = ms.iter().map(|m| match m {
                M::Present(a, v) => Modify::Present(attr_of(*a), real_value(base, v, *ct)),
                M::Removed(a, x) => Modify::Removed(attr_of(*a), PartialValue::Refer(u(*x))),
                M::Purged(a) => Modify::Purged(attr_of(*a)),
            }).collect();
            w.internal_modify_uuid(u(*t), &ModifyList::new_list(mods))
        }
        Op::Del(ids) => {
            let f = Filter::new_ignore_hidden(f_or(ids.iter().map(|i| f_eq(Attribute::Uuid, PartialValue::Uuid(u(*i)))).collect()));
            w.internal_delete(&f)
        }
        Op::Rev(ids) => {
            let admin = w.internal_search_uuid(UUID_ADMIN).map_err(|e| format!("other[admin:{e:?}]"))?;
            let ident = Identity::from_impersonate_entry_readwrite(admin);
            let f = Filter::new(f_or(ids.iter().map(|i| f_eq(Attribute::Uuid, PartialValue::Uuid(u(*i)))).collect()));
            match ReviveRecycledEvent::from_parts(ident, &f, &w) {
                Ok(re) => w.revive_recycled(&re),
                Err(e) => Err(e),
            }
        }
        Op::PurgeRec => w.purge_recycled().map(|_| ()),
        Op::PurgeTomb => w.purge_tombstones().map(|_| ()),
    };
    match r {
        Ok(()) => w.commit().map_err(|e| format!("other[commit:{e:?}]")),
        Err(e) => Err(err_kind(&e)),
    }
}

/// One dangling reference found by the oracle.
#[derive(Clone, Debug, PartialEq, Eq, PartialOrd, Ord)]
struct Dang {
    entry: Uuid,
    attr: String,
    target: Uuid,
    target_state: &'static str, // recycled | tombstone | absent
}

#[derive(Clone, Debug, Default)]
struct Observed {
    state: String,
    /// tracked id → (status, directmemberof restricted to tracked ids, refers target)
    meta: BTreeMap<u8, (char, Vec<u8>, Option<u8>)>,
    dangling: Vec<Dang>,
    live_entries: usize,
    refs_checked: usize,
    verify: Vec<String>,
}

/// The oracle's own extraction of reference values (see the module comment).
fn oracle_refs(attr: &Attribute, vs: &ValueSet) -> Vec<Uuid> {
    let _ = attr;
    match vs.syntax() {
        SyntaxType::ReferenceUuid => vs.as_refer_set().map(|s| s.iter().copied().collect()).unwrap_or_default(),
        SyntaxType::OauthScopeMap => vs.as_oauthscopemap().map(|m| m.keys().copied().collect()).unwrap_or_default(),
        SyntaxType::OauthClaimMap => vs
            .to_proto_string_clone_iter()
            .filter_map(|s| {
                // "<claim>: <group uuid> \"<values>\""
                let rest = s.split_once(": ")?.1.to_string();
                let tok = rest.split(' ').next()?.to_string();
                Uuid::parse_str(&tok).ok()
            })
            .collect(),
        SyntaxType::Oauth2Session => vs
            .as_oauth2session_map()
            .map(|m| m.values().filter(|s| !matches!(s.state, SessionState::RevokedAt(_))).map(|s| s.rs_uuid).collect())
            .unwrap_or_default(),
        SyntaxType::ApplicationPassword => vs.as_application_password_map().map(|m| m.keys().copied().collect()).unwrap_or_default(),
        _ => vec![],
    }
}

fn ids_in(base: u64, it: impl Iterator<Item = Uuid>) -> Vec<u8> {
    let mut v: Vec<u8> = it.filter_map(|u| id_of(base, &u)).collect();
    v.sort();
    v.dedup();
    v
}

fn show_attr(base: u64, a: u8, vs: &ValueSet) -> Option<String> {
    let body = match a {
        A_MEMBER | A_REFERS | A_RDMO | A_MANAGED => {
            let ks = ids_in(base, vs.as_refer_set()?.iter().copied());
            if ks.is_empty() { return None; }
            format!("r:{}", dots(&ks))
        }
        A_CASCADE => {
            let ks = ids_in(base, vs.as_uuid_set()?.iter().copied());
            if ks.is_empty() { return None; }
            format!("u:{}", dots(&ks))
        }
        A_SCOPE | A_SUPSCOPE => {
            let ks = ids_in(base, vs.as_oauthscopemap()?.keys().copied());
            if ks.is_empty() { return None; }
            format!("s:{}", dots(&ks))
        }
        A_APPPWD => {
            let ks = ids_in(base, vs.as_application_password_map()?.keys().copied());
            if ks.is_empty() { return None; }
            format!("p:{}", dots(&ks))
        }
        A_CLAIM => {
            // claim names come from the partial values, groups from the proto strings
            let mut m: BTreeMap<u8, BTreeSet<u8>> = BTreeMap::new();
            for pv in vs.to_partialvalue_iter() {
                if let PartialValue::Iutf8(n) = pv {
                    if let Some(k) = n.strip_prefix("claim").and_then(|x| x.parse::<u8>().ok()) { m.entry(k).or_default(); }
                }
            }
            for s in vs.to_proto_string_clone_iter() {
                if let Some((n, rest)) = s.split_once(": ") {
                    if let (Some(k), Some(g)) = (
                        n.strip_prefix("claim").and_then(|x| x.parse::<u8>().ok()),
                        rest.split(' ').next().and_then(|t| Uuid::parse_str(t).ok()).and_then(|u| id_of(base, &u)),
                    ) {
                        m.entry(k).or_default().insert(g);
                    }
                }
            }
            if m.is_empty() { return None; }
            format!("c:{}", m.iter().map(|(n, g)| format!("{n}>{}", dots(&g.iter().copied().collect::<Vec<_>>()))).collect::<Vec<_>>().join("+"))
        }
        A_SESSION => {
            let m = vs.as_oauth2session_map()?;
            let mut out: BTreeMap<u8, String> = BTreeMap::new();
            for (sid, s) in m.iter() {
                // revoked sessions are trimmed lazily by the code and are inert for refint: not compared
                if matches!(s.state, SessionState::RevokedAt(_)) { continue; }
                let sid = id_of(base, sid)?;
                let rs = id_of(base, &s.rs_uuid)?;
                out.insert(sid, format!("{sid}>{rs}>{}", matches!(s.state, SessionState::RevokedAt(_)) as u8));
            }
            if out.is_empty() { return None; }
            format!("x:{}", out.into_values().collect::<Vec<_>>().join("+"))
        }
        _ => return None,
    };
    Some(format!("{a}={body}"))
}

/// Read everything back: tracked state (model format) + oracle over all live entries.
fn observe(qs: &QueryServer, rt: &tokio::runtime::Runtime, base: u64, with_verify: bool) -> Result<Observed, String> {
    let mut obs = Observed::default();
    let mut r = rt.block_on(qs.read()).map_err(|e| format!("read:{e:?}"))?;
    // ---- tracked entries in any state
    let f = Filter::new(f_or((1..=LAST).map(|i| f_eq(Attribute::Uuid, PartialValue::Uuid(uuid_of(base, i)))).collect()));
    let es = r.internal_search(f).map_err(|e| format!("search:{e:?}"))?;
    let mut by_id: BTreeMap<u8, &std::sync::Arc<EntrySealedCommitted>> = BTreeMap::new();
    for e in es.iter() {
        if let Some(i) = id_of(base, &e.get_uuid()) { by_id.insert(i, e); }
    }
    let mut parts = vec![];
    for (i, e) in by_id {
        let recycled = e.attribute_equality(Attribute::Class, &EntryClass::Recycled.into());
        let tomb = e.attribute_equality(Attribute::Class, &EntryClass::Tombstone.into());
        let st = if tomb { 'T' } else if recycled { 'R' } else { 'L' };
        let mut attrs = vec![];
        for a in TRACKED {
            if let Some(vs) = e.get_ava_set(attr_of(a)) {
                if let Some(s) = show_attr(base, a, vs) { attrs.push(s); }
            }
        }
        parts.push(format!("{i}/{st}/{}", if attrs.is_empty() { "-".into() } else { attrs.join(";") }));
        let dmo = ids_in(base, e.get_ava_refer(Attribute::DirectMemberOf).map(|s| s.iter().copied().collect::<Vec<_>>()).unwrap_or_default().into_iter());
        let refers = e.get_ava_single_refer(Attribute::Refers).and_then(|u| id_of(base, &u));
        obs.meta.insert(i, (st, dmo, refers));
    }
    obs.state = if parts.is_empty() { "-".into() } else { parts.join(" ") };
    // ---- oracle
    let live_es = r.internal_search(Filter::new_ignore_hidden(f_pres(Attribute::Class))).map_err(|e| format!("search-live:{e:?}"))?;
    let live: BTreeSet<Uuid> = live_es.iter().map(|e| e.get_uuid()).collect();
    obs.live_entries = live.len();
    let mut suspects: Vec<(Uuid, String, Uuid)> = vec![];
    for e in live_es.iter() {
        for (attr, vs) in e.get_ava_iter() {
            for t in oracle_refs(attr, vs) {
                obs.refs_checked += 1;
                if !live.contains(&t) { suspects.push((e.get_uuid(), attr.to_string(), t)); }
            }
        }
    }
    if !suspects.is_empty() {
        let all = r.internal_search(Filter::new(f_pres(Attribute::Class))).map_err(|e| format!("search-all:{e:?}"))?;
        let mut st: BTreeMap<Uuid, &'static str> = BTreeMap::new();
        for e in all.iter() {
            let s = if e.attribute_equality(Attribute::Class, &EntryClass::Tombstone.into()) { "tombstone" }
                else if e.attribute_equality(Attribute::Class, &EntryClass::Recycled.into()) { "recycled" } else { "live" };
            st.insert(e.get_uuid(), s);
        }
        for (en, attr, t) in suspects {
            obs.dangling.push(Dang { entry: en, attr, target: t, target_state: st.get(&t).copied().unwrap_or("absent") });
        }
        obs.dangling.sort();
    }
    if with_verify {
        drop(r);
        obs.verify = rt.block_on(qs.verify()).into_iter().filter_map(|x| x.err()).map(|e| format!("{e:?}")).filter(|s| s.contains("Refint")).collect();
    }
    Ok(obs)
}

// ---------------------------------------------------------------------------------------------
// failure classes (recognised on the observed implementation state and the op that ran)
// ---------------------------------------------------------------------------------------------

/// An active OAuth2 session presented for a resource server that is not live is accepted when the
/// same entry already holds a *revoked* session for that resource server: `as_ref_uuid_iter`
/// lists revoked sessions too, so the uuid is in the previous reference set and never checked.
const MASKED: &str = "C16:active-session-to-dead-rs-masked-by-revoked-session";

/// Replication: a candidate that is recycled (or a conflict) on arrival still matches a dyngroup
/// filter in `DynGroup::post_modify` and is (re-)added to `dynmember` after refint's fix-up ran.
const REPL_DYN: &str = "C16:repl-recycled-entry-added-to-dynmember";

fn classify(d: &Dang, base: u64, last_obs_state: &str, op: Option<&Op>) -> String {
    if d.attr == "dynmember" && op.is_none() && d.target_state == "recycled" {
        return REPL_DYN.into();
    }
    if d.attr == "oauth2_session" {
        if let (Some(Op::Mod(t, ms)), Some(holder), Some(rs)) = (op, id_of(base, &d.entry), id_of(base, &d.target)) {
            let presented = ms.iter().any(|m| matches!(m, M::Present(A_SESSION, V::Sess(_, r, false)) if *r == rs));
            // before the op the holder already had a revoked session bound to that rs
            let had_revoked = last_obs_state.split(' ').any(|e| {
                e.starts_with(&format!("{holder}/")) && e.split(|c| c == ';' || c == '/').any(|a| {
                    a.starts_with("11=x:") && a[5..].split('+').any(|s| { let p: Vec<&str> = s.split('>').collect(); p.len() == 3 && p[1] == rs.to_string() && p[2] == "1" })
                })
            });
            if *t == holder && presented && had_revoked { return MASKED.into(); }
        }
    }
    "unclassified".into()
}

// ---------------------------------------------------------------------------------------------
// one history against server + model
// ---------------------------------------------------------------------------------------------

struct World {
    qs: QueryServer,
    rt: tokio::runtime::Runtime,
    ct: Duration,
    used: u64,
}
impl World {
    fn new() -> World {
        let t = std::time::Instant::now();
        let rt = tokio::runtime::Builder::new_current_thread().enable_all().build().unwrap();
        let qs = rt.block_on(setup_test(TestConfiguration::default()));
        if std::env::var("C16_DEBUG").is_ok() { eprintln!("C16DBG boot {:?}", t.elapsed()); }
        World { qs, rt, ct: duration_from_epoch_now(), used: 0 }
    }
}

#[derive(Default)]
struct Outcome {
    model_fail: Option<(usize, String, String)>, // step, expected(model), observed(impl)
    oracle_fail: Option<(usize, Vec<Dang>, String)>, // step, discrepancies, class
    verify_fail: Option<(usize, Vec<String>)>,
    ops_run: usize,
    refused: usize,
    kinds: BTreeMap<String, u64>,
    refs_checked: usize,
    states: Vec<String>,
    masked_seen: bool,
}

fn stash_for(op: &Op, obs: &Observed) -> String {
    if let Op::Del(ids) = op {
        let targets: Vec<u8> = ids.iter().copied().filter(|i| obs.meta.get(i).map(|m| m.0 == 'L').unwrap_or(false)).collect();
        let mut all = targets.clone();
        for (i, (st, _, refers)) in &obs.meta {
            if *st == 'L' && refers.map(|r| targets.contains(&r)).unwrap_or(false) { all.push(*i); }
        }
        let mut out = String::new();
        for i in all {
            if let Some((_, dmo, _)) = obs.meta.get(&i) {
                if !dmo.is_empty() { out += &format!(" {i}>{}", dots(dmo)); }
            }
        }
        out
    } else { String::new() }
}

fn run_history(w: &mut World, drv: Option<&mut Driver>, base: u64, ops: &[Op], check_verify: bool) -> Outcome {
    let mut out = Outcome::default();
    let mut drv = drv;
    if let Some(d) = drv.as_deref_mut() { assert_eq!(d.ask("reset"), "ok"); }
    let mut obs = match observe(&w.qs, &w.rt, base, false) { Ok(o) => o, Err(e) => { out.model_fail = Some((0, "observe".into(), e)); return out; } };
    for (k, op) in ops.iter().enumerate() {
        let prev_state = obs.state.clone();
        let line = format!("op {}{}", op.token(), stash_for(op, &obs));
        let res = match std::panic::catch_unwind(std::panic::AssertUnwindSafe(|| exec_op(&w.qs, &w.rt, &mut w.ct, base, op, ""))) {
            Ok(Ok(())) => "ok".to_string(),
            Ok(Err(e)) => format!("err:{e}"),
            Err(_) => "err:panic".to_string(),
        };
        out.ops_run += 1;
        if res != "ok" { out.refused += 1; }
        *out.kinds.entry(format!("op:{}:{}", op.token().split(' ').next().unwrap(), if res == "ok" { "ok" } else { res.split('[').next().unwrap() })).or_insert(0) += 1;
        obs = match observe(&w.qs, &w.rt, base, check_verify && k + 1 == ops.len()) { Ok(o) => o, Err(e) => { out.model_fail = Some((k, "observe".into(), e)); return out; } };
        out.refs_checked += obs.refs_checked;
        out.states.push(obs.state.clone());
        // ---- oracle first: it never depends on the model
        if !obs.dangling.is_empty() && out.oracle_fail.is_none() {
            let class = classify(&obs.dangling[0], base, &prev_state, Some(op));
            if class == MASKED { out.masked_seen = true; }
            out.oracle_fail = Some((k, obs.dangling.clone(), class));
        }
        if check_verify && !obs.verify.is_empty() && out.verify_fail.is_none() && obs.dangling.is_empty() {
            out.verify_fail = Some((k, obs.verify.clone()));
        }
        // ---- correspondence
        if let Some(d) = drv.as_deref_mut() {
            let reply = d.ask(&line);
            let (mres, mstate) = reply.split_once(' ').unwrap_or((reply.as_str(), ""));
            let same_res = if res.starts_with("err:other") || res == "err:panic" { mres.starts_with("err") } else { mres == res };
            if (!same_res || mstate != obs.state) && out.model_fail.is_none() {
                out.model_fail = Some((k, format!("{mres} {mstate}"), format!("{res} {}", obs.state)));
            }
            if out.model_fail.is_some() && out.oracle_fail.is_some() { break; }
            if out.model_fail.is_some() {
                // the model no longer follows; keep executing for the oracle only
                drv = None;
            }
        }
        if out.oracle_fail.is_some() && drv.is_none() { break; }
    }
    out
}

/// Delete whatever the history left alive so that the next history on this server starts clean.
fn cleanup(w: &mut World, base: u64) {
    if let Ok(o) = observe(&w.qs, &w.rt, base, false) {
        // certificates first (a cascade set must be disjoint from the delete set)
        for pass in 0..2 {
            let ids: Vec<u8> = o.meta.iter().filter(|(i, m)| m.0 == 'L' && ((kind_of(**i) == 'c') == (pass == 0))).map(|(i, _)| *i).collect();
            if !ids.is_empty() { let _ = exec_op(&w.qs, &w.rt, &mut w.ct, base, &Op::Del(ids), ""); }
        }
    }
}

// ---------------------------------------------------------------------------------------------
// generators
// ---------------------------------------------------------------------------------------------

#[derive(Default, Clone)]
struct Shadow {
    st: BTreeMap<u8, char>, // L R T ; absent = not in map
    next_sid: u8,
    /// (holder, rs) pairs for which the holder has a session
    sess: Vec<(u8, u8, u8)>, // holder, sid, rs
    members: BTreeMap<u8, BTreeSet<u8>>,
    refers: BTreeMap<u8, u8>,
}
impl Shadow {
    fn with(&self, c: char) -> Vec<u8> { self.st.iter().filter(|(_, s)| **s == c).map(|(i, _)| *i).collect() }
    fn live(&self) -> Vec<u8> { self.with('L') }
    fn absent(&self, lo: u8, hi: u8) -> Vec<u8> { (lo..=hi).filter(|i| !self.st.contains_key(i)).collect() }
    fn sync(&mut self, state: &str) {
        self.st.clear();
        self.members.clear();
        self.refers.clear();
        if state == "-" { return; }
        for e in state.split(' ') {
            let p: Vec<&str> = e.split('/').collect();
            let id: u8 = p[0].parse().unwrap();
            self.st.insert(id, p[1].chars().next().unwrap());
            for a in p[2].split(';') {
                if let Some(v) = a.strip_prefix("0=r:") { self.members.insert(id, v.split('.').filter_map(|x| x.parse().ok()).collect()); }
                if let Some(v) = a.strip_prefix("4=r:") { if let Ok(t) = v.parse() { self.refers.insert(id, t); } }
            }
        }
    }
    /// a target for a reference: mostly live, sometimes recycled / tombstoned / never created
    fn target(&self, r: &mut Rng, pool: &[u8], bad: u64) -> u8 {
        let live: Vec<u8> = pool.iter().copied().filter(|i| self.st.get(i) == Some(&'L')).collect();
        let dead: Vec<u8> = pool.iter().copied().filter(|i| matches!(self.st.get(i), Some('R') | Some('T'))).collect();
        if r.chance(bad, 100) || live.is_empty() {
            if !dead.is_empty() && r.chance(2, 3) { *r.pick(&dead) } else { GHOST0 + r.below(3) as u8 }
        } else { *r.pick(&live) }
    }
}

fn all_ids() -> Vec<u8> { (1..C0 + 3).collect() }

fn gen_op(r: &mut Rng, sh: &mut Shadow, bad: u64) -> Op {
    let everyone = all_ids();
    let groups: Vec<u8> = (1..=NG).collect();
    let live = sh.live();
    for _ in 0..40 {
        let roll = r.below(100);
        if roll < 22 || live.len() < 3 {
            // ---- create (1-2 entries)
            let kind = *r.pick(&['g', 'g', 'p', 'p', 'o', 'c']);
            let (lo, hi) = match kind { 'g' => (1, NG), 'p' => (P0, O0 - 1), 'o' => (O0, C0 - 1), _ => (C0, C0 + 2) };
            let free = sh.absent(lo, hi);
            if free.is_empty() { continue; }
            let id = *r.pick(&free);
            let mut es = vec![];
            let mut vals = vec![];
            match kind {
                'g' => {
                    let pool: Vec<u8> = everyone.iter().copied().filter(|j| *j > id).collect();
                    for _ in 0..r.below(4) { if !pool.is_empty() { vals.push((A_MEMBER, V::Key('r', sh.target(r, &pool, bad)))); } }
                    if r.chance(1, 3) { vals.push((A_MANAGED, V::Key('r', sh.target(r, &everyone, bad)))); }
                }
                'p' => {
                    if r.chance(1, 4) { vals.push((A_MANAGED, V::Key('r', sh.target(r, &everyone, bad)))); }
                }
                'o' => {
                    for _ in 0..r.below(3) { vals.push((A_SCOPE, V::Key('s', sh.target(r, &groups, bad)))); }
                    if r.chance(1, 3) { vals.push((A_SUPSCOPE, V::Key('s', sh.target(r, &groups, bad)))); }
                    if r.chance(1, 2) { vals.push((A_CLAIM, V::Claim(1 + r.below(2) as u8, sh.target(r, &groups, bad)))); }
                }
                _ => {
                    // a certificate refers to a person or group (sometimes to another certificate: refused as a loop)
                    let pool: Vec<u8> = if r.chance(1, 8) { (C0..C0 + 3).collect() } else { (1..O0).collect() };
                    if r.chance(1, 5) {
                        // created together with the person it refers to (reference inside one transaction)
                        let freep = sh.absent(P0, O0 - 1);
                        if let Some(p) = freep.first() {
                            es.push(NewEnt { id: *p, vals: vec![] });
                            vals.push((A_REFERS, V::Key('r', *p)));
                        } else { vals.push((A_REFERS, V::Key('r', sh.target(r, &pool, bad)))); }
                    } else if r.chance(1, 25) {
                        // no `refers` at all: schema violation
                    } else { vals.push((A_REFERS, V::Key('r', sh.target(r, &pool, bad)))); }
                }
            }
            es.push(NewEnt { id, vals });
            return Op::Create(es);
        } else if roll < 62 {
            // ---- modify a live entry
            if live.is_empty() { continue; }
            let t = *r.pick(&live);
            let mut ms = vec![];
            match kind_of(t) {
                'g' => {
                    let pool: Vec<u8> = everyone.iter().copied().filter(|j| *j > t).collect();
                    match r.below(7) {
                        0 | 1 => { for _ in 0..1 + r.below(3) { if !pool.is_empty() { ms.push(M::Present(A_MEMBER, V::Key('r', sh.target(r, &pool, bad)))); } } }
                        2 => {
                            // the D14 shape: a live and a non-live uuid presented together
                            let lv: Vec<u8> = pool.iter().copied().filter(|i| sh.st.get(i) == Some(&'L')).collect();
                            if let Some(l) = lv.first() { ms.push(M::Present(A_MEMBER, V::Key('r', *l))); }
                            if !pool.is_empty() { ms.push(M::Present(A_MEMBER, V::Key('r', sh.target(r, &pool, 100)))); }
                        }
                        3 => { if let Some(m) = sh.members.get(&t).and_then(|s| s.iter().next()) { ms.push(M::Removed(A_MEMBER, *m)); } else { ms.push(M::Removed(A_MEMBER, *r.pick(&everyone))); } }
                        4 => { ms.push(M::Purged(A_MEMBER)); if r.chance(1, 2) && !pool.is_empty() { ms.push(M::Present(A_MEMBER, V::Key('r', sh.target(r, &pool, bad)))); } }
                        5 => { ms.push(M::Purged(A_MANAGED)); ms.push(M::Present(A_MANAGED, V::Key('r', sh.target(r, &everyone, bad)))); }
                        _ => { ms.push(M::Purged(A_MANAGED)); }
                    }
                }
                'p' => {
                    let clients: Vec<u8> = (O0..C0).collect();
                    match r.below(8) {
                        0 | 1 | 2 => {
                            if sh.next_sid < 30 {
                                let sid = SID0 + sh.next_sid;
                                sh.next_sid += 1;
                                let rs = sh.target(r, &clients, bad);
                                sh.sess.push((t, sid, rs));
                                ms.push(M::Present(A_SESSION, V::Sess(sid, rs, r.chance(1, 8))));
                            }
                        }
                        3 => {
                            // a second session for a resource server the person already has a session for
                            let mine: Vec<(u8, u8, u8)> = sh.sess.iter().copied().filter(|s| s.0 == t).collect();
                            if !mine.is_empty() && sh.next_sid < 30 {
                                let (_, _, rs) = *r.pick(&mine);
                                let sid = SID0 + sh.next_sid;
                                sh.next_sid += 1;
                                sh.sess.push((t, sid, rs));
                                ms.push(M::Present(A_SESSION, V::Sess(sid, rs, false)));
                            }
                        }
                        4 => { let mine: Vec<(u8, u8, u8)> = sh.sess.iter().copied().filter(|s| s.0 == t).collect(); if !mine.is_empty() { ms.push(M::Removed(A_SESSION, r.pick(&mine).1)); } }
                        5 => { ms.push(M::Purged(A_SESSION)); }
                        6 => { ms.push(M::Present(A_APPPWD, V::Key('p', sh.target(r, &everyone, bad)))); }
                        _ => { if r.chance(1, 2) { ms.push(M::Purged(A_APPPWD)); } else { ms.push(M::Removed(A_APPPWD, *r.pick(&everyone))); } }
                    }
                }
                'o' => {
                    let a = if r.chance(2, 3) { A_SCOPE } else { A_SUPSCOPE };
                    match r.below(7) {
                        0 | 1 => { ms.push(M::Present(a, V::Key('s', sh.target(r, &groups, bad)))); }
                        2 => { ms.push(M::Removed(a, *r.pick(&groups))); }
                        3 => { ms.push(M::Present(A_CLAIM, V::Claim(1 + r.below(2) as u8, sh.target(r, &groups, bad)))); }
                        4 => { ms.push(M::Removed(A_CLAIM, *r.pick(&groups))); }
                        5 => { ms.push(M::Present(A_CLAIM, V::Claim(1 + r.below(2) as u8, sh.target(r, &groups, bad)))); ms.push(M::Present(a, V::Key('s', sh.target(r, &groups, bad)))); }
                        _ => { ms.push(M::Purged(if r.chance(1, 2) { A_CLAIM } else { a })); }
                    }
                }
                _ => {
                    let pool: Vec<u8> = if r.chance(1, 6) { (C0..C0 + 3).filter(|c| *c != t).collect() } else { (1..O0).collect() };
                    ms.push(M::Purged(A_REFERS));
                    if !r.chance(1, 10) { ms.push(M::Present(A_REFERS, V::Key('r', sh.target(r, &pool, bad)))); }
                }
            }
            if ms.is_empty() { continue; }
            return Op::Mod(t, ms);
        } else if roll < 80 {
            // ---- delete 1-2 live entries (never an entry together with a certificate referring to it)
            if live.is_empty() { continue; }
            let mut ids = vec![*r.pick(&live)];
            if r.chance(1, 4) {
                let o = *r.pick(&live);
                let clash = sh.refers.get(&o) == Some(&ids[0]) || sh.refers.get(&ids[0]) == Some(&o);
                if o != ids[0] && !clash { ids.push(o); }
            }
            if r.chance(1, 12) { ids = vec![GHOST0]; }
            return Op::Del(ids);
        } else if roll < 93 {
            let rec = sh.with('R');
            if rec.is_empty() { if r.chance(1, 5) { return Op::Rev(vec![*r.pick(&everyone)]); } continue; }
            let mut ids = vec![*r.pick(&rec)];
            if r.chance(1, 4) { let o = *r.pick(&rec); if o != ids[0] { ids.push(o); } }
            return Op::Rev(ids);
        } else if roll < 97 {
            return Op::PurgeRec;
        } else {
            return Op::PurgeTomb;
        }
    }
    Op::PurgeRec
}

fn corpus() -> Vec<(&'static str, Vec<&'static str>)> {
    vec![
        // D14 (fixed by ed82400): a live and a recycled uuid presented together must be refused
        ("d14-live-plus-recycled", vec!["create 7", "create 8", "create 1", "del 8", "mod 1 +0=r:7 +0=r:8", "mod 1 +0=r:8", "mod 1 +0=r:7"]),
        ("d14-on-create", vec!["create 7", "create 8", "del 8", "create 1|0=r:7|0=r:8", "ptomb", "prec", "create 1|0=r:7|0=r:8", "ptomb", "create 1|0=r:7|0=r:8"]),
        // D10 (fixed by edffff2): reviving a person re-evaluates the built-in dyngroups; a recycled person must not re-enter dynmember
        ("d10-revive-reevaluates-dyngroups", vec!["create 7", "create 8", "del 7", "del 8", "rev 8", "create 9", "del 9", "rev 7"]),
        // delete strips every syntax; revive restores nothing that is gone
        ("delete-strips-all-syntaxes", vec![
            "create 2", "create 7", "create 11|8=s:2|9=s:2|10=c:1>2", "create 1|0=r:2|0=r:7|7=r:2", "mod 7 +11=x:32>11>0 +12=p:2",
            "del 2", "rev 2", "del 11", "rev 11", "del 7", "rev 7",
        ]),
        // cascade: a certificate dies and revives with the entry it refers to
        ("cascade-delete-revive", vec!["create 7", "create 14|4=r:7", "create 1|0=r:14", "del 7", "rev 14", "rev 7", "del 14", "del 7", "rev 14", "rev 7", "rev 14"]),
        ("refers-loop-refused", vec!["create 7", "create 14|4=r:7", "create 15|4=r:14", "create 15|4=r:7", "mod 15 !4 +4=r:14"]),
        // recycled entries are swept too: revive after the target died
        ("recycled-holder-swept", vec!["create 7", "create 1|0=r:7", "del 1", "del 7", "rev 1", "prec", "ptomb", "create 7", "mod 1 +0=r:7"]),
        ("group-readd-on-revive", vec!["create 7", "create 1|0=r:7", "create 2|0=r:7", "del 7", "del 2", "rev 7", "rev 2"]),
        // a revoked session keeps its resource server uuid (exemption), the holder can still be modified
        ("revoked-session-kept", vec!["create 11", "create 7", "mod 7 +11=x:32>11>0", "del 11", "mod 7 +12=p:7", "prec", "ptomb", "mod 7 !12"]),
    ]
}

/// The witness of the masked-session finding (kept out of the generic streams' pass/fail by its class).
fn masked_witness() -> Vec<&'static str> {
    vec!["create 11", "create 7", "mod 7 +11=x:32>11>0", "del 11", "mod 7 +11=x:33>11>0"]
}

// ---------------------------------------------------------------------------------------------
// replicated pair (oracle only)
// ---------------------------------------------------------------------------------------------

#[derive(Clone, Debug)]
enum RStep {
    On(usize, Op),
    Repl(usize, usize),
}
impl RStep {
    fn token(&self) -> String {
        match self { RStep::On(s, op) => format!("on {s} {}", op.replay()), RStep::Repl(a, b) => format!("repl {a} {b}") }
    }
    fn parse(s: &str) -> RStep {
        let p: Vec<&str> = s.splitn(3, ' ').collect();
        match p[0] {
            "on" => RStep::On(p[1].parse().unwrap(), Op::parse(p[2])),
            "repl" => RStep::Repl(p[1].parse().unwrap(), p[2].parse().unwrap()),
            x => panic!("bad rstep {x}"),
        }
    }
}

struct Pair {
    qs: Vec<QueryServer>,
    rt: tokio::runtime::Runtime,
    ct: Duration,
    used: u64,
}
impl Pair {
    fn new() -> Pair {
        let rt = tokio::runtime::Builder::new_current_thread().enable_all().build().unwrap();
        let (a, b) = rt.block_on(setup_pair_test(TestConfiguration::default()));
        let mut ct = duration_from_epoch_now();
        {
            ct += Duration::from_secs(1);
            let mut a_r = rt.block_on(a.read()).expect("read a");
            let mut b_w = rt.block_on(b.write(ct)).expect("write b");
            let ctx = a_r.supplier_provide_refresh().expect("refresh ctx");
            b_w.consumer_apply_refresh(ctx).expect("apply refresh");
            b_w.commit().expect("commit refresh");
        }
        Pair { qs: vec![a, b], rt, ct, used: 0 }
    }
    fn repl(&mut self, from: usize, to: usize) -> Result<(), String> {
        self.ct += Duration::from_secs(1);
        let mut from_r = self.rt.block_on(self.qs[from].read()).map_err(|e| format!("read:{e:?}"))?;
        let mut to_w = self.rt.block_on(self.qs[to].write(self.ct)).map_err(|e| format!("write:{e:?}"))?;
        let state = to_w.consumer_get_state().map_err(|e| format!("consumer_get_state:{e:?}"))?;
        let changes = from_r.supplier_provide_changes(state).map_err(|e| format!("supplier_provide_changes:{e:?}"))?;
        match to_w.consumer_apply_changes(changes).map_err(|e| format!("consumer_apply_changes:{e:?}"))? {
            ConsumerState::Ok => to_w.commit().map_err(|e| format!("commit:{e:?}")),
            ConsumerState::RefreshRequired => Err("refresh-required".into()),
        }
    }
}

fn gen_pair_history(r: &mut Rng, len: usize) -> Vec<RStep> {
    // two shadows, one per replica; a replication step copies nothing in the shadow (the
    // generator only needs plausible targets; what is live is re-read from the server)
    let mut sh = [Shadow::default(), Shadow::default()];
    let mut out = vec![];
    for _ in 0..len {
        if r.chance(1, 4) {
            let a = r.below(2) as usize;
            out.push(RStep::Repl(a, 1 - a));
            // optimistic: the consumer now knows what the supplier knew
            let src = sh[a].clone();
            for (k, v) in src.st.iter() { sh[1 - a].st.insert(*k, *v); }
            continue;
        }
        let s = r.below(2) as usize;
        let mut op = gen_op(r, &mut sh[s], 10);
        // the shadow of the pair stream does not know who refers to whom: single-target deletes only
        // (delete.rs debug-asserts that the cascade set is disjoint from the candidates)
        if let Op::Del(ids) = &op { if ids.len() > 1 { op = Op::Del(vec![ids[0]]); } }
        if matches!(op, Op::PurgeTomb) { op = Op::PurgeRec; } // trimming the changelog makes supplies refuse; not this property
        if matches!(op, Op::PurgeRec) && !r.chance(1, 3) { continue; }
        // optimistic shadow update
        match &op {
            Op::Create(es) => for e in es { sh[s].st.insert(e.id, 'L'); },
            Op::Del(ids) => for i in ids { if sh[s].st.get(i) == Some(&'L') { sh[s].st.insert(*i, 'R'); } },
            Op::Rev(ids) => for i in ids { if sh[s].st.get(i) == Some(&'R') { sh[s].st.insert(*i, 'L'); } },
            _ => {}
        }
        out.push(RStep::On(s, op));
    }
    // quiesce
    out.push(RStep::Repl(0, 1));
    out.push(RStep::Repl(1, 0));
    out.push(RStep::Repl(0, 1));
    out
}

/// Scripted pair histories run first (regressions as passing cases).
fn pair_corpus() -> Vec<Vec<&'static str>> {
    vec![
        // D38 (fixed by 6576473): an entry that arrives already recycled must not enter dynmember
        vec!["on 0 create 9", "on 0 del 9", "repl 0 1", "repl 1 0", "on 1 rev 9", "repl 1 0"],
        // a member added on one side while the target is deleted on the other
        vec!["on 0 create 7", "on 0 create 1", "repl 0 1", "on 1 del 7", "on 0 mod 1 +0=r:7", "repl 0 1", "repl 1 0", "repl 0 1"],
        // same uuid created on both sides (uuid conflict), referenced from a group on one side
        vec!["on 0 create 7", "on 1 create 7", "on 0 create 1|0=r:7", "on 1 create 2|0=r:7", "repl 0 1", "repl 1 0", "repl 0 1"],
        // an oauth2 session on one side, the client deleted on the other
        vec!["on 0 create 11", "on 0 create 7", "repl 0 1", "on 1 mod 7 +11=x:32>11>0", "on 0 del 11", "repl 0 1", "repl 1 0", "on 0 mod 7 +11=x:33>11>0", "repl 0 1"],
    ]
}

struct POutcome {
    oracle_fail: Option<(usize, usize, Vec<Dang>, String)>,
    /// classes recognised on the way (the history goes on: only new dangling triples count)
    classified: Vec<(usize, usize, Vec<Dang>, String)>,
    steps: usize,
    repl_ok: usize,
    repl_err: Vec<String>,
    refs_checked: usize,
    conflicts_seen: usize,
}

fn run_pair_history(p: &mut Pair, base: u64, steps: &[RStep]) -> POutcome {
    let mut seen: BTreeSet<(usize, Dang)> = BTreeSet::new();
    let mut o = POutcome { oracle_fail: None, classified: vec![], steps: 0, repl_ok: 0, repl_err: vec![], refs_checked: 0, conflicts_seen: 0 };
    let mut prev = [String::new(), String::new()];
    // baseline: what earlier histories on this pair (and their clean-up) left behind is not this history's
    for srv in 0..2 {
        if let Ok(obs) = observe(&p.qs[srv], &p.rt, base, false) {
            for d in obs.dangling { seen.insert((srv, d)); }
        }
    }
    for (k, st) in steps.iter().enumerate() {
        o.steps += 1;
        let (touched, op): (usize, Option<&Op>) = match st {
            RStep::On(s, op) => {
                // entries created on different replicas get different names unless the uuid is the point
                let tag = if *s == 0 { "a" } else { "b" };
                let _ = std::panic::catch_unwind(std::panic::AssertUnwindSafe(|| exec_op(&p.qs[*s], &p.rt, &mut p.ct, base, op, tag)));
                (*s, Some(op))
            }
            RStep::Repl(a, b) => {
                match p.repl(*a, *b) { Ok(()) => o.repl_ok += 1, Err(e) => { if o.repl_err.len() < 3 { o.repl_err.push(e.chars().take(120).collect()); } } }
                (*b, None)
            }
        };
        match observe(&p.qs[touched], &p.rt, base, false) {
            Ok(obs) => {
                o.refs_checked += obs.refs_checked;
                let fresh: Vec<Dang> = obs.dangling.iter().filter(|d| !seen.contains(&(touched, (*d).clone()))).cloned().collect();
                for d in &fresh { seen.insert((touched, d.clone())); }
                // every new dangling reference is classified on its own; the first unclassified one ends the history
                let mut by_class: BTreeMap<String, Vec<Dang>> = BTreeMap::new();
                for d in fresh { by_class.entry(classify(&d, base, &prev[touched], op)).or_default().push(d); }
                if let Some(ds) = by_class.remove("unclassified") {
                    o.oracle_fail = Some((k, touched, ds, "unclassified".into()));
                    return o;
                }
                for (c, ds) in by_class { if !o.classified.iter().any(|x| x.3 == c) { o.classified.push((k, touched, ds, c)); } }
                prev[touched] = obs.state;
            }
            Err(e) => { if o.repl_err.len() < 3 { o.repl_err.push(format!("observe:{e}")); } }
        }
    }
    // how many conflict entries exist at the end (coverage information)
    if let Ok(mut r) = p.rt.block_on(p.qs[0].read()) {
        if let Ok(es) = r.internal_search(Filter::new(f_eq(Attribute::Class, EntryClass::Conflict.into()))) { o.conflicts_seen = es.len(); }
    }
    o
}

fn cleanup_pair(p: &mut Pair, base: u64) {
    for _ in 0..2 { let _ = p.repl(0, 1); let _ = p.repl(1, 0); }
    for s in 0..2 {
        if let Ok(o) = observe(&p.qs[s], &p.rt, base, false) {
            for pass in 0..2 {
                let ids: Vec<u8> = o.meta.iter().filter(|(i, m)| m.0 == 'L' && ((kind_of(**i) == 'c') == (pass == 0))).map(|(i, _)| *i).collect();
                if !ids.is_empty() { let _ = exec_op(&p.qs[s], &p.rt, &mut p.ct, base, &Op::Del(ids), ""); }
            }
        }
        let _ = p.repl(s, 1 - s);
    }
}

// ---------------------------------------------------------------------------------------------
// schema stream
// ---------------------------------------------------------------------------------------------

/// The oracle's own list (from the property: values that name another entry).
fn oracle_is_ref_syntax(s: &SyntaxType) -> bool {
    matches!(s, SyntaxType::ReferenceUuid | SyntaxType::OauthScopeMap | SyntaxType::OauthClaimMap | SyntaxType::Oauth2Session | SyntaxType::ApplicationPassword)
}

fn schema_stream(args: &Args, rep: &mut Report) {
    let w = World::new();
    let r = w.rt.block_on(w.qs.read()).expect("read");
    let schema = r.get_schema();
    let cached: BTreeMap<String, String> = schema.get_reference_types().iter().map(|(a, sa)| (a.to_string(), format!("{:?}", sa.syntax))).collect();
    let by_syntax: BTreeMap<String, String> = schema.get_attributes().iter().filter(|(_, sa)| oracle_is_ref_syntax(&sa.syntax)).map(|(a, sa)| (a.to_string(), format!("{:?}", sa.syntax))).collect();
    rep.case(Some("schema-dump".into()));
    rep.count_n("schema:ref-cache-attrs", cached.len() as u64);
    rep.count_n("schema:attrs-with-reference-syntax", by_syntax.len() as u64);
    rep.sample(json!({"ref_cache": cached}));
    if cached != by_syntax {
        let missing: Vec<&String> = by_syntax.keys().filter(|k| !cached.contains_key(*k)).collect();
        let extra: Vec<&String> = cached.keys().filter(|k| !by_syntax.contains_key(*k)).collect();
        rep.fail(Failure {
            kind: "impl-vs-model".into(),
            class: "schema-ref-cache-differs".into(),
            input: json!({"stream": "schema", "missing_from_ref_cache": missing, "unexpected_in_ref_cache": extra}),
            expected: format!("{by_syntax:?}"),
            observed: format!("{cached:?}"),
        });
    }
    // the attributes the model names must be reference-typed (or plain uuid) as the model assumes
    for (a, want) in [(0u8, "ReferenceUuid"), (1, "ReferenceUuid"), (2, "ReferenceUuid"), (3, "ReferenceUuid"), (4, "ReferenceUuid"), (5, "ReferenceUuid"),
        (7, "ReferenceUuid"), (8, "OauthScopeMap"), (9, "OauthScopeMap"), (10, "OauthClaimMap"), (11, "Oauth2Session"), (12, "ApplicationPassword"), (6, "Uuid")] {
        rep.case(Some(format!("attr-syntax-{a}")));
        let got = schema.get_attributes().get(&attr_of(a)).map(|sa| format!("{:?}", sa.syntax)).unwrap_or_else(|| "absent".into());
        if got != want {
            rep.fail(Failure { kind: "impl-vs-model".into(), class: "attr-syntax-differs".into(), input: json!({"stream": "schema", "attr": attr_of(a).to_string()}), expected: want.into(), observed: got });
        }
    }
    let _ = args;
}

// ---------------------------------------------------------------------------------------------
// main
// ---------------------------------------------------------------------------------------------

fn ops_json(ops: &[Op]) -> J { J::Array(ops.iter().map(|o| J::String(o.replay())).collect()) }
fn dang_json(base: u64, d: &[Dang]) -> J {
    J::Array(d.iter().take(6).map(|x| json!({
        "entry": id_of(base, &x.entry).map(|i| i.to_string()).unwrap_or_else(|| x.entry.to_string()),
        "attr": x.attr, "target": id_of(base, &x.target).map(|i| i.to_string()).unwrap_or_else(|| x.target.to_string()), "target_state": x.target_state,
    })).collect())
}

struct Ctx {
    world: Option<World>,
    next_base: u64,
    model_fails: usize,
    oracle_found: bool,
}
impl Ctx {
    fn slot(&mut self) -> u64 {
        let fresh = match &self.world { None => true, Some(w) => w.used >= 50 };
        if fresh { self.world = Some(World::new()); }
        self.world.as_mut().unwrap().used += 1;
        self.next_base += 1;
        self.next_base
    }
}

fn run_case(ctx: &mut Ctx, drv: &mut Driver, rep: &mut Report, stream: &str, name: &str, ops: &[Op], verify: bool, expect_masked: bool) {
    let base = ctx.slot();
    let t_case = std::time::Instant::now();
    let out = run_history(ctx.world.as_mut().unwrap(), Some(drv), base, ops, verify);
    if std::env::var("C16_DEBUG").is_ok() { eprintln!("C16DBG case {name} ops {} took {:?} verify={verify}", out.ops_run, t_case.elapsed()); }
    rep.model_requests += out.ops_run as u64 + 1;
    for (k, v) in &out.kinds { rep.count_n(k, *v); }
    rep.count_n("ops", out.ops_run as u64);
    rep.count_n("ops-refused", out.refused as u64);
    rep.count_n("oracle:references-checked", out.refs_checked as u64);
    // non-trivial: at least one accepted delete or revive or purge and one refused write, or ≥ 5 distinct states
    let distinct: BTreeSet<&String> = out.states.iter().collect();
    let nontrivial = distinct.len() >= 4;
    rep.case(if nontrivial { Some(format!("{stream}:{}", out.states.last().cloned().unwrap_or_default())) } else { None });
    if rep.samples.len() < 4 && ops.len() >= 4 {
        rep.sample(json!({"stream": stream, "name": name, "ops": ops_json(ops), "final_state": out.states.last()}));
    }
    if let Some((k, dang, class)) = &out.oracle_fail {
        if expect_masked && class == MASKED {
            rep.count("finding-witness:masked-session-reproduced");
        }
        // shrink: shortest prefix-closed sub-history that still shows a dangling reference of the same class
        let mut min_ops: Vec<Op> = ops[..=*k].to_vec();
        if !ctx.oracle_found || class != MASKED {
            let class0 = class.clone();
            min_ops = shrink_list(min_ops, |cand| {
                let b = ctx.slot();
                let o = run_history(ctx.world.as_mut().unwrap(), None, b, cand, false);
                cleanup(ctx.world.as_mut().unwrap(), b);
                matches!(&o.oracle_fail, Some((_, _, c)) if *c == class0)
            });
        }
        ctx.oracle_found = true;
        rep.fail(Failure {
            kind: "impl-vs-oracle".into(),
            class: class.clone(),
            input: json!({"stream": stream, "name": name, "ops": ops_json(&min_ops)}),
            expected: "every reference value of every live entry is the uuid of a live entry".into(),
            observed: format!("after step {k}: {}", dang_json(base, dang)),
        });
    } else if expect_masked {
        rep.count("finding-witness:masked-session-not-reproduced");
    }
    if let Some((k, v)) = &out.verify_fail {
        rep.count("verify:refint-errors-without-dangling");
        rep.note(format!("{stream}/{name}: verify() reports {v:?} after step {k} although the oracle found nothing (revoked session to a reaped resource server)"));
    }
    if let Some((k, exp, obs)) = &out.model_fail {
        ctx.model_fails += 1;
        if ctx.model_fails <= 5 {
            let mut min_ops: Vec<Op> = ops[..=(*k).min(ops.len() - 1)].to_vec();
            min_ops = shrink_list(min_ops, |cand| {
                let b = ctx.slot();
                let o = run_history(ctx.world.as_mut().unwrap(), Some(drv), b, cand, false);
                cleanup(ctx.world.as_mut().unwrap(), b);
                o.model_fail.is_some()
            });
            rep.fail(Failure {
                kind: "impl-vs-model".into(),
                class: "model-disagreement".into(),
                input: json!({"stream": stream, "name": name, "ops": ops_json(&min_ops), "first_seen_at_step": k}),
                expected: exp.clone(),
                observed: obs.clone(),
            });
        } else {
            rep.count("model-disagreements-not-shrunk");
        }
    }
    cleanup(ctx.world.as_mut().unwrap(), base);
}

fn main() {
    if std::env::var_os("RUST_LOG").is_none() {
        std::env::set_var("RUST_LOG", "off");
    }
    let args = Args::parse();
    let mut rep = Report::new("refint", "a history counts when it passes through at least 4 distinct tracked states (keyed by stream and final state)");
    let mut drv = Driver::spawn(&args.driver);
    let mut ctx = Ctx { world: None, next_base: 0, model_fails: 0, oracle_found: false };

    if let Some(path) = &args.replay {
        let v: J = serde_json::from_str(&std::fs::read_to_string(path).expect("replay file")).expect("json");
        let input = v.get("input").cloned().unwrap_or(v);
        let stream = input.get("stream").and_then(|s| s.as_str()).unwrap_or("random").to_string();
        if stream == "pair" {
            let steps: Vec<RStep> = input["steps"].as_array().expect("steps").iter().map(|s| RStep::parse(s.as_str().unwrap())).collect();
            let mut p = Pair::new();
            let o = run_pair_history(&mut p, 1, &steps);
            rep.case(None);
            for (k, srv, d, class) in o.classified.into_iter().chain(o.oracle_fail.into_iter()) {
                rep.fail(Failure { kind: "impl-vs-oracle".into(), class, input: input.clone(), expected: "no dangling reference on either replica".into(), observed: format!("after step {k} on replica {srv}: {}", dang_json(1, &d)) });
            }
        } else if stream == "schema" {
            schema_stream(&args, &mut rep);
        } else {
            let ops: Vec<Op> = input["ops"].as_array().expect("ops").iter().map(|s| Op::parse(s.as_str().unwrap())).collect();
            run_case(&mut ctx, &mut drv, &mut rep, "replay", "replay", &ops, true, false);
        }
        rep.write(&args.out);
        println!("c16 replay: {} failure(s)", rep.failures.len());
        return;
    }

    // ---- schema dump
    schema_stream(&args, &mut rep);

    // ---- corpus (regressions of D14 / D10 as passing cases, scripted lifecycle cases)
    for (name, ops) in corpus() {
        let ops: Vec<Op> = ops.iter().map(|s| Op::parse(s)).collect();
        run_case(&mut ctx, &mut drv, &mut rep, "corpus", name, &ops, true, false);
    }
    {
        let ops: Vec<Op> = masked_witness().iter().map(|s| Op::parse(s)).collect();
        // fixed in /repo (as_ref_uuid_iter skips revoked sessions): a passing regression case now
        run_case(&mut ctx, &mut drv, &mut rep, "corpus", "masked-session-witness", &ops, false, false);
    }

    let only = args.extra.get("only").cloned().unwrap_or_default();
    let dbg = std::env::var("C16_DEBUG").is_ok();
    if dbg { for f in &rep.failures { eprintln!("C16DBG {} {} {} || exp {} || obs {}", f.kind, f.class, f.input, f.expected, f.observed); } }
    let t0 = std::time::Instant::now();
    // ---- random histories (worker threads, each with its own server and driver)
    let n = if only == "corpus" || only == "pair" { 0 } else { args.cases(260, 5000) };
    let boost = args.budget > 1;
    let nthreads: u64 = 8;
    let mut handles = vec![];
    for t in 0..nthreads {
        let (seed, thorough, driver) = (args.seed, args.thorough(), args.driver.clone());
        handles.push(std::thread::Builder::new().stack_size(64 << 20).spawn(move || {
            let mut rep = Report::new("refint", "");
            let mut drv = Driver::spawn(&driver);
            let mut ctx = Ctx { world: None, next_base: 10_000 * (t + 1), model_fails: 0, oracle_found: false };
            let mut i = t;
            while i < n {
                let mut r = Rng::for_case(seed, i);
                let len = 12 + r.below(if thorough { 50 } else { 30 }) as usize;
                let bad = if boost { 25 } else { *r.pick(&[5u64, 10, 15, 30]) };
                let mut sh = Shadow::default();
                // the generator follows the model's state (cheap, no server needed); the model is only
                // used to aim the generator, never to judge
                let mut gstate = String::from("-");
                let mut ops = vec![];
                let mut g = Driver::spawn(&driver);
                assert_eq!(g.ask("reset"), "ok");
                for _ in 0..len {
                    sh.sync(&gstate);
                    let op = gen_op(&mut r, &mut sh, bad);
                    let reply = g.ask(&format!("op {}", op.token()));
                    gstate = reply.split_once(' ').map(|x| x.1.to_string()).unwrap_or_else(|| "-".into());
                    ops.push(op);
                }
                drop(g);
                run_case(&mut ctx, &mut drv, &mut rep, "random", &format!("case-{i}"), &ops, i % 10 == 0, false);
                if ctx.oracle_found { break; }
                i += nthreads;
            }
            rep
        }).expect("spawn"));
    }
    for h in handles {
        let r2 = h.join().expect("worker");
        rep.evaluations += r2.evaluations;
        rep.model_requests += r2.model_requests;
        rep.nontrivial_keys.extend(r2.nontrivial_keys);
        for (k, v) in r2.histogram { rep.count_n(&k, v); }
        for sm in r2.samples { rep.sample(sm); }
        for f in r2.failures { rep.fail(f); }
        rep.notes.extend(r2.notes);
    }
    ctx.world = None;
    if dbg { eprintln!("C16DBG random stream took {:?}", t0.elapsed()); for f in &rep.failures { eprintln!("C16DBG {} {} {} || exp {} || obs {}", f.kind, f.class, f.input, f.expected, f.observed); } }

    // ---- replicated pair, oracle only
    let np = if only == "corpus" || only == "random" { 0 } else { args.cases(24, 300) };
    let mut pair: Option<Pair> = None;
    let mut pbase = 1000u64;
    let mut pair_fail = false;
    let mut reported: BTreeSet<String> = BTreeSet::new();
    for i in 0..np {
        if pair.as_ref().map(|p| p.used >= 12).unwrap_or(true) { pair = Some(Pair::new()); }
        let p = pair.as_mut().unwrap();
        p.used += 1;
        pbase += 1;
        let mut r = Rng::for_case(args.seed ^ 0x5eed_0016, i);
        let plen = 25 + r.below(30) as usize;
        let fixed = pair_corpus();
        let steps = if (i as usize) < fixed.len() { fixed[i as usize].iter().map(|s| RStep::parse(s)).collect() } else { gen_pair_history(&mut r, plen) };
        let o = run_pair_history(p, pbase, &steps);
        rep.count_n("pair:steps", o.steps as u64);
        rep.count_n("pair:repl-ok", o.repl_ok as u64);
        rep.count_n("pair:repl-refused", (o.steps.saturating_sub(0)).min(0) as u64);
        rep.count_n("pair:conflict-entries-at-end", o.conflicts_seen as u64);
        rep.count_n("oracle:references-checked", o.refs_checked as u64);
        for e in &o.repl_err { rep.count(&format!("pair:repl-err:{}", e.split(':').next().unwrap_or("?"))); if rep.notes.len() < 6 { rep.note(format!("pair case {i}: replication step refused: {e}")); } }
        rep.case(if o.repl_ok >= 3 { Some(format!("pair:{i}")) } else { None });
        let mut found: Vec<(usize, usize, Vec<Dang>, String)> = o.classified.clone();
        let unclassified = o.oracle_fail.is_some();
        if let Some(x) = o.oracle_fail.clone() { found.push(x); }
        for (k, srv, d, class) in found {
            if !reported.contains(&class) || class == "unclassified" {
                reported.insert(class.clone());
                let class0 = class.clone();
                let mut steps_min = steps[..=k].to_vec();
                {
                    steps_min = shrink_list(steps_min, |cand| {
                        let mut p2 = Pair::new();
                        let o2 = run_pair_history(&mut p2, 1, cand);
                        matches!(&o2.oracle_fail, Some((_, _, _, c)) if *c == class0) || o2.classified.iter().any(|x| x.3 == class0)
                    });
                }
                rep.fail(Failure {
                    kind: "impl-vs-oracle".into(),
                    class,
                    input: json!({"stream": "pair", "steps": steps_min.iter().map(|s| s.token()).collect::<Vec<_>>()}),
                    expected: "no dangling reference on either replica after every step".into(),
                    observed: format!("after step {k} on replica {srv}: {}", dang_json(pbase, &d)),
                });
            }
            pair_fail = true;
        }
        if unclassified { pair = None; break; }
        cleanup_pair(pair.as_mut().unwrap(), pbase);
    }
    let _ = StdDuration::from_secs(0);
    rep.write(&args.out);
    println!(
        "c16: {} cases, {} nontrivial, {} failure(s) [{} oracle]",
        rep.evaluations,
        rep.nontrivial_keys.len(),
        rep.failures.len(),
        rep.failures.iter().filter(|f| f.kind == "impl-vs-oracle").count()
    );
}
