//! C35 — account policy resolution: the real `ResolvedAccountPolicy::fold_from` (through
//! `verif_hooks::c35::fold_entries`, fed with `account_policy` group entries created on a real
//! in-memory server and read back as `EntrySealedCommitted`, so that
//! `From<&EntrySealedCommitted> for Option<AccountPolicy>` and its defaults are exercised too),
//! the Lean model (`km_c35`) and an oracle written from the property text.
//!
//! A case is a multiset of ≤ 5 policies drawn from a pool; it is folded in **every** order.
//! Oracle (implementation only): every order gives the same resolved policy; the result is at
//! least as strict as each policy for the two expiries, the minimum password length and the
//! minimum credential type; it trusts only (CA, device) pairs every policy with a CA list trusts;
//! if second factors are optional (credential type below MFA) the minimum length is ≥ 15.
use hlib::*;
use kanidmd_lib::entry::{Entry, EntryInit, EntryNew, EntrySealedCommitted};
use kanidmd_lib::prelude::*;
use kanidmd_lib::testkit::{setup_test, TestConfiguration};
use kanidmd_lib::value::CredentialType;
use kanidmd_lib::verif_hooks::c35::{fold_entries, is_policy, AttestationCaList, AttestationCaListBuilder, Resolved};
use serde_json::json;
use std::collections::{BTreeMap, BTreeSet};
use std::sync::Arc;

// The two roots used by the repo's own unit test (server/lib/src/idm/accountpolicy.rs).
const CA_ROOT_A: &[u8] = b"-----BEGIN CERTIFICATE-----
MIIDHjCCAgagAwIBAgIEG0BT9zANBgkqhkiG9w0BAQsFADAuMSwwKgYDVQQDEyNZ
dWJpY28gVTJGIFJvb3QgQ0EgU2VyaWFsIDQ1NzIwMDYzMTAgFw0xNDA4MDEwMDAw
MDBaGA8yMDUwMDkwNDAwMDAwMFowLjEsMCoGA1UEAxMjWXViaWNvIFUyRiBSb290
IENBIFNlcmlhbCA0NTcyMDA2MzEwggEiMA0GCSqGSIb3DQEBAQUAA4IBDwAwggEK
AoIBAQC/jwYuhBVlqaiYWEMsrWFisgJ+PtM91eSrpI4TK7U53mwCIawSDHy8vUmk
5N2KAj9abvT9NP5SMS1hQi3usxoYGonXQgfO6ZXyUA9a+KAkqdFnBnlyugSeCOep
8EdZFfsaRFtMjkwz5Gcz2Py4vIYvCdMHPtwaz0bVuzneueIEz6TnQjE63Rdt2zbw
nebwTG5ZybeWSwbzy+BJ34ZHcUhPAY89yJQXuE0IzMZFcEBbPNRbWECRKgjq//qT
9nmDOFVlSRCt2wiqPSzluwn+v+suQEBsUjTGMEd25tKXXTkNW21wIWbxeSyUoTXw
LvGS6xlwQSgNpk2qXYwf8iXg7VWZAgMBAAGjQjBAMB0GA1UdDgQWBBQgIvz0bNGJ
hjgpToksyKpP9xv9oDAPBgNVHRMECDAGAQH/AgEAMA4GA1UdDwEB/wQEAwIBBjAN
BgkqhkiG9w0BAQsFAAOCAQEAjvjuOMDSa+JXFCLyBKsycXtBVZsJ4Ue3LbaEsPY4
MYN/hIQ5ZM5p7EjfcnMG4CtYkNsfNHc0AhBLdq45rnT87q/6O3vUEtNMafbhU6kt
hX7Y+9XFN9NpmYxr+ekVY5xOxi8h9JDIgoMP4VB1uS0aunL1IGqrNooL9mmFnL2k
LVVee6/VR6C5+KSTCMCWppMuJIZII2v9o4dkoZ8Y7QRjQlLfYzd3qGtKbw7xaF1U
sG/5xUb/Btwb2X2g4InpiB/yt/3CpQXpiWX/K4mBvUKiGn05ZsqeY1gx4g0xLBqc
U9psmyPzK+Vsgw2jeRQ5JlKDyqE0hebfC1tvFu0CCrJFcw==
-----END CERTIFICATE-----";
const CA_ROOT_B: &[u8] = b"-----BEGIN CERTIFICATE-----
MIICEjCCAZmgAwIBAgIQaB0BbHo84wIlpQGUKEdXcTAKBggqhkjOPQQDAzBLMR8w
HQYDVQQDDBZBcHBsZSBXZWJBdXRobiBSb290IENBMRMwEQYDVQQKDApBcHBsZSBJ
bmMuMRMwEQYDVQQIDApDYWxpZm9ybmlhMB4XDTIwMDMxODE4MjEzMloXDTQ1MDMx
NTAwMDAwMFowSzEfMB0GA1UEAwwWQXBwbGUgV2ViQXV0aG4gUm9vdCBDQTETMBEG
A1UECgwKQXBwbGUgSW5jLjETMBEGA1UECAwKQ2FsaWZvcm5pYTB2MBAGByqGSM49
AgEGBSuBBAAiA2IABCJCQ2pTVhzjl4Wo6IhHtMSAzO2cv+H9DQKev3//fG59G11k
xu9eI0/7o6V5uShBpe1u6l6mS19S1FEh6yGljnZAJ+2GNP1mi/YK2kSXIuTHjxA/
pcoRf7XkOtO4o1qlcaNCMEAwDwYDVR0TAQH/BAUwAwEB/zAdBgNVHQ4EFgQUJtdk
2cV4wlpn0afeaxLQG2PxxtcwDgYDVR0PAQH/BAQDAgEGMAoGCCqGSM49BAMDA2cA
MGQCMFrZ+9DsJ1PW9hfNdBywZDsWDbWFp28it1d/5w2RPkRX3Bbn/UbDTNLx7Jr3
jAGGiQIwHFj+dJZYUJR786osByBelJYsVZd2GbHQu209b5RCmGQ21gpSAk9QZW4B
1bWeT0vT
-----END CERTIFICATE-----";

const CREDS: [(u16, CredentialType); 7] = [
    (0, CredentialType::Any),
    (5, CredentialType::External),
    (10, CredentialType::Mfa),
    (20, CredentialType::Passkey),
    (30, CredentialType::AttestedPasskey),
    (40, CredentialType::AttestedResidentkey),
    (65535, CredentialType::Invalid),
];

/// One CA of a policy's list: `None` = blanket allow, else the allowed device numbers.
type CaSpec = BTreeMap<u8, Option<BTreeSet<u64>>>;

/// What the harness wrote into one `account_policy` group (None = attribute absent).
#[derive(Clone, Debug, PartialEq, Eq, PartialOrd, Ord)]
struct Spec {
    privilege_expiry: Option<u32>,
    authsession_expiry: Option<u32>,
    pw_min_length: Option<u32>,
    credential_policy: Option<u16>,
    ca: Option<CaSpec>,
    limit_filter_test: Option<u32>,
    limit_results: Option<u32>,
    fallback: Option<bool>,
}

fn opt<T: ToString>(o: &Option<T>) -> String {
    o.as_ref().map(|x| x.to_string()).unwrap_or("-".into())
}

fn show_ca(ca: &Option<CaSpec>) -> String {
    match ca {
        None => "-".into(),
        Some(m) if m.is_empty() => "~".into(),
        Some(m) => m
            .iter()
            .map(|(k, e)| match e {
                None => format!("{k}:B"),
                Some(s) => format!("{k}:{}", s.iter().map(|g| g.to_string()).collect::<Vec<_>>().join("+")),
            })
            .collect::<Vec<_>>()
            .join("|"),
    }
}

impl Spec {
    fn token(&self) -> String {
        format!(
            "{};{};{};{};{};{};{};{}",
            opt(&self.privilege_expiry),
            opt(&self.authsession_expiry),
            opt(&self.pw_min_length),
            opt(&self.credential_policy),
            show_ca(&self.ca),
            opt(&self.limit_filter_test),
            opt(&self.limit_results),
            self.fallback.map(|b| (b as u8).to_string()).unwrap_or("-".into())
        )
    }
    fn parse(s: &str) -> Spec {
        let p: Vec<&str> = s.split(';').collect();
        let n = |x: &str| if x == "-" { None } else { Some(x.parse::<u64>().unwrap()) };
        let ca = match p[4] {
            "-" => None,
            "~" => Some(CaSpec::new()),
            l => Some(
                l.split('|')
                    .map(|e| {
                        let (k, v) = e.split_once(':').unwrap();
                        let v = if v == "B" { None } else { Some(v.split('+').map(|g| g.parse().unwrap()).collect()) };
                        (k.parse().unwrap(), v)
                    })
                    .collect(),
            ),
        };
        Spec {
            privilege_expiry: n(p[0]).map(|x| x as u32),
            authsession_expiry: n(p[1]).map(|x| x as u32),
            pw_min_length: n(p[2]).map(|x| x as u32),
            credential_policy: n(p[3]).map(|x| x as u16),
            ca,
            limit_filter_test: n(p[5]).map(|x| x as u32),
            limit_results: n(p[6]).map(|x| x as u32),
            fallback: n(p[7]).map(|x| x == 1),
        }
    }
}

struct CaKit {
    /// kid bytes of root A / root B → model key 1 / 2 in kid byte order
    kid_no: BTreeMap<Vec<u8>, u8>,
    pem_of: BTreeMap<u8, &'static [u8]>,
}

impl CaKit {
    fn new() -> CaKit {
        let ka = AttestationCaList::try_from(CA_ROOT_A).unwrap().cas().keys().next().unwrap().to_vec();
        let kb = AttestationCaList::try_from(CA_ROOT_B).unwrap().cas().keys().next().unwrap().to_vec();
        let mut ks = vec![(ka, CA_ROOT_A), (kb, CA_ROOT_B)];
        ks.sort();
        let mut kid_no = BTreeMap::new();
        let mut pem_of = BTreeMap::new();
        for (i, (k, pem)) in ks.into_iter().enumerate() {
            kid_no.insert(k, i as u8 + 1);
            pem_of.insert(i as u8 + 1, pem);
        }
        CaKit { kid_no, pem_of }
    }
    fn build(&self, spec: &CaSpec, tag: &str) -> AttestationCaList {
        let mut b = AttestationCaListBuilder::new();
        for (k, e) in spec {
            if let Some(devs) = e {
                for g in devs {
                    // descriptions differ per policy on purpose (they are not part of the policy's meaning)
                    b.insert_device_pem(self.pem_of[k], nat_uuid(*g), format!("{tag}-dev{g}"), Default::default()).unwrap();
                }
            }
        }
        let mut l = b.build();
        for (k, e) in spec {
            if e.is_none() {
                l.union(&AttestationCaList::try_from(self.pem_of[k]).unwrap());
            }
        }
        l
    }
    fn view(&self, l: &AttestationCaList) -> (CaSpec, Vec<String>) {
        let mut m = CaSpec::new();
        let mut descs = vec![];
        for (kid, ca) in l.cas() {
            let k = *self.kid_no.get(&kid.to_vec()).expect("unknown CA in result");
            if ca.blanket_allow() {
                m.insert(k, None);
            } else {
                let base = nat_uuid(0).as_u128();
                m.insert(k, Some(ca.aaguids().keys().map(|u| (u.as_u128() - base) as u64).collect()));
                for (u, d) in ca.aaguids() {
                    descs.push(format!("{k}:{}={}", (u.as_u128() - base) as u64, d.description_en()));
                }
            }
        }
        (m, descs)
    }
}

fn show_resolved(kit: &CaKit, r: &Resolved) -> (String, Option<CaSpec>, Vec<String>) {
    let (ca, descs) = match &r.webauthn_att_ca_list {
        None => (None, vec![]),
        Some(l) => {
            let (m, d) = kit.view(l);
            (Some(m), d)
        }
    };
    (
        format!(
            "{} {} {} {} {} {} {} {} {}",
            r.privilege_expiry,
            r.authsession_expiry,
            r.pw_min_length,
            r.pw_max_length,
            r.credential_policy,
            show_ca(&ca),
            opt(&r.limit_search_max_filter_test),
            opt(&r.limit_search_max_results),
            r.allow_primary_cred_fallback.map(|b| (b as u8).to_string()).unwrap_or("-".into())
        ),
        ca,
        descs,
    )
}

fn trusts(ca: &Option<CaSpec>, k: u8, g: u64) -> bool {
    match ca {
        None => true, // no attestation requirement
        Some(m) => match m.get(&k) {
            None => false,
            Some(None) => true,
            Some(Some(s)) => s.contains(&g),
        },
    }
}

fn random_spec(r: &mut Rng) -> Spec {
    let some = |r: &mut Rng, num: u64| r.chance(num, 4);
    let u32b = |r: &mut Rng, around: &[u32]| -> u32 {
        match r.below(4) {
            0 => *r.pick(&[0u32, 1, u32::MAX - 1, u32::MAX]),
            1 | 2 => {
                let a = *r.pick(around) as i64 + r.range(0, 2) as i64 - 1;
                a.clamp(0, u32::MAX as i64) as u32
            }
            _ => r.below(100_000) as u32,
        }
    };
    let ca = if some(r, 2) {
        let mut m = CaSpec::new();
        for k in 1..=2u8 {
            match r.below(5) {
                0 | 1 => {}
                2 => {
                    m.insert(k, None);
                }
                _ => {
                    let mut s = BTreeSet::new();
                    for g in 1..=5u64 {
                        if r.chance(1, 2) {
                            s.insert(g);
                        }
                    }
                    if !s.is_empty() {
                        m.insert(k, Some(s));
                    }
                }
            }
        }
        Some(m)
    } else {
        None
    };
    Spec {
        privilege_expiry: if some(r, 3) { Some(u32b(r, &[3600, 600, 100])) } else { None },
        authsession_expiry: if some(r, 3) { Some(u32b(r, &[86400, 3600, 50])) } else { None },
        pw_min_length: if some(r, 3) { Some(u32b(r, &[10, 15, 12, 128])) } else { None },
        credential_policy: if some(r, 2) { Some(*r.pick(&[0u16, 0, 5, 5, 5, 10, 10, 20, 30, 40, 65535])) } else { None },
        ca,
        limit_filter_test: if some(r, 1) { Some(u32b(r, &[256, 1024])) } else { None },
        limit_results: if some(r, 1) { Some(u32b(r, &[128, 1024])) } else { None },
        fallback: if some(r, 1) { Some(r.chance(1, 2)) } else { None },
    }
}

fn permutations(n: usize) -> Vec<Vec<usize>> {
    fn go(cur: &mut Vec<usize>, used: &mut Vec<bool>, n: usize, out: &mut Vec<Vec<usize>>) {
        if cur.len() == n {
            out.push(cur.clone());
            return;
        }
        for i in 0..n {
            if !used[i] {
                used[i] = true;
                cur.push(i);
                go(cur, used, n, out);
                cur.pop();
                used[i] = false;
            }
        }
    }
    let mut out = vec![];
    go(&mut vec![], &mut vec![false; n], n, &mut out);
    out
}

struct World {
    kit: CaKit,
    pool: Vec<(Spec, Arc<EntrySealedCommitted>)>,
    non_policy: Arc<EntrySealedCommitted>,
}

async fn build_world(specs: &[Spec]) -> Result<World, String> {
    let kit = CaKit::new();
    let qs = setup_test(TestConfiguration::default()).await;
    let ct = duration_from_epoch_now();
    let mut uuids = vec![];
    {
        let mut w = qs.write(ct).await.map_err(|e| format!("write txn: {e:?}"))?;
        for (i, s) in specs.iter().enumerate() {
            let uuid = nat_uuid(0x3500_0000 + i as u64);
            let mut e: Entry<EntryInit, EntryNew> = Entry::new();
            e.add_ava(Attribute::Class, EntryClass::Object.to_value());
            e.add_ava(Attribute::Class, EntryClass::Group.to_value());
            e.add_ava(Attribute::Class, EntryClass::AccountPolicy.to_value());
            e.add_ava(Attribute::Name, Value::new_iname(&format!("c35policy{i}")));
            e.add_ava(Attribute::Uuid, Value::Uuid(uuid));
            if let Some(v) = s.privilege_expiry {
                e.add_ava(Attribute::PrivilegeExpiry, Value::Uint32(v));
            }
            if let Some(v) = s.authsession_expiry {
                e.add_ava(Attribute::AuthSessionExpiry, Value::Uint32(v));
            }
            if let Some(v) = s.pw_min_length {
                e.add_ava(Attribute::AuthPasswordMinimumLength, Value::Uint32(v));
            }
            if let Some(v) = s.credential_policy {
                let ct = CREDS.iter().find(|c| c.0 == v).unwrap().1;
                e.add_ava(Attribute::CredentialTypeMinimum, Value::CredentialType(ct));
            }
            if let Some(ca) = &s.ca {
                e.add_ava(Attribute::WebauthnAttestationCaList, Value::WebauthnAttestationCaList(kit.build(ca, &format!("p{i}"))));
            }
            if let Some(v) = s.limit_filter_test {
                e.add_ava(Attribute::LimitSearchMaxFilterTest, Value::Uint32(v));
            }
            if let Some(v) = s.limit_results {
                e.add_ava(Attribute::LimitSearchMaxResults, Value::Uint32(v));
            }
            if let Some(v) = s.fallback {
                e.add_ava(Attribute::AllowPrimaryCredFallback, Value::Bool(v));
            }
            w.internal_create(vec![e]).map_err(|e| format!("create policy {i} `{}`: {e:?}", s.token()))?;
            uuids.push(uuid);
        }
        // a plain group: `From` must yield no policy for it
        let mut e: Entry<EntryInit, EntryNew> = Entry::new();
        e.add_ava(Attribute::Class, EntryClass::Object.to_value());
        e.add_ava(Attribute::Class, EntryClass::Group.to_value());
        e.add_ava(Attribute::Name, Value::new_iname("c35plaingroup"));
        e.add_ava(Attribute::Uuid, Value::Uuid(nat_uuid(0x35ff_ffff)));
        w.internal_create(vec![e]).map_err(|e| format!("create plain group: {e:?}"))?;
        w.commit().map_err(|e| format!("commit: {e:?}"))?;
    }
    let mut r = qs.read().await.map_err(|e| format!("read txn: {e:?}"))?;
    let mut pool = vec![];
    for (s, u) in specs.iter().zip(uuids.iter()) {
        let e = r.internal_search_uuid(*u).map_err(|e| format!("search: {e:?}"))?;
        pool.push((s.clone(), e));
    }
    let non_policy = r.internal_search_uuid(nat_uuid(0x35ff_ffff)).map_err(|e| format!("search: {e:?}"))?;
    Ok(World { kit, pool, non_policy })
}

/// Fold one multiset (pool indices) in every order; correspondence + oracle.
fn run_case(w: &World, drv: &mut Driver, rep: &mut Report, idx: &[usize], with_plain: bool) {
    let specs: Vec<&Spec> = idx.iter().map(|i| &w.pool[*i].0).collect();
    let input = || json!({"policies": specs.iter().map(|s| s.token()).collect::<Vec<_>>(), "with_plain_group": with_plain});
    let perms = permutations(idx.len());
    let mut lines = vec![];
    let mut results = vec![];
    for p in &perms {
        let mut ents: Vec<&EntrySealedCommitted> = p.iter().map(|j| w.pool[idx[*j]].1.as_ref()).collect();
        if with_plain {
            // entries that are not account policies are skipped by the fold wherever they stand
            ents.insert(p.first().copied().unwrap_or(0) % (ents.len() + 1), w.non_policy.as_ref());
        }
        let r = fold_entries(&ents);
        results.push(show_resolved(&w.kit, &r));
        lines.push(format!("fold {}", p.iter().map(|j| specs[*j].token()).collect::<Vec<_>>().join(" ")).trim_end().to_string());
    }
    let replies = drv.ask_batch(&lines);
    let distinct_specs: BTreeSet<&Spec> = specs.iter().copied().collect();
    rep.count(&format!("size:{}", idx.len()));
    rep.count_n("folds", perms.len() as u64);
    let mut key: Vec<String> = specs.iter().map(|s| s.token()).collect();
    key.sort();
    rep.case(if distinct_specs.len() >= 2 { Some(key.join(" ")) } else { None });
    if rep.evaluations % 397 == 1 {
        rep.sample(json!({"request": lines[0], "impl": results[0].0, "model": replies[0], "orders": perms.len()}));
    }
    // ---- correspondence, every order
    for (i, (line, model)) in lines.iter().zip(replies.iter()).enumerate() {
        if *model != results[i].0 {
            rep.fail(Failure {
                kind: "impl-vs-model".into(),
                class: "unclassified".into(),
                input: { let mut v = input(); v["request"] = json!(line); v },
                expected: model.clone(),
                observed: results[i].0.clone(),
            });
            break;
        }
    }
    // ---- oracle 1: order independence
    let (first, first_ca, first_descs) = &results[0];
    for (i, (s, _, descs)) in results.iter().enumerate() {
        if s != first {
            rep.fail(Failure {
                kind: "impl-vs-oracle".into(),
                class: "unclassified".into(),
                input: { let mut v = input(); v["order_a"] = json!(perms[0]); v["order_b"] = json!(perms[i]); v },
                expected: format!("same resolved policy in every order: {first}"),
                observed: s.clone(),
            });
            break;
        }
        if descs != first_descs {
            // device *descriptions* follow the first list that named the device: cosmetic, counted only
            rep.count("ca-description-differs-by-order");
        }
    }
    // ---- oracle 2: strictest, field by field, against what each policy says
    let parts: Vec<&str> = first.split(' ').collect();
    let rp: u64 = parts[0].parse().unwrap();
    let rs: u64 = parts[1].parse().unwrap();
    let rmin: u64 = parts[2].parse().unwrap();
    let rcred: u64 = parts[4].parse().unwrap();
    let mut bad = vec![];
    for s in &specs {
        if let Some(v) = s.privilege_expiry {
            if rp > v as u64 { bad.push(format!("privilege_expiry {rp} > {v}")); }
        }
        if let Some(v) = s.authsession_expiry {
            if rs > v as u64 { bad.push(format!("authsession_expiry {rs} > {v}")); }
        }
        if let Some(v) = s.pw_min_length {
            if rmin < v as u64 { bad.push(format!("pw_min_length {rmin} < {v}")); }
        }
        if let Some(v) = s.credential_policy {
            if rcred < v as u64 { bad.push(format!("credential_policy {rcred} < {v}")); }
        }
        // ---- oracle 3: trusts only what every policy with a CA list trusts
        if s.ca.is_some() {
            for k in 1..=3u8 {
                for g in 0..=6u64 {
                    if trusts(first_ca, k, g) && !trusts(&s.ca, k, g) {
                        bad.push(format!("result trusts (ca {k}, device {g}) not trusted by `{}`", show_ca(&s.ca)));
                    }
                }
            }
        }
    }
    // ---- oracle 4: single-factor minimum length whenever second factors are optional
    if rcred < 10 && rmin < 15 {
        bad.push(format!("credential type {rcred} < MFA but pw_min_length {rmin} < 15"));
    }
    if rcred < 10 { rep.count("sfa-allowed"); } else { rep.count("mfa-required"); }
    if first_ca.is_some() { rep.count("ca-list-present"); }
    if !bad.is_empty() {
        rep.fail(Failure {
            kind: "impl-vs-oracle".into(),
            class: "unclassified".into(),
            input: input(),
            expected: "at least as strict as every policy; CA trust within every policy's; SFA minimum enforced".into(),
            observed: format!("{first} :: {}", bad.join("; ")),
        });
    }
}

fn main() {
    if std::env::var_os("RUST_LOG").is_none() {
        std::env::set_var("RUST_LOG", "off");
    }
    let args = Args::parse();
    let rt = tokio::runtime::Builder::new_current_thread().enable_all().build().unwrap();
    let mut rep = Report::new(
        "accountpolicy",
        "multisets of <= 5 account_policy group entries (boundary-heavy random attribute values, absent attributes, CA lists over 2 roots x 5 devices incl. blanket allow) \
         created on a real server, folded in every order; non-trivial = at least two distinct policies; distinct = distinct multiset",
    );
    let mut drv = Driver::spawn(&args.driver);
    if let Some(path) = &args.replay {
        let v: serde_json::Value = serde_json::from_str(&std::fs::read_to_string(path).unwrap()).unwrap();
        let specs: Vec<Spec> = v["input"]["policies"].as_array().unwrap().iter().map(|s| Spec::parse(s.as_str().unwrap())).collect();
        let w = rt.block_on(build_world(&specs)).expect("world");
        let idx: Vec<usize> = (0..specs.len()).collect();
        run_case(&w, &mut drv, &mut rep, &idx, v["input"]["with_plain_group"].as_bool().unwrap_or(false));
        rep.write(&args.out);
        println!("c35 replay: {} failures", rep.failures.len());
        return;
    }
    // pool
    let npool = if args.thorough() { 600 } else { 200 };
    let mut specs = vec![
        // fixed members: the empty policy (all defaults), the repo unit test's pair
        Spec { privilege_expiry: None, authsession_expiry: None, pw_min_length: None, credential_policy: None, ca: None, limit_filter_test: None, limit_results: None, fallback: None },
        Spec::parse("100;100;11;10;1:1+2+3|2:4;10;10;-"),
        Spec::parse("150;50;15;20;1:2|2:5;5;15;0"),
    ];
    for i in 0..npool {
        let mut r = Rng::for_case(args.seed, 1_000_000 + i);
        specs.push(random_spec(&mut r));
    }
    let w = match rt.block_on(build_world(&specs)) {
        Ok(w) => w,
        Err(e) => {
            rep.fail(Failure { kind: "impl-vs-model".into(), class: "harness-setup".into(), input: json!({}), expected: "pool created".into(), observed: e });
            rep.write(&args.out);
            println!("c35: setup failed");
            return;
        }
    };
    if is_policy(&w.non_policy) || w.pool.iter().any(|(_, e)| !is_policy(e)) {
        rep.fail(Failure { kind: "impl-vs-oracle".into(), class: "unclassified".into(), input: json!({}), expected: "exactly the account_policy class entries yield a policy".into(), observed: "mismatch".into() });
    }
    // exhaustive: every single policy and every pair of the first 40 pool members
    for i in 0..w.pool.len() {
        run_case(&w, &mut drv, &mut rep, &[i], false);
    }
    run_case(&w, &mut drv, &mut rep, &[], false);
    let m = 40.min(w.pool.len());
    for i in 0..m {
        for j in i..m {
            run_case(&w, &mut drv, &mut rep, &[i, j], false);
        }
    }
    // random multisets of 2..=5
    let n = args.cases(2_500, 40_000);
    for c in 0..n {
        let mut r = Rng::for_case(args.seed, c);
        let k = *r.pick(&[2usize, 3, 3, 4, 4, 5, 5]);
        let mut idx: Vec<usize> = (0..k).map(|_| r.below(w.pool.len() as u64) as usize).collect();
        if r.chance(1, 6) {
            idx[k - 1] = idx[0]; // a repeated policy
        }
        run_case(&w, &mut drv, &mut rep, &idx, r.chance(1, 5));
    }
    rep.model_requests = drv.requests;
    rep.write(&args.out);
    println!("c35: {} cases, {} failures", rep.evaluations, rep.failures.len());
}
