//! C21 — POSIX ids never land in reserved ranges: the real gidnumber plugin through entry
//! creation / modification on a test server, against the Lean model (`km_c21`) and an oracle
//! written from the property text.
//!
//! Every case runs in its own write transaction that is dropped afterwards (no interference
//! through gidnumber uniqueness, no database growth).  Case kinds:
//!   gen-group / gen-account   create a posixgroup / posixaccount with a chosen uuid, no gidnumber
//!   sup-group / sup-account   create one with a user-supplied gidnumber
//!   mod-set                   set gidnumber on an existing committed posix group
//!   mod-purge                 purge gidnumber from it (the plugin regenerates from the uuid)
//!   multi                     create a posixgroup with two gidnumber values
//!   nonposix                  create a plain group carrying a gidnumber
use hlib::*;
use kanidmd_lib::entry::Entry;
use kanidmd_lib::prelude::*;
use kanidmd_lib::testkit::{setup_test, TestConfiguration};
use serde_json::{json, Value as J};

/// The property's reserved set (DESIGN §7.0 reading): OS ids, systemd-homed, systemd dynamic
/// users, nobody, 16-bit sentinel, upper half of u32.  Written from the text, not from the code.
const RESERVED: &[(u64, u64)] = &[
    (0, 999),
    (60_001, 60_577),
    (61_184, 65_519),
    (65_534, 65_534),
    (65_535, 65_535),
    (1 << 31, (1 << 32) - 1),
];

fn reserved(g: u64) -> bool {
    RESERVED.iter().any(|(a, b)| *a <= g && g <= *b)
}

#[derive(Clone, Debug)]
struct Case {
    kind: String,
    uuid: Uuid,
    gid: Option<u32>,
    gid2: Option<u32>,
}

impl Case {
    fn to_json(&self) -> J {
        json!({"kind": self.kind, "uuid": self.uuid.to_string(), "gid": self.gid, "gid2": self.gid2})
    }
    fn from_json(v: &J) -> Case {
        Case {
            kind: v["kind"].as_str().unwrap().to_string(),
            uuid: Uuid::parse_str(v["uuid"].as_str().unwrap()).unwrap(),
            gid: v["gid"].as_u64().map(|x| x as u32),
            gid2: v["gid2"].as_u64().map(|x| x as u32),
        }
    }
    fn bytes(&self) -> String {
        self.uuid.as_bytes().iter().map(|b| b.to_string()).collect::<Vec<_>>().join(",")
    }
    /// the request line for the model
    fn model_line(&self, target_uuid: &Uuid) -> String {
        let ub = |u: &Uuid| u.as_bytes().iter().map(|b| b.to_string()).collect::<Vec<_>>().join(",");
        match self.kind.as_str() {
            "gen-group" | "gen-account" => format!("apply 1 - {}", self.bytes()),
            "sup-group" | "sup-account" => format!("apply 1 {} {}", self.gid.unwrap(), self.bytes()),
            "mod-set" => format!("apply 1 {} {}", self.gid.unwrap(), ub(target_uuid)),
            "mod-purge" => format!("apply 1 - {}", ub(target_uuid)),
            "multi" => format!("apply 1 multi {}", self.bytes()),
            "nonposix" => format!("apply 0 {} {}", self.gid.unwrap(), self.bytes()),
            k => panic!("kind {k}"),
        }
    }
}

/// What the implementation did, canonicalised.
#[derive(Debug, PartialEq, Clone)]
enum Obs {
    /// operation succeeded; gidnumber values now on the entry
    Ok(Vec<u32>),
    /// `PL0001GidOverlapsSystemRange`
    Overlaps,
    /// any other error (schema …)
    Other(String),
}

fn new_entry(c: &Case, n: u64) -> Entry<kanidmd_lib::entry::EntryInit, kanidmd_lib::entry::EntryNew> {
    let mut e = Entry::new();
    e.add_ava(Attribute::Class, EntryClass::Object.to_value());
    e.add_ava(Attribute::Uuid, Value::Uuid(c.uuid));
    e.add_ava(Attribute::Name, Value::new_iname(&format!("c21case{n}")));
    match c.kind.as_str() {
        "gen-group" | "sup-group" | "multi" => {
            e.add_ava(Attribute::Class, EntryClass::Group.to_value());
            e.add_ava(Attribute::Class, EntryClass::PosixGroup.to_value());
        }
        "gen-account" | "sup-account" => {
            e.add_ava(Attribute::Class, EntryClass::Account.to_value());
            e.add_ava(Attribute::Class, EntryClass::ServiceAccount.to_value());
            e.add_ava(Attribute::Class, EntryClass::PosixAccount.to_value());
            e.add_ava(Attribute::DisplayName, Value::new_utf8s("c21 case"));
        }
        "nonposix" => {
            e.add_ava(Attribute::Class, EntryClass::Group.to_value());
        }
        k => panic!("kind {k}"),
    }
    if let Some(g) = c.gid {
        e.add_ava(Attribute::GidNumber, Value::new_uint32(g));
    }
    if let Some(g) = c.gid2 {
        e.add_ava(Attribute::GidNumber, Value::new_uint32(g));
    }
    e
}

fn gids_of(txn: &mut QueryServerWriteTransaction<'_>, u: Uuid) -> Result<Vec<u32>, String> {
    let e = txn.internal_search_uuid(u).map_err(|e| format!("search:{e:?}"))?;
    Ok(match e.get_ava_set(Attribute::GidNumber) {
        None => vec![],
        Some(vs) => {
            if vs.len() == 1 {
                e.get_ava_single_uint32(Attribute::GidNumber).into_iter().collect()
            } else {
                // more than one value: report the count through placeholder zeros
                vec![0; vs.len()]
            }
        }
    })
}

async fn run_impl(qs: &QueryServer, target: Uuid, c: &Case, n: u64) -> Obs {
    let mut txn = qs.write(duration_from_epoch_now()).await.expect("write txn");
    let (r, who) = match c.kind.as_str() {
        "mod-set" => (
            txn.internal_modify_uuid(
                target,
                &ModifyList::new_purge_and_set(Attribute::GidNumber, Value::new_uint32(c.gid.unwrap())),
            ),
            target,
        ),
        "mod-purge" => (txn.internal_modify_uuid(target, &ModifyList::new_purge(Attribute::GidNumber)), target),
        _ => (txn.internal_create(vec![new_entry(c, n)]), c.uuid),
    };
    let obs = match r {
        Ok(()) => match gids_of(&mut txn, who) {
            Ok(g) => Obs::Ok(g),
            Err(e) => Obs::Other(e),
        },
        Err(OperationError::PL0001GidOverlapsSystemRange) => Obs::Overlaps,
        Err(e) => Obs::Other(format!("{e:?}")),
    };
    drop(txn); // abort
    obs
}

/// Compare with the model reply. The model only speaks about the plugin; what schema validation
/// does afterwards with a multi-valued or misplaced gidnumber is mapped explicitly here.
fn model_agrees(c: &Case, model: &str, obs: &Obs) -> bool {
    match (c.kind.as_str(), model) {
        (_, "overlaps") => *obs == Obs::Overlaps,
        ("multi", "ok multi") => matches!(obs, Obs::Other(e) if e.contains("SchemaViolation")),
        ("nonposix", m) if m.starts_with("ok ") => matches!(obs, Obs::Other(e) if e.contains("SchemaViolation")),
        (_, m) if m.starts_with("ok ") => match m[3..].parse::<u32>() {
            Ok(g) => *obs == Obs::Ok(vec![g]),
            Err(_) => false,
        },
        _ => false,
    }
}

/// The property, evaluated on the implementation's behaviour only.
fn oracle(c: &Case, obs: &Obs) -> Result<(), (String, String)> {
    let posix = c.kind != "nonposix";
    if let Obs::Ok(gs) = obs {
        if posix {
            // every POSIX account or group ends up with a gid number outside the reserved ranges
            if gs.len() != 1 {
                return Err(("posix-entry-without-single-gid".into(), format!("one gid number, found {}", gs.len())));
            }
            if reserved(gs[0] as u64) {
                return Err(("stored-gid-in-reserved-range".into(), format!("a gid outside {RESERVED:?}")));
            }
        } else if gs.iter().any(|g| reserved(*g as u64)) {
            return Err(("stored-gid-in-reserved-range".into(), format!("a gid outside {RESERVED:?}")));
        }
    }
    // a user-supplied number inside a reserved range is rejected
    for g in [c.gid, c.gid2].into_iter().flatten() {
        if reserved(g as u64) && matches!(obs, Obs::Ok(_)) && c.kind != "mod-purge" {
            return Err(("reserved-supplied-gid-accepted".into(), format!("rejection of supplied gid {g}")));
        }
    }
    // a supplied, accepted number is stored as supplied
    if let (Some(g), None, Obs::Ok(gs)) = (c.gid, c.gid2, obs) {
        if c.kind != "mod-purge" && gs != &vec![g] {
            return Err(("supplied-gid-altered".into(), format!("gid {g} kept")));
        }
    }
    Ok(())
}

fn uuid_with_low(r: &mut Rng, low: u32) -> Uuid {
    let mut b = [0u8; 16];
    for x in b.iter_mut().take(12) {
        *x = r.next() as u8;
    }
    // a valid-looking v4 uuid in the high part (the plugin does not care)
    b[6] = (b[6] & 0x0f) | 0x40;
    b[8] = (b[8] & 0x3f) | 0x80;
    b[12..16].copy_from_slice(&low.to_be_bytes());
    Uuid::from_bytes(b)
}

fn boundary_gids() -> Vec<u32> {
    // every end-point of every reserved interval and of its complement, ±1 and ±2
    let mut v: Vec<i64> = vec![];
    for (a, b) in RESERVED {
        for p in [*a as i64, *b as i64] {
            for d in -2..=2 {
                v.push(p + d);
            }
        }
    }
    // ends of the intervals the documentation names although they are not reserved
    for p in [60_000i64, 60_578, 61_183, 65_520, 65_533, 65_536, 524_287, 524_288, 1_879_048_191, 1_879_048_192, 2_147_483_647] {
        for d in -2..=2 {
            v.push(p + d);
        }
    }
    let mut v: Vec<u32> = v.into_iter().filter(|x| (0..=u32::MAX as i64).contains(x)).map(|x| x as u32).collect();
    v.sort();
    v.dedup();
    v
}

fn boundary_lows() -> Vec<u32> {
    let mut v = vec![0u32, 1, 2, 0x0fff_fffe, 0x0fff_ffff, 0x1000_0000, 0x1000_0001, 0x6fff_ffff, 0x7000_0000, 0x7fff_ffff,
        0x8000_0000, 0x8000_0001, 0xf000_0000, 0xefff_ffff, 0xffff_fffe, 0xffff_ffff, 0x997e_f244];
    for i in 0..32 {
        v.push(1 << i);
        v.push(!(1u32 << i));
    }
    v.sort();
    v.dedup();
    v
}

fn random_gid(r: &mut Rng) -> u32 {
    match r.below(8) {
        0 => *r.pick(&boundary_gids()),
        1 => r.below(70_000) as u32,
        2 => r.range(60_000, 66_000) as u32,
        3 => r.range(65_536, 524_290) as u32,
        4 => r.range(524_288, 1_879_048_193) as u32,
        5 => r.range(0x7000_0000, 0x8000_0001) as u32,
        6 => r.range(0x8000_0000, 0xffff_ffff) as u32,
        _ => r.next() as u32,
    }
}

struct Ctx {
    qs: QueryServer,
    target: Uuid,
    drv: Driver,
    rep: Report,
    n: u64,
}

impl Ctx {
    async fn run(&mut self, c: Case) {
        self.n += 1;
        let obs = run_impl(&self.qs, self.target, &c, self.n).await;
        let line = c.model_line(&self.target);
        let model = self.drv.ask(&line);
        self.rep.count(&format!("kind:{}", c.kind));
        self.rep.count(match &obs {
            Obs::Ok(_) => "outcome:ok",
            Obs::Overlaps => "outcome:overlaps-system-range",
            Obs::Other(_) => "outcome:other-error",
        });
        for g in [c.gid, c.gid2].into_iter().flatten() {
            self.rep.count(if reserved(g as u64) { "supplied:reserved" } else { "supplied:not-reserved" });
        }
        let nontrivial = !matches!(c.kind.as_str(), "multi" | "nonposix");
        let key = match c.kind.as_str() {
            "gen-group" | "gen-account" => format!("{}:{:08x}", c.kind, u32::from_be_bytes(c.uuid.as_bytes()[12..16].try_into().unwrap())),
            _ => format!("{}:{:?}", c.kind, c.gid),
        };
        self.rep.case(if nontrivial { Some(key) } else { None });
        if self.rep.evaluations % 1777 == 1 {
            self.rep.sample(json!({"case": c.to_json(), "request": line, "impl": format!("{obs:?}"), "model": model}));
        }
        if let Err((class, expected)) = oracle(&c, &obs) {
            self.rep.fail(Failure {
                kind: "impl-vs-oracle".into(),
                class,
                input: c.to_json(),
                expected,
                observed: format!("{obs:?}"),
            });
        }
        if !model_agrees(&c, &model, &obs) {
            self.rep.fail(Failure {
                kind: "impl-vs-model".into(),
                class: "unclassified".into(),
                input: c.to_json(),
                expected: model.clone(),
                observed: format!("{obs:?}"),
            });
        }
        // determinism: the generated number is a function of the uuid (its last four bytes)
        if c.kind.starts_with("gen-") {
            if let Obs::Ok(gs) = &obs {
                if self.n % 4 == 0 {
                    let again = run_impl(&self.qs, self.target, &c, self.n).await;
                    let mut r = Rng::for_case(0xC21, self.n);
                    let low = u32::from_be_bytes(c.uuid.as_bytes()[12..16].try_into().unwrap());
                    let sib = Case { uuid: uuid_with_low(&mut r, low), ..c.clone() };
                    let sibling = run_impl(&self.qs, self.target, &sib, self.n).await;
                    self.rep.count("determinism-checks");
                    if again != obs || sibling != obs {
                        self.rep.fail(Failure {
                            kind: "impl-vs-oracle".into(),
                            class: "generated-gid-not-a-function-of-uuid".into(),
                            input: json!({"kind": c.kind, "uuid": c.uuid.to_string(), "sibling_uuid": sib.uuid.to_string(), "gid": null, "gid2": null}),
                            expected: format!("{gs:?} again and for the sibling uuid"),
                            observed: format!("again {again:?}, sibling {sibling:?}"),
                        });
                    }
                }
            }
        }
    }
}

fn main() {
    // the server logs every rejected gid at ERROR level; the report carries what matters
    if std::env::var_os("RUST_LOG").is_none() {
        std::env::set_var("RUST_LOG", "off");
    }
    tokio::runtime::Builder::new_current_thread().enable_all().build().unwrap().block_on(real_main());
}

async fn real_main() {
    let args = Args::parse();
    let qs = setup_test(TestConfiguration::default()).await;
    // the long-lived posix group the modify cases act on
    let target = Uuid::from_u128(0xc21c21c2_0000_4000_8000_0000_5a17_c3e9);
    {
        let mut txn = qs.write(duration_from_epoch_now()).await.expect("txn");
        let mut e = Entry::new();
        e.add_ava(Attribute::Class, EntryClass::Object.to_value());
        e.add_ava(Attribute::Class, EntryClass::Group.to_value());
        e.add_ava(Attribute::Class, EntryClass::PosixGroup.to_value());
        e.add_ava(Attribute::Name, Value::new_iname("c21target"));
        e.add_ava(Attribute::Uuid, Value::Uuid(target));
        txn.internal_create(vec![e]).expect("create target");
        txn.commit().expect("commit");
    }
    let mut ctx = Ctx {
        qs,
        target,
        drv: Driver::spawn(&args.driver),
        rep: Report::new(
            "gid-plugin",
            "real gidnumber plugin via create/modify in aborted write transactions; kinds gen-*/sup-*/mod-* (posix entries), \
             multi, nonposix; non-trivial = a posix entry goes through the generate or the check branch; distinct = distinct \
             (kind, low uuid bytes) for generated and (kind, supplied gid) for supplied ids",
        ),
        n: 0,
    };
    if let Some(path) = &args.replay {
        let v: J = serde_json::from_str(&std::fs::read_to_string(path).unwrap()).unwrap();
        ctx.n = 3; // so that the determinism re-check (n % 4 == 0) runs
        ctx.run(Case::from_json(&v["input"])).await;
        ctx.rep.write(&args.out);
        println!("c21: replay, {} failures", ctx.rep.failures.len());
        return;
    }
    // ---- boundary part (always complete) --------------------------------------------------
    let mut r0 = Rng::for_case(args.seed, u64::MAX);
    for g in boundary_gids() {
        for kind in ["sup-group", "sup-account", "mod-set", "nonposix"] {
            let low = r0.next() as u32;
            ctx.run(Case { kind: kind.into(), uuid: uuid_with_low(&mut r0, low), gid: Some(g), gid2: None }).await;
        }
    }
    for low in boundary_lows() {
        for kind in ["gen-group", "gen-account"] {
            ctx.run(Case { kind: kind.into(), uuid: uuid_with_low(&mut r0, low), gid: None, gid2: None }).await;
        }
    }
    ctx.run(Case { kind: "mod-purge".into(), uuid: target, gid: None, gid2: None }).await;
    let nb = ctx.rep.evaluations;
    ctx.rep.note(format!("boundary part: {} supplied gids (every interval end-point ±2) x 4 kinds, {} uuid low words x 2 kinds = {nb} cases",
        boundary_gids().len(), boundary_lows().len()));
    // ---- random part ----------------------------------------------------------------------
    let n = args.cases(6_000, 150_000);
    for i in 0..n {
        let mut r = Rng::for_case(args.seed, i);
        let low = if r.chance(1, 8) { *r.pick(&boundary_lows()) } else { r.next() as u32 };
        let uuid = uuid_with_low(&mut r, low);
        let c = match r.below(20) {
            0..=5 => Case { kind: "gen-group".into(), uuid, gid: None, gid2: None },
            6..=8 => Case { kind: "gen-account".into(), uuid, gid: None, gid2: None },
            9..=12 => Case { kind: "sup-group".into(), uuid, gid: Some(random_gid(&mut r)), gid2: None },
            13 | 14 => Case { kind: "sup-account".into(), uuid, gid: Some(random_gid(&mut r)), gid2: None },
            15 | 16 => Case { kind: "mod-set".into(), uuid, gid: Some(random_gid(&mut r)), gid2: None },
            17 => Case { kind: "mod-purge".into(), uuid: target, gid: None, gid2: None },
            18 => {
                let a = random_gid(&mut r);
                let mut b = random_gid(&mut r);
                if b == a {
                    b = a.wrapping_add(1);
                }
                Case { kind: "multi".into(), uuid, gid: Some(a), gid2: Some(b) }
            }
            _ => Case { kind: "nonposix".into(), uuid, gid: Some(random_gid(&mut r)), gid2: None },
        };
        ctx.run(c).await;
        if ctx.rep.failures.len() >= 20 {
            break;
        }
    }
    ctx.rep.model_requests = ctx.drv.requests;
    ctx.rep.write(&args.out);
    println!("c21: {} cases, {} failures", ctx.rep.evaluations, ctx.rep.failures.len());
}
