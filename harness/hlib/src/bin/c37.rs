//! C37, stream `intent` — credential reset links are single use.
//!
//! A real in-memory `IdmServer`; two fresh person accounts per case; every operation is one
//! `proxy_write` transaction committed iff the call returned `Ok` (as `actors/v1_write.rs` does):
//!   I a ttl  `init_credential_update_intent` (as idm_admin) for account a, ttl seconds or `-`
//!   X l      `exchange_intent_credential_update` of link l          → token slot
//!   D a      `init_credential_update` (session without a link)      → token slot
//!   P k      `credential_primary_set_password` through slot k (a fresh password each time)
//!   C k / K k  `commit_credential_update` / `cancel_credential_update` with slot k
//!   R l      `revoke_credential_update_intent`
//!   T d      advance the clock by d nanoseconds (operations without a `T` between them happen at the
//!            *same instant*: hypothesis H3 of DESIGN §6 is exercised, not assumed)
//! After every operation the stored link states of both accounts (variant, max_ttl, session id =
//! instant ‖ sid, session_ttl) and the password that verifies against the stored primary
//! credential are read back in a read transaction and compared with the reply of the Lean model
//! (`km_c37`), which receives the same operation (the per-transaction random `sid` is read from
//! the stored `InProgress.session_id` after a successful exchange and handed to the model).
//!
//! Oracle (implementation outputs only, from the property text):
//!  O1 a link's tokens commit successfully at most once
//!  O2 after a successful commit through a link's token, no exchange of that link succeeds
//!  O3 no exchange succeeds at or after the expiry the server announced for the link
//!  O4 once a later exchange of the same link has succeeded, the earlier token cannot commit
//!  O5 the stored credential changes only in a successful commit, and then to the password last
//!     set through the committing token
use hlib::*;
use kanidmd_lib::entry::{Entry, EntryCommitted, EntryInit, EntryNew, EntrySealed};
use kanidmd_lib::idm::credupdatesession::{
    CredentialUpdateIntentTokenExchange, CredentialUpdateSessionToken, InitCredentialUpdateEvent,
    InitCredentialUpdateIntentEvent,
};
use kanidmd_lib::idm::server::{IdmServer, IdmServerAudit, IdmServerDelayed};
use kanidmd_lib::prelude::*;
use kanidmd_lib::testkit::{setup_idm_test, TestConfiguration};
use kanidmd_lib::value::IntentTokenState;
use serde_json::json;
use std::collections::BTreeMap;
use std::sync::Arc;

const NS: u128 = 1_000_000_000;
const DAY: u128 = 86_400 * NS;
/// a UTC midnight well after "now" (21 990 days after the epoch)
const T0: u128 = 21_990 * DAY;
const CU_TTL: u128 = 900 * NS;

fn dur(ns: u128) -> Duration {
    Duration::new((ns / NS) as u64, (ns % NS) as u32)
}
fn ns_of(d: Duration) -> u128 {
    d.as_secs() as u128 * NS + d.subsec_nanos() as u128
}

#[derive(Clone, Debug, PartialEq, Eq)]
enum Ev {
    I(usize, Option<u64>),
    X(usize),
    D(usize),
    P(usize),
    C(usize),
    K(usize),
    R(usize),
    T(u128),
}

impl Ev {
    fn show(&self) -> String {
        match self {
            Ev::I(a, None) => format!("I {a} -"),
            Ev::I(a, Some(t)) => format!("I {a} {t}"),
            Ev::X(l) => format!("X {l}"),
            Ev::D(a) => format!("D {a}"),
            Ev::P(k) => format!("P {k}"),
            Ev::C(k) => format!("C {k}"),
            Ev::K(k) => format!("K {k}"),
            Ev::R(l) => format!("R {l}"),
            Ev::T(d) => format!("T {d}"),
        }
    }
    fn parse(s: &str) -> Ev {
        let p: Vec<&str> = s.split(' ').collect();
        let n = |i: usize| p[i].parse::<usize>().expect("event argument");
        match p[0] {
            "I" => Ev::I(n(1), if p[2] == "-" { None } else { Some(p[2].parse().unwrap()) }),
            "X" => Ev::X(n(1)),
            "D" => Ev::D(n(1)),
            "P" => Ev::P(n(1)),
            "C" => Ev::C(n(1)),
            "K" => Ev::K(n(1)),
            "R" => Ev::R(n(1)),
            "T" => Ev::T(p[1].parse().unwrap()),
            o => panic!("bad event {o}"),
        }
    }
}

fn show_evs(evs: &[Ev]) -> Vec<String> {
    evs.iter().map(|e| e.show()).collect()
}

struct World {
    idms: IdmServer,
    _delayed: IdmServerDelayed,
    _audit: IdmServerAudit,
    admin: Arc<Entry<EntrySealed, EntryCommitted>>,
    next_acct: u64,
    case_no: u64,
    pw_no: u64,
}

struct Link {
    id: String,
    acct: usize,
    /// expiry announced by the server (ns)
    expiry: u128,
    /// (slot, instant) of the successful exchanges, in order
    exchanges: Vec<(usize, u128)>,
    commits_ok: u32,
}

struct Slot {
    real: CredentialUpdateSessionToken,
    /// the model's token (t, sid, max_ttl) as replied by the model
    model: Option<(u128, u128, u128)>,
    link: Option<usize>,
    acct: usize,
    at: u128,
    last_pw: Option<u64>,
}

#[derive(Default)]
struct CaseOut {
    failures: Vec<Failure>,
    counts: Vec<String>,
    ops: u64,
    exch_ok: u32,
    after_exch_attempts: u32,
    commits_ok: u32,
    outcomes: Vec<String>,
}

impl World {
    async fn new() -> World {
        let (idms, _delayed, _audit) = setup_idm_test(TestConfiguration::default()).await;
        let admin = {
            let mut r = idms.proxy_read().await.unwrap();
            r.qs_read.internal_search_uuid(UUID_IDM_ADMIN).expect("idm_admin")
        };
        {
            // the default policy of idm_all_persons demands MFA, which would make every
            // password-only session fail `can_commit` (CU0004): lift it, as the unit tests do
            let mut t = idms.proxy_write(dur(T0)).await.unwrap();
            t.qs_write
                .internal_modify_uuid(UUID_IDM_ALL_PERSONS, &ModifyList::new_purge(Attribute::CredentialTypeMinimum))
                .expect("lift credential type minimum");
            t.commit().expect("commit policy");
        }
        World { idms, _delayed, _audit, admin, next_acct: 0, case_no: 0, pw_no: 0 }
    }

    fn ident(&self) -> Identity {
        Identity::from_impersonate_entry_readwrite(self.admin.clone())
    }

    async fn account(&mut self, at: u128) -> Uuid {
        self.next_acct += 1;
        let name = format!("c37acct{}", self.next_acct);
        let uuid = nat_uuid(0xC37_0000_0000 + self.next_acct);
        let mut e: Entry<EntryInit, EntryNew> = Entry::new();
        e.add_ava(Attribute::Class, EntryClass::Object.to_value());
        e.add_ava(Attribute::Class, EntryClass::Account.to_value());
        e.add_ava(Attribute::Class, EntryClass::Person.to_value());
        e.add_ava(Attribute::Name, Value::new_iname(&name));
        e.add_ava(Attribute::Uuid, Value::Uuid(uuid));
        e.add_ava(Attribute::Description, Value::new_utf8s(&name));
        e.add_ava(Attribute::DisplayName, Value::new_utf8s(&name));
        let mut w = self.idms.proxy_write(dur(at)).await.unwrap();
        w.qs_write.internal_create(vec![e]).expect("create account");
        w.commit().expect("commit account");
        uuid
    }

    /// Stored link states and verifying password of the accounts, canonical text.
    async fn observe(&self, accts: &[Uuid], links: &[Link], pws: &BTreeMap<u64, String>, hint: &mut [Option<u64>]) -> (String, String, Vec<Option<(u128, u128)>>) {
        let mut r = self.idms.proxy_read().await.unwrap();
        let mut ls: Vec<(usize, String)> = vec![];
        let mut sess: Vec<Option<(u128, u128)>> = vec![None; links.len()];
        let mut cs: Vec<String> = vec![];
        for (ai, u) in accts.iter().enumerate() {
            let e = r.qs_read.internal_search_uuid(*u).expect("account entry");
            if let Some(m) = e.get_ava_as_intenttokens(Attribute::CredentialUpdateIntentToken) {
                for (id, st) in m.iter() {
                    let idx = links.iter().position(|l| &l.id == id).unwrap_or(usize::MAX);
                    let s = match st {
                        IntentTokenState::Valid { max_ttl, .. } => format!("{idx}:{ai}:V:{}", ns_of(*max_ttl)),
                        IntentTokenState::InProgress { max_ttl, session_id, session_ttl, .. } => {
                            let b = session_id.as_bytes();
                            let secs = u64::from_be_bytes(b[0..8].try_into().unwrap()) as u128;
                            let nanos = u32::from_be_bytes(b[8..12].try_into().unwrap()) as u128;
                            let sid = u32::from_be_bytes(b[12..16].try_into().unwrap()) as u128;
                            if idx != usize::MAX {
                                sess[idx] = Some((secs * NS + nanos, sid));
                            }
                            format!("{idx}:{ai}:P:{}:{}:{}:{}", ns_of(*max_ttl), secs * NS + nanos, sid, ns_of(*session_ttl))
                        }
                        IntentTokenState::Consumed { max_ttl } => format!("{idx}:{ai}:C:{}", ns_of(*max_ttl)),
                    };
                    ls.push((idx, s));
                }
            }
            // which known password verifies against the stored primary credential
            let cred = e.get_ava_single_credential(Attribute::PrimaryCredential);
            let found = match cred {
                None => None,
                Some(c) => {
                    let ok = |v: u64| c.password_ref().ok().and_then(|p| p.verify(&pws[&v]).ok()).unwrap_or(false);
                    match hint[ai] {
                        Some(v) if ok(v) => Some(v),
                        _ => Some(pws.keys().rev().copied().find(|v| ok(*v)).unwrap_or(0)),
                    }
                }
            };
            hint[ai] = found;
            if let Some(v) = found {
                cs.push(format!("{ai}={v}"));
            }
        }
        ls.sort();
        let l = if ls.is_empty() { "-".to_string() } else { ls.into_iter().map(|x| x.1).collect::<Vec<_>>().join(",") };
        let c = if cs.is_empty() { "-".to_string() } else { cs.join(",") };
        (format!("L {l}"), format!("C {c}"), sess)
    }
}

fn err_name(e: &OperationError) -> String {
    let s = format!("{e:?}");
    s.split(|c: char| !c.is_alphanumeric()).next().unwrap_or("").to_string()
}

fn opt(v: Option<u64>) -> String {
    v.map(|x| x.to_string()).unwrap_or_else(|| "-".into())
}

async fn exec_case(w: &mut World, drv: &mut Driver, kind: &str, evs: &[Ev]) -> CaseOut {
    let mut out = CaseOut::default();
    w.case_no += 1;
    let base = T0 + w.case_no as u128 * 2 * DAY;
    let accts = [w.account(base - NS).await, w.account(base - NS).await];
    let mut now = base;
    let _ = drv.ask("new");
    let mut links: Vec<Link> = vec![];
    let mut slots: Vec<Option<Slot>> = vec![];
    let mut pws: BTreeMap<u64, String> = BTreeMap::new();
    let mut hint: [Option<u64>; 2] = [None, None];
    let mut cred_seen: [Option<u64>; 2] = [None, None];
    // One model disagreement and one failure per oracle are kept per history, *independently*: after
    // the first disagreement the model's state is no longer the implementation's, so later
    // comparisons say nothing new, but the ORACLE only looks at the implementation's own
    // outputs and keeps judging every remaining operation (AGENT_GUIDE "Search on break").
    // (kind, class) pairs already reported for this history: the first of each is kept
    let mut reported: Vec<(String, String)> = vec![];
    let input = |at: usize| json!({"kind": kind, "events": show_evs(evs), "at": at});
    macro_rules! fail {
        ($kind:expr, $class:expr, $at:expr, $exp:expr, $obs:expr) => {
            let key: (String, String) = ($kind.into(), if $kind == "impl-vs-oracle" { $class.into() } else { String::new() });
            if !reported.contains(&key) {
                reported.push(key);
                out.failures.push(Failure { kind: $kind.into(), class: $class.into(), input: input($at), expected: $exp, observed: $obs });
            }
        };
    }
    for (i, ev) in evs.iter().enumerate() {
        // (real result, model request); None = not applicable (dangling reference): skipped on both sides
        let mut real_res: String;
        let model_req: String;
        // expectations of O5 for this op: Some((acct, value)) when a successful commit fixes the stored credential
        let mut o5_commit: Option<(usize, Option<u64>)> = None;
        let mut fresh_exchange: Option<usize> = None;
        match ev {
            Ev::T(d) => {
                now += *d;
                continue;
            }
            Ev::I(a, ttl) => {
                let a = *a % 2;
                let mut t = w.idms.proxy_write(dur(now)).await.unwrap();
                let evn = InitCredentialUpdateIntentEvent::new(w.ident(), accts[a], ttl.map(Duration::from_secs));
                match t.init_credential_update_intent(&evn, dur(now)) {
                    Ok(tok) => {
                        t.commit().expect("commit init");
                        let expiry = tok.expiry_time.unix_timestamp_nanos() as u128;
                        links.push(Link { id: tok.intent_id.clone(), acct: a, expiry, exchanges: vec![], commits_ok: 0 });
                        real_res = format!("link {} {expiry}", links.len() - 1);
                    }
                    Err(e) => {
                        drop(t);
                        real_res = format!("err {}", err_name(&e));
                    }
                }
                model_req = format!("init {a} {} {now}", ttl.map(|s| (s as u128 * NS).to_string()).unwrap_or_else(|| "-".into()));
            }
            Ev::X(l) => {
                if *l >= links.len() {
                    out.counts.push("skipped:dangling".into());
                    continue;
                }
                let mut t = w.idms.proxy_write(dur(now)).await.unwrap();
                let r = t.exchange_intent_credential_update(CredentialUpdateIntentTokenExchange { intent_id: links[*l].id.clone() }, dur(now));
                match r {
                    Ok((tok, _status)) => {
                        t.commit().expect("commit exchange");
                        // O2 / O3
                        if links[*l].commits_ok > 0 {
                            fail!("impl-vs-oracle", "O2:exchange-after-commit", i, "O2 exchange refused after the link's change was committed".to_string(), "exchange succeeded".to_string());
                        }
                        if now >= links[*l].expiry {
                            fail!("impl-vs-oracle", "O3:exchange-at-or-after-announced-expiry", i, format!("O3 exchange refused at {now} >= announced expiry {}", links[*l].expiry), "exchange succeeded".to_string());
                        }
                        if !links[*l].exchanges.is_empty() {
                            out.after_exch_attempts += 1;
                        }
                        links[*l].exchanges.push((slots.len(), now));
                        slots.push(Some(Slot { real: tok, model: None, link: Some(*l), acct: links[*l].acct, at: now, last_pw: None }));
                        fresh_exchange = Some(*l);
                        out.exch_ok += 1;
                        real_res = "token".into();
                    }
                    Err(e) => {
                        drop(t);
                        if !links[*l].exchanges.is_empty() {
                            out.after_exch_attempts += 1;
                        }
                        slots.push(None);
                        real_res = format!("err {}", err_name(&e));
                    }
                }
                // the model request is completed below, once the sid is known
                model_req = format!("xchg {l} {now}");
            }
            Ev::D(a) => {
                let a = *a % 2;
                let mut t = w.idms.proxy_write(dur(now)).await.unwrap();
                match t.init_credential_update(&InitCredentialUpdateEvent::new(w.ident(), accts[a]), dur(now)) {
                    Ok((tok, _)) => {
                        t.commit().expect("commit direct");
                        slots.push(Some(Slot { real: tok, model: None, link: None, acct: a, at: now, last_pw: None }));
                        real_res = "token".into();
                    }
                    Err(e) => {
                        drop(t);
                        slots.push(None);
                        real_res = format!("err {}", err_name(&e));
                    }
                }
                // the sid of a link-less session is not observable: a value outside the u32 range
                // (it only matters for session-id collisions and at an instant where the token has
                // expired anyway)
                model_req = format!("direct {a} {now} {}", (1u128 << 32) + slots.len() as u128);
            }
            Ev::P(k) | Ev::C(k) | Ev::K(k) => {
                let Some(Some(slot)) = slots.get_mut(*k) else {
                    out.counts.push("skipped:dangling".into());
                    continue;
                };
                let (mt, msid, mm) = slot.model.unwrap_or((0, 0, 0));
                match ev {
                    Ev::P(_) => {
                        w.pw_no += 1;
                        let v = pws.len() as u64 + 1;
                        let pw = format!("c37-Zq{}-xk{}-vTeh8uwo", w.pw_no, v * 7919);
                        pws.insert(v, pw.clone());
                        let c = w.idms.cred_update_transaction().await.unwrap();
                        match c.credential_primary_set_password(&slot.real, dur(now), &pw) {
                            Ok(_) => {
                                slot.last_pw = Some(v);
                                real_res = "pwset".into();
                            }
                            Err(e) => real_res = format!("err {}", err_name(&e)),
                        }
                        model_req = format!("setpw {mt} {msid} {mm} {v} {now}");
                    }
                    Ev::C(_) => {
                        if slot.link.is_some() {
                            out.after_exch_attempts += 1;
                        }
                        let mut t = w.idms.proxy_write(dur(now)).await.unwrap();
                        match t.commit_credential_update(&slot.real, dur(now)) {
                            Ok(()) => {
                                t.commit().expect("commit commit");
                                out.commits_ok += 1;
                                o5_commit = Some((slot.acct, slot.last_pw));
                                real_res = "committed".into();
                                if let Some(l) = slot.link {
                                    if slot.at >= links[l].expiry {
                                        // consequence of an O3 failure (reported at the exchange): the late session also commits
                                        out.counts.push("observation:commit-through-exchange-at-or-after-announced-expiry:ACCEPTED".into());
                                    }
                                    // O1
                                    links[l].commits_ok += 1;
                                    if links[l].commits_ok > 1 {
                                        fail!("impl-vs-oracle", "O1:second-commit-through-one-link", i, "O1 at most one successful commit per link".to_string(), format!("{} successful commits through link {l}", links[l].commits_ok));
                                    }
                                    // O4
                                    let later: Vec<&(usize, u128)> = links[l].exchanges.iter().filter(|(s, _)| *s > *k).collect();
                                    if let Some((s2, at2)) = later.first() {
                                        let class = if *at2 == slot.at { "H3:same-instant-exchange-supersede" } else { "O4:superseded-session-commits" };
                                        fail!("impl-vs-oracle", class, i, format!("O4 commit through slot {k} refused: link {l} was exchanged again (slot {s2})"), "commit succeeded".to_string());
                                    }
                                }
                            }
                            Err(e) => {
                                drop(t);
                                real_res = format!("err {}", err_name(&e));
                            }
                        }
                        // observation at the H3 point
                        if let Some(l) = slot.link {
                            if links[l].exchanges.iter().any(|(s, at)| *s > *k && *at == slot.at) {
                                out.counts.push(format!("observation:same-instant-supersede:commit-{}", if real_res == "committed" { "ACCEPTED" } else { "refused" }));
                            }
                        }
                        model_req = format!("commit {mt} {msid} {mm} {now}");
                    }
                    _ => {
                        if slot.link.is_some() {
                            out.after_exch_attempts += 1;
                        }
                        let mut t = w.idms.proxy_write(dur(now)).await.unwrap();
                        match t.cancel_credential_update(&slot.real, dur(now)) {
                            Ok(()) => {
                                t.commit().expect("commit cancel");
                                real_res = "cancelled".into();
                            }
                            Err(e) => {
                                drop(t);
                                real_res = format!("err {}", err_name(&e));
                            }
                        }
                        model_req = format!("cancel {mt} {msid} {mm} {now}");
                    }
                }
            }
            Ev::R(l) => {
                if *l >= links.len() {
                    out.counts.push("skipped:dangling".into());
                    continue;
                }
                let mut t = w.idms.proxy_write(dur(now)).await.unwrap();
                match t.revoke_credential_update_intent(CredentialUpdateIntentTokenExchange { intent_id: links[*l].id.clone() }, dur(now)) {
                    Ok(()) => {
                        t.commit().expect("commit revoke");
                        real_res = "revoked".into();
                    }
                    Err(e) => {
                        drop(t);
                        real_res = format!("err {}", err_name(&e));
                    }
                }
                model_req = format!("revoke {l} {now}");
            }
        }
        out.ops += 1;
        // read the stored state back
        let (real_l, real_c, sess) = w.observe(&accts, &links, &pws, &mut hint).await;
        // complete the exchange request with the transaction's sid
        let model_req = if let Ev::X(l) = ev {
            let sid = match fresh_exchange {
                Some(_) => sess[*l].map(|x| x.1),
                None => Some(0),
            };
            match sid {
                Some(sid) => format!("{model_req} {sid}"),
                None => {
                    fail!("impl-vs-model", "unclassified", i, "link InProgress after a successful exchange".to_string(), real_l.clone());
                    format!("{model_req} 0")
                }
            }
        } else {
            model_req
        };
        let reply = drv.ask(&model_req);
        let parts: Vec<&str> = reply.split(" | ").collect();
        let (m_res, m_l, m_c) = (parts[0].to_string(), parts.get(1).copied().unwrap_or("").to_string(), parts.get(2).copied().unwrap_or("").to_string());
        // remember the model's token
        if matches!(ev, Ev::X(_) | Ev::D(_)) {
            if let Some(rest) = m_res.strip_prefix("token ") {
                let n: Vec<u128> = rest.split(' ').map(|x| x.parse().unwrap()).collect();
                if let Some(Some(s)) = slots.last_mut() {
                    s.model = Some((n[0], n[1], n[2]));
                }
            }
        }
        // canonical result comparison: the model's extra detail is checked through the state
        let m_head = m_res.split(' ').next().unwrap_or("").to_string();
        let (r_cmp, m_cmp) = match m_head.as_str() {
            "link" => (real_res.clone(), m_res.clone()),
            "err" => (real_res.clone(), m_res.clone()),
            _ => (real_res.split(' ').next().unwrap_or("").to_string(), m_head.clone()),
        };
        if r_cmp != m_cmp || real_l != m_l || real_c != m_c {
            fail!("impl-vs-model", "unclassified", i, format!("{m_res} | {m_l} | {m_c}"), format!("{real_res} | {real_l} | {real_c}"));
        }
        if real_res == "committed" {
            // the model names the link and value the commit was for
            if let (Some(Some(slot)), Some(rest)) = (slots.get(match ev { Ev::C(k) => *k, _ => usize::MAX }), m_res.strip_prefix("committed ")) {
                let want = format!("{} {} {}", slot.link.map(|l| l.to_string()).unwrap_or_else(|| "-".into()), slot.acct, opt(slot.last_pw.or(None)));
                // only the link and account are fixed by the harness' own bookkeeping
                let got: Vec<&str> = rest.split(' ').collect();
                let wantv: Vec<&str> = want.split(' ').collect();
                if got[0] != wantv[0] || got[1] != wantv[1] {
                    out.counts.push("observation:commit-attributed-to-other-link".into());
                }
            }
        }
        // O5
        let seen: Vec<Option<u64>> = (0..2).map(|a| real_c[2..].split(',').find_map(|kv| kv.split_once('=').filter(|(k, _)| *k == a.to_string()).map(|(_, v)| v.parse::<u64>().unwrap()))).collect();
        for a in 0..2 {
            let changed = seen[a] != cred_seen[a];
            match o5_commit {
                Some((ca, want)) if ca == a => {
                    if let Some(v) = want {
                        if seen[a] != Some(v) {
                            fail!("impl-vs-oracle", "O5:credential-changed-outside-commit", i, format!("O5 stored credential of account {a} is password {v} (last set through the committing token)"), format!("{:?}", seen[a]));
                        }
                    }
                }
                _ => {
                    if changed {
                        fail!("impl-vs-oracle", "O5:credential-changed-outside-commit", i, format!("O5 stored credential of account {a} unchanged by `{}` ({real_res})", ev.show()), format!("{:?} -> {:?}", cred_seen[a], seen[a]));
                    }
                }
            }
            cred_seen[a] = seen[a];
        }
        real_res.truncate(40);
        out.counts.push(format!("{}:{}", ev.show().split(' ').next().unwrap(), real_res.split(' ').take(2).filter(|x| x.chars().next().map(|c| c.is_alphabetic()).unwrap_or(false)).collect::<Vec<_>>().join(":")));
        out.outcomes.push(real_res);
    }
    out
}

// ---------------------------------------------------------------- generators

/// Scripted cases: the flows of the property text, the H3 point and every boundary.
fn scripted() -> Vec<(String, Vec<Ev>)> {
    let mut v: Vec<(String, Vec<Ev>)> = scripted_flows().into_iter().map(|(k, e)| (k.to_string(), e)).collect();
    v.extend(late_reexchange());
    v
}

/// "Once … the link expires, it can no longer be exchanged" — also after the link has already been
/// exchanged once while it was valid. A link with less than the 900 s session lifetime left is
/// exchanged at +10 s, the session is abandoned or cancelled (+20 s), and the same link is exchanged
/// again around the expiry the server ANNOUNCED for it at init (−1 s must still work, +0 and +1 s
/// must not) and 899 s after the first exchange (while that first session would still be alive:
/// past every announced expiry used here). The new session then sets a password and commits.
fn late_reexchange() -> Vec<(String, Vec<Ev>)> {
    use Ev::*;
    let s = NS;
    let mut v = vec![];
    for ttl in [300u64, 301, 600, 899] {
        for cancel in [false, true] {
            // instants relative to the init
            let whens: [(&str, u128); 4] = [
                ("expiry-1s", (ttl as u128 - 1) * s),
                ("expiry+0", ttl as u128 * s),
                ("expiry+1s", (ttl as u128 + 1) * s),
                ("first+899s", 10 * s + 899 * s),
            ];
            for (wn, at) in whens {
                let mut e = vec![I(0, Some(ttl)), T(10 * s), X(0), P(0)];
                let mut now = 10 * s;
                if cancel {
                    e.extend([T(10 * s), K(0)]);
                    now += 10 * s;
                }
                e.extend([T(at - now), X(0), P(1), C(1), C(0), X(0)]);
                v.push((format!("late-ttl{ttl}-{}-{wn}", if cancel { "cancel" } else { "abandon" }), e));
            }
        }
    }
    // the same through the clamp (ttl 1 s is announced as 300 s) and at nanosecond distance
    v.push(("late-clamped-expiry+0".into(), vec![I(0, Some(1)), T(10 * s), X(0), T(290 * s), X(0), P(1), C(1)]));
    v.push(("late-ttl300-expiry-1ns".into(), vec![I(0, Some(300)), T(10 * s), X(0), T(290 * s - 1), X(0), P(1), C(1), T(1), X(0)]));
    v.push(("late-ttl300-cancel-expiry+1ns".into(), vec![I(0, Some(300)), T(10 * s), X(0), K(0), T(290 * s + 1), X(0), P(1), C(1)]));
    // a chain of re-exchanges, each inside the previous session's 900 s but the last past the link's expiry
    v.push(("late-chain".into(), vec![I(0, Some(600)), T(10 * s), X(0), T(500 * s), X(0), T(500 * s), X(0), P(2), C(2), T(500 * s), X(0)]));
    v
}

fn scripted_flows() -> Vec<(&'static str, Vec<Ev>)> {
    use Ev::*;
    let s = NS;
    vec![
        ("happy", vec![I(0, None), T(s), X(0), T(s), P(0), T(s), C(0), T(s), X(0), C(0)]),
        ("supersede", vec![I(0, None), T(s), X(0), P(0), T(s), X(0), P(1), T(s), C(0), T(s), C(1), C(0), X(0)]),
        ("supersede-late", vec![I(0, None), T(s), X(0), T(901 * s), X(0), P(1), C(0), C(1)]),
        ("cancel", vec![I(0, None), T(s), X(0), P(0), T(s), K(0), C(0), T(s), X(0), P(1), C(1), X(0)]),
        ("cancel-superseded", vec![I(0, None), T(s), X(0), T(s), X(0), K(0), K(1), X(0), P(2), C(2)]),
        ("revoke-valid", vec![I(0, None), T(s), R(0), X(0)]),
        ("revoke-inprogress", vec![I(0, None), T(s), X(0), P(0), R(0), C(0), X(0)]),
        ("revoke-consumed", vec![I(0, None), T(s), X(0), P(0), C(0), R(0), X(0)]),
        // H3: two exchanges of the same link at one instant
        ("h3-same-instant", vec![I(0, None), T(s), X(0), X(0), P(0), C(0), C(1)]),
        ("h3-same-instant-2", vec![I(0, None), T(s), X(0), P(0), X(0), P(1), C(0), C(1), X(0)]),
        ("h3-two-links-same-instant", vec![I(0, None), I(1, None), T(s), X(0), X(1), P(0), P(1), C(0), C(1)]),
        ("h3-direct-same-instant", vec![I(0, None), T(s), X(0), D(0), P(0), P(1), C(0), C(1)]),
        // link expiry boundary (ttl 300 s = the minimum)
        ("expiry-1", vec![I(0, Some(300)), T(300 * s - 1), X(0), P(0), C(0)]),
        ("expiry+0", vec![I(0, Some(300)), T(300 * s), X(0)]),
        ("expiry+1", vec![I(0, Some(300)), T(300 * s + 1), X(0)]),
        ("expiry-clamp-low", vec![I(0, Some(1)), T(299 * s), X(0), T(s), X(0)]),
        ("expiry-clamp-high", vec![I(0, Some(100_000)), T(86_400 * s - 1), X(0), T(1), X(0)]),
        ("expiry-default", vec![I(0, None), T(3600 * s - 1), X(0), T(1), X(0)]),
        ("expiry-in-session", vec![I(0, Some(300)), T(299 * s), X(0), P(0), T(2 * s), X(0), C(0), X(0)]),
        ("expiry-in-session-cancel", vec![I(0, Some(300)), T(299 * s), X(0), T(2 * s), K(0), X(0)]),
        // session token boundary (900 s)
        ("token-1", vec![I(0, None), T(s), X(0), P(0), T(900 * s - 1), C(0)]),
        ("token+0", vec![I(0, None), T(s), X(0), P(0), T(900 * s), C(0), X(0)]),
        ("token+0-setpw", vec![I(0, None), T(s), X(0), T(900 * s - 1), P(0), T(1), P(0), K(0)]),
        ("token-expired-reexchange", vec![I(0, None), T(s), X(0), P(0), T(900 * s), X(0), C(0), P(1), C(1)]),
        ("session-gc", vec![I(0, None), T(s), X(0), T(900 * s - 1), D(1), C(0)]),
        ("session-gc-2", vec![I(0, None), T(s), X(0), T(900 * s + 5), D(1), C(0), C(1)]),
        // purge of expired links by a later init, then the purged link
        ("purge", vec![I(0, Some(300)), T(s), X(0), T(300 * s), I(0, Some(300)), X(0), C(0), X(1), P(1), C(1)]),
        ("purge-other-account", vec![I(0, Some(300)), T(301 * s), I(1, None), X(0), I(0, None), X(0)]),
        ("no-purge-before-expiry", vec![I(0, Some(300)), T(299 * s), I(0, None), X(0), X(1), P(0), P(1), C(1), C(0)]),
        // two links on one account, two accounts
        ("two-links-one-account", vec![I(0, None), I(0, None), T(s), X(0), T(s), X(1), P(0), P(1), T(s), C(0), T(s), C(1), X(0), X(1)]),
        ("two-accounts", vec![I(0, None), I(1, None), T(s), X(0), T(s), X(1), P(0), P(1), T(s), C(1), T(s), C(0), X(0), X(1)]),
        ("direct-and-link", vec![I(0, None), T(s), X(0), T(s), D(0), P(1), T(s), C(1), T(s), C(0), T(s), X(0)]),
        ("commit-no-change", vec![I(0, None), T(s), X(0), T(s), C(0), T(s), X(0)]),
        ("double-commit", vec![I(0, None), T(s), X(0), P(0), C(0), C(0), K(0)]),
        ("double-cancel", vec![I(0, None), T(s), X(0), K(0), K(0), C(0), X(0), T(s), K(1)]),
    ]
}

/// All event sequences of length `n` over the one-link alphabet, after `I 0 300`.
/// `X` is followed by a `P` through the new slot so that every session carries its own password.
fn enumerate(n: usize, f: &mut dyn FnMut(Vec<Ev>)) {
    // symbols: 0 X, 1 C0, 2 C1, 3 K0, 4 K1, 5 R, 6 T+1s, 7 T+300s, 8 T+900s
    fn rec(n: usize, cur: &mut Vec<u8>, f: &mut dyn FnMut(Vec<Ev>)) {
        if cur.len() == n {
            let mut evs = vec![Ev::I(0, Some(300))];
            let mut x = 0;
            for s in cur.iter() {
                match s {
                    0 => {
                        evs.push(Ev::X(0));
                        evs.push(Ev::P(x));
                        x += 1;
                    }
                    1 => evs.push(Ev::C(0)),
                    2 => evs.push(Ev::C(1)),
                    3 => evs.push(Ev::K(0)),
                    4 => evs.push(Ev::K(1)),
                    5 => evs.push(Ev::R(0)),
                    6 => evs.push(Ev::T(NS)),
                    7 => evs.push(Ev::T(300 * NS)),
                    _ => evs.push(Ev::T(900 * NS)),
                }
            }
            f(evs);
            return;
        }
        let xs = cur.iter().filter(|s| **s == 0).count();
        for s in 0..9u8 {
            // references to a slot need the slot; a trailing clock step or two steps of the same
            // kind in a row add nothing
            if (s == 1 || s == 3) && xs < 1 {
                continue;
            }
            if (s == 2 || s == 4) && xs < 2 {
                continue;
            }
            if s >= 6 && (cur.len() + 1 == n || cur.last().map(|l| *l >= 6).unwrap_or(false)) {
                continue;
            }
            cur.push(s);
            rec(n, cur, f);
            cur.pop();
        }
    }
    rec(n, &mut vec![], f);
}

/// Random histories over one or two links on one or two accounts with boundary-seeking clock steps.
/// The generator keeps a rough guess of which exchanges succeeded so that most references hit a
/// live token; wrong guesses only make the history less busy, never wrong.
fn random_case(r: &mut Rng, search: bool) -> Vec<Ev> {
    if search && r.chance(1, 2) {
        return late_random_case(r);
    }
    let two_links = r.chance(1, 2);
    let two_accts = two_links && r.chance(1, 2);
    let ttl = |r: &mut Rng| match r.below(6) {
        0 | 1 => None,
        2 => Some(300),
        3 => Some(r.range(1, 2000)),
        _ => Some(r.range(900, 4000)),
    };
    let life = |t: Option<u64>| t.unwrap_or(3600).clamp(300, 86_400) as u128 * NS;
    let mut evs = vec![];
    // (expiry relative to the case start, guessed consumed)
    let mut links: Vec<(u128, bool)> = vec![];
    let mut t: u128 = 0;
    let t0 = ttl(r);
    evs.push(Ev::I(0, t0));
    links.push((life(t0), false));
    if two_links {
        if r.chance(1, 3) {
            let d = r.range(0, 400) as u128 * NS;
            evs.push(Ev::T(d));
            t += d;
        }
        let t1 = ttl(r);
        evs.push(Ev::I(if two_accts { 1 } else { 0 }, t1));
        links.push((t + life(t1), false));
    }
    let len = r.range(4, 14);
    // per slot: Some((link or usize::MAX for a link-less session, token expiry)) when guessed live
    let mut slots: Vec<Option<(usize, u128)>> = vec![];
    let mut marks: Vec<u128> = links.iter().map(|l| l.0).collect();
    for _ in 0..len {
        // clock step
        match r.below(12) {
            0..=3 => {}
            4 => {
                evs.push(Ev::T(1));
                t += 1;
            }
            5..=7 => {
                let d = r.range(1, 5) as u128 * NS + r.below(2) as u128 * r.below(NS as u64) as u128;
                evs.push(Ev::T(d));
                t += d;
            }
            8 | 9 => {
                // to just before / at / just after a boundary ahead
                let ahead: Vec<u128> = marks.iter().copied().filter(|m| *m > t + 1).collect();
                if !ahead.is_empty() {
                    let m = *r.pick(&ahead);
                    let target = m + r.below(3) as u128 - 1;
                    evs.push(Ev::T(target - t));
                    t = target;
                }
            }
            10 => {
                let d = r.range(30, 400) as u128 * NS;
                evs.push(Ev::T(d));
                t += d;
            }
            _ => {
                let d = r.range(1, 1000) as u128 * NS + r.below(NS as u64) as u128;
                evs.push(Ev::T(d));
                t += d;
            }
        }
        let live: Vec<usize> = slots.iter().enumerate().filter(|(_, s)| s.map(|x| x.1 > t).unwrap_or(false)).map(|(i, _)| i).collect();
        let pick_slot = |r: &mut Rng| -> usize {
            if !live.is_empty() && r.chance(5, 6) {
                if r.chance(1, 2) { *live.last().unwrap() } else { *r.pick(&live) }
            } else if slots.is_empty() {
                0
            } else {
                r.below(slots.len() as u64) as usize
            }
        };
        let nlinks = links.len();
        let alive: Vec<usize> = (0..nlinks).filter(|l| t < links[*l].0 && !links[*l].1).collect();
        let mut choice = r.below(21);
        if alive.is_empty() && choice != 18 && r.chance(1, 2) && nlinks < 4 {
            // every link is (guessed) finished: start a new one more often than not
            choice = 18;
        } else if live.is_empty() && (6..=15).contains(&choice) && r.chance(2, 3) {
            // no live token to act on: exchange instead
            choice = 0;
        }
        match choice {
            0..=5 => {
                let l = if !alive.is_empty() && r.chance(4, 5) { *r.pick(&alive) } else { r.below(nlinks as u64) as usize };
                evs.push(Ev::X(l));
                let ok = t < links[l].0 && !links[l].1;
                marks.push(t + CU_TTL);
                if ok && r.chance(3, 4) {
                    evs.push(Ev::P(slots.len()));
                }
                slots.push(if ok { Some((l, t + CU_TTL)) } else { None });
            }
            6..=10 => {
                let k = pick_slot(r);
                evs.push(Ev::C(k));
                if let Some(Some((l, _))) = slots.get(k).copied() {
                    if l != usize::MAX {
                        links[l].1 = true;
                    }
                    slots[k] = None;
                }
            }
            11 | 12 | 13 => {
                let k = pick_slot(r);
                evs.push(Ev::K(k));
                if k < slots.len() {
                    slots[k] = None;
                }
            }
            14 | 15 => evs.push(Ev::P(pick_slot(r))),
            16 => {
                let l = r.below(nlinks as u64) as usize;
                evs.push(Ev::R(l));
                links[l].1 = true;
            }
            17 => {
                evs.push(Ev::D(r.below(2) as usize));
                marks.push(t + CU_TTL);
                if r.chance(1, 2) {
                    evs.push(Ev::P(slots.len()));
                }
                slots.push(Some((usize::MAX, t + CU_TTL)));
            }
            18 => {
                let tt = ttl(r);
                evs.push(Ev::I(r.below(2) as usize, tt));
                links.push((t + life(tt), false));
                marks.push(t + life(tt));
            }
            _ => {
                // an immediate second exchange of the same link at the same instant (H3)
                let l = r.below(nlinks as u64) as usize;
                evs.push(Ev::X(l));
                if r.chance(1, 2) {
                    evs.push(Ev::P(slots.len()));
                }
                evs.push(Ev::X(l));
                if r.chance(1, 2) {
                    evs.push(Ev::P(slots.len() + 1));
                }
                let ok = t < links[l].0 && !links[l].1;
                marks.push(t + CU_TTL);
                slots.push(if ok { Some((l, t + CU_TTL)) } else { None });
                slots.push(if ok { Some((l, t + CU_TTL)) } else { None });
            }
        }
    }
    evs
}

/// Search mode (`--budget` > 1): histories shaped like the situations oracle O3 needs beyond the
/// never-exchanged link — a short-lived link, an early exchange (abandoned, cancelled, superseded or
/// left with a password set), then further exchanges at instants around the expiry the server
/// announced and around the end of the earlier session (first exchange + 900 s).
fn late_random_case(r: &mut Rng) -> Vec<Ev> {
    let ttl: Option<u64> = match r.below(8) {
        0 | 1 => Some(300),
        2 => Some(301),
        3 => Some(r.range(1, 299)), // clamped up to 300
        4 => Some(899),
        5 => Some(900),
        _ => Some(r.range(302, 1200)),
    };
    let life = ttl.unwrap_or(3600).clamp(300, 86_400) as u128 * NS;
    let mut evs = vec![Ev::I(0, ttl)];
    let mut t: u128 = 0;
    let mut slots = 0usize;
    // an unrelated second link now and then (same or other account)
    if r.chance(1, 5) {
        evs.push(Ev::I(r.below(2) as usize, Some(r.range(300, 1200))));
    }
    // first exchange early in the link's life
    let d = match r.below(4) {
        0 => 0,
        1 => NS * r.range(1, 20) as u128,
        2 => r.below(life as u64 / 2) as u128,
        _ => r.below(life as u64) as u128,
    };
    if d > 0 {
        evs.push(Ev::T(d));
        t += d;
    }
    let first = t;
    let rounds = r.range(1, 3);
    for round in 0..rounds {
        evs.push(Ev::X(0));
        let k = slots;
        slots += 1;
        if r.chance(1, 2) {
            evs.push(Ev::P(k));
        }
        // what happens to this session
        match r.below(5) {
            0 | 1 => {} // abandoned
            2 | 3 => {
                let d = NS * r.range(0, 15) as u128;
                if d > 0 {
                    evs.push(Ev::T(d));
                    t += d;
                }
                evs.push(Ev::K(k));
            }
            _ => {
                // a link-less session in between (runs the session GC)
                evs.push(Ev::D(r.below(2) as usize));
                slots += 1;
            }
        }
        // next instant: around the announced expiry, around the end of an earlier session, or in between
        let marks = [life, first + CU_TTL, t + CU_TTL];
        let target = match r.below(8) {
            0..=3 => {
                let m = if round + 1 == rounds && r.chance(2, 3) { life } else { *r.pick(&marks) };
                match r.below(7) {
                    0 => m.saturating_sub(1),
                    1 => m,
                    2 => m + 1,
                    3 => m.saturating_sub(NS),
                    4 => m + NS,
                    5 => m + NS * r.range(2, 120) as u128,
                    _ => m.saturating_sub(NS * r.range(2, 120) as u128),
                }
            }
            4 | 5 => {
                // past the announced expiry but inside the earlier session's lifetime
                let lo = life.max(t) + 1;
                let hi = (first + CU_TTL).max(lo + 1);
                lo + r.below((hi - lo) as u64) as u128
            }
            6 => t + NS * r.range(1, 400) as u128,
            _ => t + r.below((2 * CU_TTL) as u64) as u128,
        };
        if target > t {
            evs.push(Ev::T(target - t));
            t = target;
        }
    }
    // the decisive exchange and what the resulting session can do
    evs.push(Ev::X(0));
    let k = slots;
    evs.push(Ev::P(k));
    if r.chance(1, 4) {
        evs.push(Ev::T(NS * r.range(1, 30) as u128));
    }
    evs.push(Ev::C(k));
    if r.chance(1, 2) {
        evs.push(Ev::C(r.below(k as u64 + 1) as usize));
    }
    if r.chance(1, 2) {
        evs.push(Ev::X(0));
    }
    evs
}

fn main() {
    if std::env::var_os("RUST_LOG").is_none() {
        std::env::set_var("RUST_LOG", "off");
    }
    let args = Args::parse();
    let rt = tokio::runtime::Builder::new_current_thread().enable_all().build().unwrap();
    let mut rep = Report::new(
        "intent",
        "histories of init / exchange / direct session / set-password / commit / cancel / revoke / clock steps (incl. none: same instant) \
         over 1-2 reset links on 1-2 fresh accounts of a real IdmServer, every operation one write transaction committed iff Ok; \
         non-trivial = at least one successful exchange followed by a further exchange, commit or cancel attempt; distinct = distinct event list",
    );
    let mut drv = Driver::spawn(&args.driver);
    let mut w = rt.block_on(World::new());
    let mut oracle_seen_v: Vec<String> = vec![];
    let (mut model_seen_n, mut oracle_extra_n) = (0u32, 0u32);
    let (oracle_seen, model_seen, oracle_extra) = (&mut oracle_seen_v, &mut model_seen_n, &mut oracle_extra_n);
    let mut run = |w: &mut World, drv: &mut Driver, rep: &mut Report, kind: &str, evs: Vec<Ev>| {
        // every person is a member of the built-in dynamic groups, whose entries grow with each
        // account: start from a fresh server now and then to keep the cost per history flat
        if w.next_acct >= 300 {
            let (case_no, pw_no) = (w.case_no, w.pw_no);
            *w = rt.block_on(World::new());
            w.case_no = case_no;
            w.pw_no = pw_no;
            rep.count("fresh-server");
        }
        let out = rt.block_on(exec_case(w, drv, kind, &evs));
        for c in &out.counts {
            rep.count(c);
        }
        rep.count_n("ops", out.ops);
        rep.count_n("commits-ok", out.commits_ok as u64);
        let nontrivial = out.exch_ok >= 1 && out.after_exch_attempts >= 1;
        rep.case(if nontrivial { Some(show_evs(&evs).join(";")) } else { None });
        if rep.samples.len() < 4 && nontrivial && out.commits_ok > 0 && (rep.evaluations % 7 == 1) {
            rep.sample(json!({"kind": kind, "events": show_evs(&evs), "outcomes": out.outcomes}));
        }
        // Model disagreements: a handful of minimised witnesses, the rest only counted — a changed
        // implementation disagrees with the model on almost every history, and these must neither
        // fill the report nor stop the oracle from being evaluated on the remaining histories.
        // Oracle failures: always recorded; the first one per oracle (O1..O5) is minimised.
        for f in out.failures {
            let is_oracle = f.kind == "impl-vs-oracle";
            let onum = f.expected.split(' ').next().unwrap_or("").to_string();
            let minimise = if is_oracle {
                rep.count(&format!("oracle-failure:{onum}"));
                if oracle_seen.contains(&onum) {
                    if *oracle_extra >= 4 {
                        continue;
                    }
                    *oracle_extra += 1;
                    false
                } else {
                    oracle_seen.push(onum.clone());
                    true
                }
            } else {
                rep.count("model-disagreement");
                *model_seen += 1;
                if *model_seen > 5 {
                    continue;
                }
                true
            };
            if !minimise {
                rep.fail(f);
                continue;
            }
            // minimise: drop events while a failure of the same kind, class (and oracle) remains
            let (fk, fc) = (f.kind.clone(), f.class.clone());
            let same = |g: &Failure| g.kind == fk && g.class == fc && (!is_oracle || g.expected.split(' ').next().unwrap_or("") == onum);
            let small = shrink_list(evs.clone(), |cand| {
                let o = rt.block_on(exec_case(w, drv, kind, cand));
                o.failures.iter().any(|g| same(g))
            });
            let o = rt.block_on(exec_case(w, drv, kind, &small));
            match o.failures.into_iter().find(|g| same(g)) {
                Some(g) => rep.fail(g),
                None => rep.fail(f),
            }
        }
    };
    if let Some(path) = &args.replay {
        let v: serde_json::Value = serde_json::from_str(&std::fs::read_to_string(path).unwrap()).unwrap();
        let evs: Vec<Ev> = v["input"]["events"].as_array().expect("input.events").iter().map(|x| Ev::parse(x.as_str().unwrap())).collect();
        run(&mut w, &mut drv, &mut rep, "replay", evs);
    } else {
        let only = args.extra.get("only").cloned().unwrap_or_default();
        // the scripted corpus always runs to its end (cheap); the exhaustive and random streams stop
        // once an oracle failure has been found and minimised — never because of model disagreements
        let oracle_hit = |rep: &Report| rep.failures.iter().any(|f| f.kind == "impl-vs-oracle");
        for (kind, evs) in scripted() {
            run(&mut w, &mut drv, &mut rep, &kind, evs);
        }
        if only == "scripted" {
            rep.write(&args.out);
            return;
        }
        let search = args.budget > 1;
        let depth = if args.thorough() { 5 } else { 4 };
        for n in 1..=depth {
            if oracle_hit(&rep) {
                break;
            }
            let mut all = vec![];
            enumerate(n, &mut |evs| all.push(evs));
            rep.count_n(&format!("exhaustive:len{n}"), all.len() as u64);
            for evs in all {
                run(&mut w, &mut drv, &mut rep, "exhaustive", evs);
                if oracle_hit(&rep) {
                    break;
                }
            }
        }
        // exhaustive only within the stated sub-scope, hence not flagged as an exhaustive stream
        rep.note(format!("exhaustive sub-scope: one link (ttl 300 s) on one account, every event sequence of length <= {depth} over {{X+P, C0, C1, K0, K1, R, +1 s, +300 s, +900 s}} up to the stated symmetries (no dangling slot, no trailing or doubled clock step)"));
        let nr = args.cases(500, 12_000);
        for i in 0..nr {
            if oracle_hit(&rep) {
                rep.note(format!("stopped after an oracle failure had been found and minimised ({} histories run)", rep.evaluations));
                break;
            }
            let mut r = Rng::for_case(args.seed, i);
            let evs = random_case(&mut r, search);
            run(&mut w, &mut drv, &mut rep, if search { "random-search" } else { "random" }, evs);
        }
    }
    rep.model_requests = drv.requests;
    rep.write(&args.out);
    println!("c37: {} histories, {} distinct non-trivial, {} failures", rep.evaluations, rep.nontrivial_keys.len(), rep.failures.len());
}
