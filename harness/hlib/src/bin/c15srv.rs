//! C15 — every stored entry satisfies the schema. Stream `schema-histories` (server level).
//!
//! Every case boots a fresh migrated in-memory server (`setup_test`; `setup_pair_test` + refresh for
//! the replicated cases) and runs a random history of internal operations, one committed write
//! transaction each: creates and modifies (mostly valid; ill-typed values, invalid values, missing
//! required attributes, attributes no class allows, two values on single-valued attributes, unknown
//! / excluded / unsupplemented classes), batch modifies, deletes and revives, schema *additions*
//! (new attribute types, new classes, `may` added to a class in use), and — pair cases — replication
//! in both directions including merges of individually valid edits that combine into an invalid
//! entry. A third kind of case adds *narrowing* schema edits (must added to a class in use, may
//! removed, multivalue switched off, excludes added, attribute definition deleted); these are outside
//! the property's quantifier and are only observed (histogram `excluded:*`, first witnesses kept as
//! samples), never failures.
//!
//! After EVERY operation, on every server, in a read transaction:
//! * the schema in force is dumped (`get_schema().get_attributes()/get_classes()`),
//! * every stored entry (live, recycled, conflict, tombstone) is read back,
//! * ORACLE (written from the property text over that dump, string names, own per-syntax
//!   predicates and own storage-type table; never the model, never `validate`): every live entry
//!   has only allowed attributes, every required attribute with at least one value, at most one
//!   value on single-valued attributes, value sets of the attribute's syntax whose values are valid
//!   for it, only known classes, satisfied supplements / excludes; recycled entries the same except
//!   required attributes; a refused operation leaves every stored entry byte-identical,
//! * CORRESPONDENCE: for every entry that changed (all entries after a schema change) the real
//!   `validate` (entry cloned, `invalidate`d, validated against the schema in force) and the Lean
//!   model's `validateInvalid` on the dumped schema give the same reply, payload included.
//!
//! `--replay FILE` re-runs the history stored in the replay's `input` (`{"seed","case","kind"}`).
use hlib::*;
use kanidmd_lib::entry::{Entry, EntryCommitted, EntryInit, EntryNew, EntrySealed};
use kanidmd_lib::event::ReviveRecycledEvent;
use kanidmd_lib::filter::{f_eq, f_pres, Filter};
use kanidmd_lib::modify::{Modify, ModifyList};
use kanidmd_lib::prelude::*;
use kanidmd_lib::repl::proto::ConsumerState;
use kanidmd_lib::schema::SchemaTransaction;
use kanidmd_lib::testkit::{setup_pair_test, setup_test, TestConfiguration};
use kanidmd_lib::valueset::{self, ValueSet};
use serde_json::{json, Value as J};
use std::collections::hash_map::DefaultHasher;
use std::collections::{BTreeMap, BTreeSet};
use std::hash::{Hash, Hasher};
use std::sync::Arc;
use std::time::Duration;

thread_local! {
    static LAST_PANIC: std::cell::RefCell<String> = const { std::cell::RefCell::new(String::new()) };
}

type Sealed = Entry<EntrySealed, EntryCommitted>;
type NewE = Entry<EntryInit, EntryNew>;

// ------------------------------------------------------------------------------------------
// the harness's own description of the schema in force
// ------------------------------------------------------------------------------------------

#[derive(Clone, Debug, PartialEq, Eq, Hash)]
struct AttrD {
    syntax: String,
    multivalue: bool,
    phantom: bool,
}

#[derive(Clone, Debug, PartialEq, Eq, Hash, Default)]
struct ClassD {
    lists: [Vec<String>; 8],
}

#[derive(Clone, Debug, PartialEq, Eq, Hash, Default)]
struct SchemaD {
    attrs: BTreeMap<String, AttrD>,
    classes: BTreeMap<String, ClassD>,
}

fn dump_schema(s: &dyn SchemaTransaction) -> SchemaD {
    let mut d = SchemaD::default();
    for (n, a) in s.get_attributes().iter() {
        d.attrs.insert(n.as_str().to_string(), AttrD { syntax: format!("{:?}", a.syntax), multivalue: a.multivalue, phantom: a.phantom });
    }
    for (n, c) in s.get_classes().iter() {
        let av = |l: &Vec<Attribute>| l.iter().map(|a| a.as_str().to_string()).collect::<Vec<_>>();
        let cv = |l: &Vec<AttrString>| l.iter().map(|a| a.to_string()).collect::<Vec<_>>();
        d.classes.insert(
            n.to_string(),
            ClassD { lists: [av(&c.systemmust), av(&c.must), av(&c.systemmay), av(&c.may), cv(&c.systemsupplements), cv(&c.supplements), cv(&c.systemexcludes), cv(&c.excludes)] },
        );
    }
    d
}

fn c_name(c: EntryClass) -> String {
    let s: &str = c.into();
    s.to_string()
}

// ------------------------------------------------------------------------------------------
// ORACLE — from the statement; independent of `validate` and of the model
// ------------------------------------------------------------------------------------------

/// storage variant (first word of `DbValueSetV2`'s Debug form) -> the syntax it stores
fn storage_syntax(variant: &str) -> String {
    match variant {
        "Utf8" => "Utf8String",
        "Iutf8" => "Utf8StringInsensitive",
        "Iname" => "Utf8StringIname",
        "Bool" => "Boolean",
        "SyntaxType" => "SyntaxId",
        "IndexType" => "IndexId",
        "Reference" => "ReferenceUuid",
        "SecretValue" => "SecretUtf8String",
        "Spn" => "SecurityPrincipalName",
        "ApiTokenSet" => "ApiToken",
        o => o,
    }
    .to_string()
}

fn no_control(s: &str) -> bool {
    !s.chars().any(|c| c.is_control())
}

/// is this text a valid value of the syntax (string syntaxes; typed syntaxes are checked by their
/// storage type and, where the text form is simple, by parsing it back)
fn value_ok(syntax: &str, s: &str) -> bool {
    match syntax {
        "Utf8StringInsensitive" => no_control(s) && s.to_lowercase() == s,
        "Utf8StringIname" => {
            no_control(s) && !s.is_empty() && s.to_lowercase() == s && !s.contains(char::is_whitespace) && !s.contains('@') && uuid::Uuid::parse_str(s).is_err()
        }
        "Utf8String" => !s.is_empty() && no_control(s),
        "Uuid" | "ReferenceUuid" => uuid::Uuid::parse_str(s).is_ok(),
        "Boolean" => s == "true" || s == "false",
        "Uint32" => s.parse::<u32>().is_ok(),
        _ => true,
    }
}

struct EntryView {
    uuid: Uuid,
    classes: Option<Vec<String>>,
    /// attribute, storage variant, texts, number of values
    avas: Vec<(String, String, Vec<String>, usize)>,
}

fn view(e: &Sealed) -> EntryView {
    let mut avas = vec![];
    for (a, vs) in e.get_ava_iter() {
        let dbg = format!("{:?}", vs.to_db_valueset_v2());
        let variant: String = dbg.chars().take_while(|c| c.is_alphanumeric()).collect();
        let texts: Vec<String> = vs.to_proto_string_clone_iter().collect();
        avas.push((a.as_str().to_string(), variant, texts, vs.len()));
    }
    let classes = avas.iter().find(|a| a.0 == "class").filter(|a| a.1 == "Iutf8").map(|a| a.2.clone());
    EntryView { uuid: e.get_uuid(), classes, avas }
}

/// the rules of the statement this entry breaks (empty = conforms)
fn oracle_violations(s: &SchemaD, v: &EntryView) -> Vec<String> {
    let mut out = vec![];
    let cls = match &v.classes {
        Some(c) => c,
        None => return vec!["no-class".into()],
    };
    let recycled = cls.contains(&c_name(EntryClass::Recycled));
    // conflict entries are exempt only as what they are: recycled, i.e. not live
    if (cls.contains(&c_name(EntryClass::Conflict)) && recycled) || cls.contains(&c_name(EntryClass::Tombstone)) {
        return out;
    }
    let extensible = cls.contains(&c_name(EntryClass::ExtensibleObject));
    let mut defs = vec![];
    for c in cls {
        match s.classes.get(c) {
            Some(d) => defs.push(d),
            None => out.push(format!("unknown-class:{c}")),
        }
    }
    let supp: Vec<&String> = defs.iter().flat_map(|d| d.lists[4].iter().chain(d.lists[5].iter())).collect();
    if !supp.is_empty() && !supp.iter().any(|x| cls.contains(x)) {
        out.push("supplements".into());
    }
    for x in defs.iter().flat_map(|d| d.lists[6].iter().chain(d.lists[7].iter())) {
        if cls.contains(x) {
            out.push(format!("excludes:{x}"));
        }
    }
    if !recycled {
        for a in defs.iter().flat_map(|d| d.lists[0].iter().chain(d.lists[1].iter())) {
            match v.avas.iter().find(|x| &x.0 == a) {
                Some(x) if x.3 >= 1 => {}
                Some(_) => out.push(format!("required-empty:{a}")),
                None => out.push(format!("required-missing:{a}")),
            }
        }
    }
    let allowed: BTreeSet<&String> = defs.iter().flat_map(|d| d.lists[0].iter().chain(d.lists[1].iter()).chain(d.lists[2].iter()).chain(d.lists[3].iter())).collect();
    for (a, variant, texts, n) in &v.avas {
        let d = match s.attrs.get(a) {
            Some(d) => d,
            None => {
                out.push(format!("undefined-attribute:{a}"));
                continue;
            }
        };
        if extensible {
            if d.phantom {
                out.push(format!("phantom:{a}"));
            }
        } else if !allowed.contains(a) {
            out.push(format!("not-allowed:{a}"));
        }
        if !d.multivalue && *n > 1 {
            out.push(format!("multi-on-single:{a}"));
        }
        if storage_syntax(variant) != d.syntax {
            out.push(format!("syntax-mismatch:{a}:{variant}/{}", d.syntax));
        } else if texts.iter().any(|t| !value_ok(&d.syntax, t)) {
            out.push(format!("invalid-value:{a}"));
        }
    }
    out.sort();
    out.dedup();
    out
}

// ------------------------------------------------------------------------------------------
// model side
// ------------------------------------------------------------------------------------------

struct Atoms {
    attr: BTreeMap<String, u64>,
    cls: BTreeMap<String, u64>,
    syn: BTreeMap<String, u64>,
}

impl Atoms {
    fn new() -> Atoms {
        let mut attr = BTreeMap::new();
        for (i, n) in [Attribute::Class, Attribute::Uuid, Attribute::LastModifiedCid, Attribute::CreatedAtCid, Attribute::SourceUuid].into_iter().enumerate() {
            attr.insert(n.as_str().to_string(), i as u64);
        }
        let mut cls = BTreeMap::new();
        for (i, c) in [EntryClass::Conflict, EntryClass::Recycled, EntryClass::ExtensibleObject, EntryClass::Object, EntryClass::Tombstone].into_iter().enumerate() {
            cls.insert(c_name(c), i as u64);
        }
        let mut syn = BTreeMap::new();
        syn.insert("Utf8StringInsensitive".to_string(), 0);
        syn.insert("Uuid".to_string(), 1);
        syn.insert("Cid".to_string(), 2);
        Atoms { attr, cls, syn }
    }
    fn a(&mut self, n: &str) -> u64 {
        let k = self.attr.len() as u64 + 11;
        *self.attr.entry(n.to_string()).or_insert(k)
    }
    fn c(&mut self, n: &str) -> u64 {
        let k = self.cls.len() as u64 + 11;
        *self.cls.entry(n.to_string()).or_insert(k)
    }
    fn s(&mut self, n: &str) -> u64 {
        let k = self.syn.len() as u64 + 11;
        *self.syn.entry(n.to_string()).or_insert(k)
    }
    fn name(m: &BTreeMap<String, u64>, id: u64) -> String {
        m.iter().find(|(_, v)| **v == id).map(|(k, _)| k.clone()).unwrap_or(format!("?{id}"))
    }
}

fn list(ids: Vec<u64>) -> String {
    if ids.is_empty() { "-".into() } else { ids.iter().map(|i| i.to_string()).collect::<Vec<_>>().join(",") }
}

fn schema_lines(s: &SchemaD, at: &mut Atoms) -> Vec<String> {
    let mut lines = vec!["R".to_string()];
    for (n, a) in &s.attrs {
        lines.push(format!("A {} {} {} {}", at.a(n), at.s(&a.syntax), a.multivalue as u8, a.phantom as u8));
    }
    for (n, c) in &s.classes {
        let mut l = format!("C {}", at.c(n));
        for k in 0..8 {
            let ids: Vec<u64> = c.lists[k].iter().map(|x| if k < 4 { at.a(x) } else { at.c(x) }).collect();
            l.push(' ');
            l.push_str(&list(ids));
        }
        lines.push(l);
    }
    lines
}

fn entry_line(e: &Sealed, schema: &dyn SchemaTransaction, at: &mut Atoms) -> String {
    let mut parts = vec![];
    for (attr, vs) in e.get_ava_iter() {
        let name = attr.as_str();
        let syn = at.s(&format!("{:?}", vs.syntax()));
        let vals: Vec<String> = if name == "class" && vs.as_iutf8_set().is_some() {
            vs.as_iutf8_set().unwrap().iter().map(|s| format!("{}.1", at.c(s))).collect()
        } else {
            // per-syntax validity is an input of the model: the real predicate of the value set
            let ok = schema.get_attributes().get(attr).map(|sa| vs.validate(sa)).unwrap_or(true);
            (0..vs.len()).map(|i| format!("{}.{}", 1000 + i, ok as u8)).collect()
        };
        parts.push(format!("{}:{}:{}", at.a(name), syn, if vals.is_empty() { "-".into() } else { vals.join(",") }));
    }
    format!("I {}", if parts.is_empty() { "-".into() } else { parts.join(";") })
}

fn show_real(r: &Result<(), SchemaError>) -> String {
    let j = |l: &Vec<String>| if l.is_empty() { "-".to_string() } else { l.join(",") };
    match r {
        Ok(()) => "ok".into(),
        Err(SchemaError::NoClassFound) => "err NoClassFound -".into(),
        Err(SchemaError::InvalidClass(l)) => format!("err InvalidClass {}", j(l)),
        Err(SchemaError::SupplementsNotSatisfied(l)) => format!("err SupplementsNotSatisfied {}", j(l)),
        Err(SchemaError::ExcludesNotSatisfied(l)) => format!("err ExcludesNotSatisfied {}", j(l)),
        Err(SchemaError::Corrupted) => "err Corrupted -".into(),
        Err(SchemaError::MissingMustAttribute(l)) => format!("err MissingMustAttribute {}", j(&l.iter().map(|a| a.as_str().to_string()).collect())),
        Err(SchemaError::PhantomAttribute(a)) => format!("err PhantomAttribute {a}"),
        Err(SchemaError::InvalidAttribute(a)) => format!("err InvalidAttribute {a}"),
        Err(SchemaError::AttributeNotValidForClass(a)) => format!("err AttributeNotValidForClass {a}"),
        Err(SchemaError::InvalidAttributeSyntax(a)) => format!("err InvalidAttributeSyntax {a}"),
        Err(e) => format!("err other {e:?}"),
    }
}

fn show_model(reply: &str, at: &Atoms) -> String {
    let p: Vec<&str> = reply.split(' ').collect();
    if p.len() != 3 || p[0] != "err" {
        return reply.to_string();
    }
    let is_cls = matches!(p[1], "InvalidClass" | "SupplementsNotSatisfied" | "ExcludesNotSatisfied");
    let payload = if p[2] == "-" {
        "-".to_string()
    } else {
        p[2].split(',')
            .map(|x| {
                let id: u64 = x.parse().unwrap_or(u64::MAX);
                Atoms::name(if is_cls { &at.cls } else { &at.attr }, id)
            })
            .collect::<Vec<_>>()
            .join(",")
    };
    format!("err {} {}", p[1], payload)
}

// ------------------------------------------------------------------------------------------
// operations
// ------------------------------------------------------------------------------------------

#[derive(Clone, Debug)]
enum V {
    Iname(String),
    Utf8(String),
    Iutf8(String),
    /// constructed without normalisation
    RawIutf8(String),
    RawIname(String),
    Bool(bool),
    U32(u32),
    Uuid(u64),
    Refer(u64),
    Email(String),
    Syntax(String),
}

#[derive(Clone, Debug)]
enum M {
    Present(String, V),
    Removed(String, V),
    Purged(String),
    Set(String, Vec<V>),
}

#[derive(Clone, Debug)]
enum Op {
    Create(u64, Vec<(String, Vec<V>)>),
    Modify(u64, Vec<M>),
    Batch(Vec<(u64, Vec<M>)>),
    Delete(u64),
    Revive(u64),
    Raise(u32),
    Repl(usize, usize),
}

struct Ctx {
    base: u64,
}

impl Ctx {
    fn u(&self, i: u64) -> Uuid {
        nat_uuid(0x1500_0000_0000 + self.base * 4096 + i)
    }
    fn value(&self, v: &V) -> Option<Value> {
        Some(match v {
            V::Iname(s) => Value::new_iname(s),
            V::Utf8(s) => Value::new_utf8s(s),
            V::Iutf8(s) => Value::new_iutf8(s),
            V::RawIutf8(s) => Value::Iutf8(s.clone()),
            V::RawIname(s) => Value::Iname(s.clone()),
            V::Bool(b) => Value::new_bool(*b),
            V::U32(n) => Value::new_uint32(*n),
            V::Uuid(i) => Value::Uuid(self.u(*i)),
            V::Refer(i) => Value::Refer(self.u(*i)),
            V::Email(s) => Value::new_email_address_s(s)?,
            V::Syntax(s) => Value::new_syntaxs(s)?,
        })
    }
    fn pvalue(&self, v: &V) -> Option<PartialValue> {
        Some(match v {
            V::Iname(s) | V::RawIname(s) => PartialValue::new_iname(s),
            V::Utf8(s) => PartialValue::new_utf8s(s),
            V::Iutf8(s) | V::RawIutf8(s) => PartialValue::new_iutf8(s),
            V::Bool(b) => PartialValue::new_bool(*b),
            V::U32(n) => PartialValue::new_uint32(*n),
            V::Uuid(i) => PartialValue::Uuid(self.u(*i)),
            V::Refer(i) => PartialValue::Refer(self.u(*i)),
            V::Email(s) => PartialValue::new_email_address_s(s),
            V::Syntax(s) => PartialValue::new_syntaxs(s)?,
        })
    }
    fn modlist(&self, ms: &[M]) -> Option<ModifyList<kanidmd_lib::modify::ModifyInvalid>> {
        let mut out = vec![];
        for m in ms {
            match m {
                M::Present(a, v) => out.push(Modify::Present(Attribute::from(a.as_str()), self.value(v)?)),
                M::Removed(a, v) => out.push(Modify::Removed(Attribute::from(a.as_str()), self.pvalue(v)?)),
                M::Purged(a) => out.push(Modify::Purged(Attribute::from(a.as_str()))),
                M::Set(a, vs) => {
                    let vals: Option<Vec<Value>> = vs.iter().map(|v| self.value(v)).collect();
                    let set: ValueSet = valueset::from_value_iter(vals?.into_iter()).ok()?;
                    out.push(Modify::Set(Attribute::from(a.as_str()), set));
                }
            }
        }
        Some(ModifyList::new_list(out))
    }
}

fn exec(qs: &QueryServer, rt: &tokio::runtime::Runtime, ct: Duration, cx: &Ctx, op: &Op) -> Result<(), String> {
    let mut w = rt.block_on(qs.write(ct)).map_err(|e| format!("write:{e:?}"))?;
    let r: Result<(), OperationError> = match op {
        Op::Create(i, avas) => {
            let mut e: NewE = Entry::new();
            e.add_ava(Attribute::Uuid, Value::Uuid(cx.u(*i)));
            let mut bad = false;
            for (a, vs) in avas {
                let vals: Option<Vec<Value>> = vs.iter().map(|v| cx.value(v)).collect();
                match vals.and_then(|v| valueset::from_value_iter(v.into_iter()).ok()) {
                    Some(set) => e.set_ava_set(&Attribute::from(a.as_str()), set),
                    None => bad = true,
                }
            }
            if bad { Err(OperationError::InvalidRequestState) } else { w.internal_create(vec![e]) }
        }
        Op::Modify(i, ms) => match cx.modlist(ms) {
            Some(ml) => w.internal_modify_uuid(cx.u(*i), &ml),
            None => Err(OperationError::InvalidRequestState),
        },
        Op::Batch(items) => {
            let mods: Option<Vec<_>> = items.iter().map(|(i, ms)| cx.modlist(ms).map(|ml| (cx.u(*i), ml))).collect();
            match mods {
                Some(m) => w.internal_batch_modify(m.into_iter()),
                None => Err(OperationError::InvalidRequestState),
            }
        }
        Op::Delete(i) => w.internal_delete_uuid(cx.u(*i)),
        Op::Revive(i) => {
            let admin = w.internal_search_uuid(UUID_ADMIN).map_err(|e| format!("admin:{e:?}"))?;
            let ident = Identity::from_impersonate_entry_readwrite(admin);
            let f = Filter::new(f_eq(Attribute::Uuid, PartialValue::Uuid(cx.u(*i))));
            match ReviveRecycledEvent::from_parts(ident, &f, &w) {
                Ok(re) => w.revive_recycled(&re),
                Err(e) => Err(e),
            }
        }
        Op::Raise(l) => w.domain_raise(*l),
        Op::Repl(..) => unreachable!(),
    };
    match r {
        Ok(()) => w.commit().map_err(|e| format!("commit:{e:?}")),
        Err(e) => Err(format!("{e:?}")),
    }
}

fn exec_repl(qs: &[QueryServer], rt: &tokio::runtime::Runtime, ct: Duration, from: usize, to: usize) -> Result<(), String> {
    let mut from_r = rt.block_on(qs[from].read()).map_err(|e| format!("read:{e:?}"))?;
    let mut to_w = rt.block_on(qs[to].write(ct)).map_err(|e| format!("write:{e:?}"))?;
    let state = to_w.consumer_get_state().map_err(|e| format!("consumer_get_state:{e:?}"))?;
    let changes = from_r.supplier_provide_changes(state).map_err(|e| format!("supplier_provide_changes:{e:?}"))?;
    match to_w.consumer_apply_changes(changes).map_err(|e| format!("consumer_apply_changes:{e:?}"))? {
        ConsumerState::Ok => to_w.commit().map_err(|e| format!("commit:{e:?}")),
        ConsumerState::RefreshRequired => Err("refresh-required".into()),
    }
}

// ------------------------------------------------------------------------------------------
// history generation
// ------------------------------------------------------------------------------------------

#[derive(Clone, Copy, PartialEq, Eq, Debug)]
enum Kind {
    /// target domain level, shipped schema only
    Single,
    /// domain level 14, where the schema is still loaded from the stored attributetype / classtype
    /// entries: schema additions through ordinary operations
    Legacy,
    /// like Legacy plus narrowing schema edits (outside the quantifier, observed only)
    Narrow,
    /// two servers at the target level with replication
    Pair,
    /// boots one level below the target and raises the domain level in mid-history: the schema
    /// additions of a migration
    Upgrade,
}

impl Kind {
    fn custom_schema(self) -> bool {
        matches!(self, Kind::Legacy | Kind::Narrow)
    }
    fn boot_level(self) -> u32 {
        match self {
            Kind::Legacy | Kind::Narrow => DOMAIN_LEVEL_14,
            Kind::Upgrade => DOMAIN_PREVIOUS_TGT_LEVEL,
            _ => DOMAIN_TGT_LEVEL,
        }
    }
}

#[derive(Clone, Debug)]
struct CustomAttr {
    name: String,
    syntax: &'static str,
    multivalue: bool,
}

#[derive(Clone, Debug, Default)]
struct CustomClass {
    name: String,
    must: Vec<usize>,
    may: Vec<usize>,
}

#[derive(Clone, Debug)]
struct Ent {
    id: u64,
    kind: u8, // 0 person 1 group 2 custom
    custom: Vec<usize>,
}

#[derive(Clone, Debug)]
enum Pending {
    None,
    Ent(Ent),
    Attr(CustomAttr, u64),
    Class(CustomClass, u64),
    AddMay(usize, usize),
    Deleted(u64),
    Revived(u64),
}

struct Gen {
    tag: String,
    kind: Kind,
    heavy: bool,
    rng: Rng,
    attrs: Vec<CustomAttr>,
    attr_slot: Vec<u64>,
    classes: Vec<CustomClass>,
    class_slot: Vec<u64>,
    ents: Vec<Ent>,
    deleted: Vec<Ent>,
    next: u64,
    produced: u64,
    target: u64,
    pending: Pending,
    queued: Option<(Op, Meta)>,
}

/// what the runner needs to know about an operation beyond the operation itself
#[derive(Clone, Debug, Default)]
struct Meta {
    schema_op: bool,
    narrowing: Option<String>,
    /// pair cases: the server this operation must run on, and whether replication may follow it
    server: Option<usize>,
    hold_repl: bool,
}

const CUSTOM_SYNTAX: [&str; 6] = ["UTF8STRING", "UTF8STRING_INSENSITIVE", "UTF8STRING_INAME", "BOOLEAN", "UINT32", "UUID"];

impl Gen {
    fn val(&self, rng: &mut Rng, syntax: &str, k: u64) -> V {
        match syntax {
            "UTF8STRING" => V::Utf8(format!("Text {k} {}", rng.below(1000))),
            "UTF8STRING_INSENSITIVE" => V::Iutf8(format!("word{k}x{}", rng.below(1000))),
            "UTF8STRING_INAME" => V::Iname(format!("nm{}x{k}x{}", self.tag, rng.below(100000))),
            "BOOLEAN" => V::Bool(rng.chance(1, 2)),
            "UINT32" => V::U32(rng.below(100000) as u32),
            _ => V::Uuid(3000 + rng.below(1000)),
        }
    }
    fn wrong_val(&self, rng: &mut Rng, syntax: &str) -> V {
        match syntax {
            "UTF8STRING" => V::U32(7),
            "UTF8STRING_INSENSITIVE" => if rng.chance(1, 2) { V::RawIutf8("UPPER Case".into()) } else { V::Bool(true) },
            "UTF8STRING_INAME" => if rng.chance(1, 2) { V::RawIname("Not A Name".into()) } else { V::Utf8("plain text".into()) },
            "BOOLEAN" => V::Utf8("true".into()),
            "UINT32" => V::Utf8("12".into()),
            _ => V::Utf8("not-a-uuid".into()),
        }
    }
    fn add_attr(&mut self, rng: &mut Rng) -> Op {
        let k = self.next;
        let a = CustomAttr { name: format!("c15{}a{k}", self.tag), syntax: CUSTOM_SYNTAX[rng.below(6) as usize], multivalue: rng.chance(1, 2) };
        let id = self.next;
        self.next += 1;
        let op = Op::Create(
            id,
            vec![
                ("class".into(), vec![V::Iutf8("object".into()), V::Iutf8("attributetype".into())]),
                ("attributename".into(), vec![V::Iutf8(a.name.clone())]),
                ("description".into(), vec![V::Utf8("c15 attribute".into())]),
                ("multivalue".into(), vec![V::Bool(a.multivalue)]),
                ("unique".into(), vec![V::Bool(false)]),
                ("syntax".into(), vec![V::Syntax(a.syntax.into())]),
            ],
        );
        self.pending = Pending::Attr(a, id);
        op
    }
    fn add_class(&mut self, rng: &mut Rng) -> Op {
        let k = self.next;
        let mut c = CustomClass { name: format!("c15{}c{k}", self.tag), ..Default::default() };
        for i in 0..self.attrs.len() {
            match rng.below(4) {
                0 if c.must.len() < 2 => c.must.push(i),
                1 | 2 => c.may.push(i),
                _ => {}
            }
        }
        let id = self.next;
        self.next += 1;
        let mut avas = vec![
            ("class".to_string(), vec![V::Iutf8("object".into()), V::Iutf8("classtype".into())]),
            ("classname".to_string(), vec![V::Iutf8(c.name.clone())]),
            ("description".to_string(), vec![V::Utf8("c15 class".into())]),
        ];
        if !c.must.is_empty() {
            avas.push(("must".into(), c.must.iter().map(|i| V::Iutf8(self.attrs[*i].name.clone())).collect()));
        }
        if !c.may.is_empty() {
            avas.push(("may".into(), c.may.iter().map(|i| V::Iutf8(self.attrs[*i].name.clone())).collect()));
        }
        self.pending = Pending::Class(c, id);
        Op::Create(id, avas)
    }
    /// uuid slot of the schema entry of class k / attribute k is not tracked: schema entries are
    /// addressed through a modify by filter on their name, see `schema_mod`
    fn create_entry(&mut self, rng: &mut Rng, heavy: bool) -> Op {
        let id = self.next;
        self.next += 1;
        let kind = if self.kind.custom_schema() { rng.below(3) as u8 } else { [0u8, 1, 3, 3, 0, 1][rng.below(6) as usize] };
        let nm = format!("c15{}e{id}", self.tag);
        let mut avas: Vec<(String, Vec<V>)> = vec![];
        let mut classes: Vec<V> = vec![V::Iutf8("object".into())];
        let mut custom = vec![];
        match kind {
            0 => {
                classes.push(V::Iutf8("account".into()));
                classes.push(V::Iutf8("person".into()));
                avas.push(("name".into(), vec![V::Iname(nm.clone())]));
                avas.push(("displayname".into(), vec![V::Utf8(format!("Person {id}"))]));
                if rng.chance(1, 3) { avas.push(("legalname".into(), vec![V::Utf8(format!("Legal {id}"))])); }
                if rng.chance(1, 3) { avas.push(("mail".into(), vec![V::Email(format!("{nm}@example.com"))])); }
            }
            1 => {
                classes.push(V::Iutf8("group".into()));
                avas.push(("name".into(), vec![V::Iname(nm.clone())]));
                if rng.chance(1, 2) { avas.push(("description".into(), vec![V::Utf8(format!("Group {id}"))])); }
                if !self.ents.is_empty() && rng.chance(1, 2) {
                    let t = self.ents[rng.below(self.ents.len() as u64) as usize].id;
                    avas.push(("member".into(), vec![V::Refer(t)]));
                }
            }
            3 => {
                // a posix person: gidnumber is generated by the plugin
                classes.push(V::Iutf8("account".into()));
                classes.push(V::Iutf8("person".into()));
                classes.push(V::Iutf8("posixaccount".into()));
                avas.push(("name".into(), vec![V::Iname(nm.clone())]));
                avas.push(("displayname".into(), vec![V::Utf8(format!("Posix {id}"))]));
                if rng.chance(2, 3) { avas.push(("loginshell".into(), vec![V::Iutf8("/bin/sh".into())])); }
            }
            _ => {
                if rng.chance(1, 4) { classes.push(V::Iutf8("extensibleobject".into())); }
            }
        }
        if !self.classes.is_empty() && (kind == 2 || rng.chance(1, 3)) {
            let k = rng.below(self.classes.len() as u64) as usize;
            custom.push(k);
            classes.push(V::Iutf8(self.classes[k].name.clone()));
            let c = self.classes[k].clone();
            let mut picks: Vec<usize> = c.must.clone();
            for i in &c.may {
                if rng.chance(1, 2) {
                    picks.push(*i);
                }
            }
            for i in picks.iter() {
                let a = self.attrs[*i].clone();
                let n = if a.multivalue && a.syntax != "BOOLEAN" { rng.range(1, 2) } else { 1 };
                let vals = (0..n).map(|j| self.val(rng, a.syntax, j)).collect();
                if !avas.iter().any(|x| x.0 == a.name) {
                    avas.push((a.name.clone(), vals));
                }
            }
        }
        // ---- corruption of the request
        if rng.chance(if heavy { 45 } else { 35 }, 100) {
            match rng.below(9) {
                0 => {
                    // drop a required attribute
                    if let Some(p) = avas.iter().position(|x| x.0 == "displayname" || x.0 == "name" || self.attrs.iter().any(|a| a.name == x.0)) {
                        avas.remove(p);
                    }
                }
                1 => avas.push(("member".into(), vec![V::Refer(self.ents.first().map(|e| e.id).unwrap_or(0))])),
                2 => {
                    // two values on a single-valued attribute
                    if let Some(x) = avas.iter_mut().find(|x| x.0 == "displayname") {
                        x.1.push(V::Utf8("second".into()));
                    } else if let Some(a) = self.attrs.iter().find(|a| !a.multivalue && a.syntax != "BOOLEAN") {
                        let vals = vec![self.val(rng, a.syntax, 8), self.val(rng, a.syntax, 9)];
                        avas.retain(|x| x.0 != a.name);
                        avas.push((a.name.clone(), vals));
                    }
                }
                3 => {
                    // value of another type (not on `name`: plugins read it through typed accessors
                    // that carry debug assertions)
                    if let Some(a) = self.attrs.first() {
                        let w = self.wrong_val(rng, a.syntax);
                        avas.retain(|x| x.0 != a.name);
                        avas.push((a.name.clone(), vec![w]));
                    }
                }
                4 => {
                    // value invalid for its syntax
                    if let Some(x) = avas.iter_mut().find(|x| x.0 == "name") {
                        x.1 = vec![V::RawIname("Bad Name".into())];
                    } else {
                        avas.push(("description".into(), vec![V::Utf8("two\nlines".into())]));
                    }
                }
                5 => classes.push(V::Iutf8("c15nosuchclass".into())),
                6 => classes.push(V::Iutf8("service_account".into())),
                7 => {
                    classes.push(V::Iutf8("posixaccount".into()));
                    if rng.chance(1, 2) { avas.push(("gidnumber".into(), vec![V::U32(70000 + id as u32)])); }
                }
                _ => {
                    // an attribute of a custom class the entry does not carry
                    if let Some(a) = self.attrs.last() {
                        if !avas.iter().any(|x| x.0 == a.name) {
                            avas.push((a.name.clone(), vec![self.val(rng, a.syntax, 5)]));
                        }
                    }
                }
            }
        }
        avas.push(("class".into(), classes));
        self.pending = Pending::Ent(Ent { id, kind, custom });
        Op::Create(id, avas)
    }
    fn mods(&mut self, rng: &mut Rng, e: &Ent, heavy: bool) -> Vec<M> {
        let mut ms = vec![];
        let bad = rng.chance(if heavy { 50 } else { 40 }, 100);
        if !bad {
            match rng.below(6) {
                0 => ms.push(M::Set("description".into(), vec![V::Utf8(format!("desc {}", rng.below(1000)))])),
                1 if e.kind == 0 || e.kind == 3 => ms.push(M::Set("displayname".into(), vec![V::Utf8(format!("Renamed {}", rng.below(1000)))])),
                2 if e.kind == 1 && !self.ents.is_empty() => {
                    let t = self.ents[rng.below(self.ents.len() as u64) as usize].id;
                    ms.push(M::Present("member".into(), V::Refer(t)));
                }
                3 if !self.classes.is_empty() => {
                    // take on a custom class together with what it requires
                    let k = rng.below(self.classes.len() as u64) as usize;
                    let c = self.classes[k].clone();
                    ms.push(M::Present("class".into(), V::Iutf8(c.name.clone())));
                    for i in &c.must {
                        let a = self.attrs[*i].clone();
                        ms.push(M::Set(a.name.clone(), vec![self.val(rng, a.syntax, 1)]));
                    }
                }
                4 if !e.custom.is_empty() => {
                    let c = self.classes[e.custom[0]].clone();
                    if let Some(i) = c.may.first() {
                        let a = self.attrs[*i].clone();
                        ms.push(M::Set(a.name.clone(), vec![self.val(rng, a.syntax, 2)]));
                    }
                }
                _ => ms.push(M::Purged("description".into())),
            }
            if ms.is_empty() {
                ms.push(M::Set("description".into(), vec![V::Utf8("fallback".into())]));
            }
            return ms;
        }
        match rng.below(9) {
            0 => ms.push(M::Purged(if e.kind == 2 { "uuid".into() } else { "name".into() })),
            1 => ms.push(M::Purged("displayname".into())),
            2 => {
                ms.push(M::Present("displayname".into(), V::Utf8("one".into())));
                ms.push(M::Present("displayname".into(), V::Utf8("two".into())));
            }
            3 => ms.push(M::Present("class".into(), V::Iutf8("c15nosuchclass".into()))),
            4 => {
                // take on a class without what it requires
                if let Some(c) = self.classes.iter().find(|c| !c.must.is_empty()) {
                    ms.push(M::Present("class".into(), V::Iutf8(c.name.clone())));
                } else {
                    ms.push(M::Present("class".into(), V::Iutf8("posixaccount".into())));
                }
            }
            5 => {
                // drop a class but keep its attributes
                if let Some(k) = e.custom.first() {
                    ms.push(M::Removed("class".into(), V::Iutf8(self.classes[*k].name.clone())));
                } else {
                    ms.push(M::Removed("class".into(), V::Iutf8(if e.kind == 0 { "person".into() } else { "group".into() })));
                }
            }
            6 => ms.push(M::Present("member".into(), V::Refer(e.id))),
            7 => {
                if let Some(a) = self.attrs.first().cloned() {
                    ms.push(M::Set(a.name.clone(), vec![self.wrong_val(rng, a.syntax)]));
                } else {
                    ms.push(M::Set("description".into(), vec![V::Utf8("two\nlines".into())]));
                }
            }
            _ => {
                if let Some(a) = self.attrs.iter().find(|a| !a.multivalue && a.syntax != "BOOLEAN").cloned() {
                    ms.push(M::Set(a.name.clone(), vec![self.val(rng, a.syntax, 3), self.val(rng, a.syntax, 4)]));
                } else {
                    ms.push(M::Purged("class".into()));
                }
            }
        }
        ms
    }
}

impl Gen {
    fn new(seed: u64, case: u64, kind: Kind, heavy: bool) -> Gen {
        let mut rng = Rng::for_case(seed ^ (kind as u64 + 1) * 0x5151, case);
        let target = rng.range(18, 30);
        Gen {
            tag: format!("k{}x{case}", kind as u8),
            kind,
            heavy,
            rng,
            attrs: vec![],
            attr_slot: vec![],
            classes: vec![],
            class_slot: vec![],
            ents: vec![],
            deleted: vec![],
            next: 1,
            produced: 0,
            target,
            pending: Pending::None,
            queued: None,
        }
    }

    /// the outcome of the operation handed out last
    fn feedback(&mut self, ok: bool) {
        let p = std::mem::replace(&mut self.pending, Pending::None);
        if !ok {
            return;
        }
        match p {
            Pending::None => {}
            Pending::Ent(e) => self.ents.push(e),
            Pending::Attr(a, slot) => {
                self.attrs.push(a);
                self.attr_slot.push(slot);
            }
            Pending::Class(c, slot) => {
                self.classes.push(c);
                self.class_slot.push(slot);
            }
            Pending::AddMay(k, i) => self.classes[k].may.push(i),
            Pending::Deleted(id) => {
                if let Some(p) = self.ents.iter().position(|e| e.id == id) {
                    let e = self.ents.remove(p);
                    self.deleted.push(e);
                }
            }
            Pending::Revived(id) => {
                if let Some(p) = self.deleted.iter().position(|e| e.id == id) {
                    let e = self.deleted.remove(p);
                    self.ents.push(e);
                }
            }
        }
    }

    /// the next operation of the history: a function of (seed, case, kind) and of the outcomes so far
    fn next_op(&mut self) -> Option<(Op, Meta)> {
        if let Some(q) = self.queued.take() {
            return Some(q);
        }
        if self.produced >= self.target {
            return None;
        }
        self.produced += 1;
        let mut rng = self.rng.clone();
        let r = self.step(&mut rng);
        self.rng = rng;
        Some(r)
    }

    fn step(&mut self, rng: &mut Rng) -> (Op, Meta) {
        let heavy = self.heavy;
        let schema = Meta { schema_op: true, ..Default::default() };
        // a little schema first, so that custom entries exist early
        if self.kind.custom_schema() && self.produced <= 2 {
            return (self.add_attr(rng), schema);
        }
        if self.kind.custom_schema() && self.produced == 3 {
            return (self.add_class(rng), schema);
        }
        if self.kind == Kind::Upgrade && self.produced == self.target / 2 {
            return (Op::Raise(DOMAIN_TGT_LEVEL), schema);
        }
        if self.kind == Kind::Narrow && self.produced > 10 && rng.chance(1, 4) && !self.classes.is_empty() && !self.attrs.is_empty() {
            let k = rng.below(self.classes.len() as u64) as usize;
            let i = rng.below(self.attrs.len() as u64) as usize;
            let c = self.classes[k].clone();
            let a = self.attrs[i].clone();
            let cs = self.class_slot[k];
            let (what, op) = match rng.below(5) {
                0 => ("add-must", Op::Modify(cs, vec![M::Present("must".into(), V::Iutf8(a.name.clone()))])),
                1 => match c.may.first() {
                    Some(j) => ("remove-may", Op::Modify(cs, vec![M::Removed("may".into(), V::Iutf8(self.attrs[*j].name.clone()))])),
                    None => ("add-must", Op::Modify(cs, vec![M::Present("must".into(), V::Iutf8(a.name.clone()))])),
                },
                2 => ("multivalue-off", Op::Modify(self.attr_slot[i], vec![M::Set("multivalue".into(), vec![V::Bool(false)])])),
                3 => ("add-excludes", Op::Modify(cs, vec![M::Present("excludes".into(), V::Iutf8(if rng.chance(1, 2) { "group".into() } else { "person".into() }))])),
                _ => ("delete-attribute", Op::Delete(self.attr_slot[i])),
            };
            return (op, Meta { schema_op: true, narrowing: Some(what.to_string()), ..Default::default() });
        }
        if self.kind == Kind::Pair && rng.chance(1, 6) {
            // two individually valid edits on different servers that merge into an invalid entry:
            // one side drops class posixaccount together with its attributes, the other sets one of them
            if let Some(e) = self.ents.iter().find(|e| e.kind == 3).cloned() {
                let drop = vec![
                    M::Removed("class".into(), V::Iutf8("posixaccount".into())),
                    M::Purged("gidnumber".into()),
                    M::Purged("loginshell".into()),
                ];
                let set = vec![M::Set("loginshell".into(), vec![V::Iutf8(format!("/bin/sh{}", rng.below(100)))])];
                self.queued = Some((Op::Modify(e.id, set), Meta { server: Some(1), ..Default::default() }));
                if let Some(x) = self.ents.iter_mut().find(|x| x.id == e.id) {
                    x.kind = 0;
                }
                return (Op::Modify(e.id, drop), Meta { server: Some(0), hold_repl: true, ..Default::default() });
            }
        }
        let r = rng.below(100);
        if self.kind.custom_schema() && r < 6 && self.attrs.len() < 6 {
            return (self.add_attr(rng), schema);
        }
        if self.kind.custom_schema() && r < 11 && self.classes.len() < 4 {
            return (self.add_class(rng), schema);
        }
        if self.kind.custom_schema() && r < 16 && !self.classes.is_empty() && !self.attrs.is_empty() {
            // extension: one more `may` on a class (possibly in use)
            let k = rng.below(self.classes.len() as u64) as usize;
            let i = rng.below(self.attrs.len() as u64) as usize;
            if !self.classes[k].may.contains(&i) && !self.classes[k].must.contains(&i) {
                self.pending = Pending::AddMay(k, i);
                return (Op::Modify(self.class_slot[k], vec![M::Present("may".into(), V::Iutf8(self.attrs[i].name.clone()))]), schema);
            }
        }
        if r < 48 || self.ents.is_empty() {
            return (self.create_entry(rng, heavy), Meta::default());
        }
        if r < 76 {
            let e = self.ents[rng.below(self.ents.len() as u64) as usize].clone();
            let ms = self.mods(rng, &e, heavy);
            return (Op::Modify(e.id, ms), Meta::default());
        }
        if r < 82 && self.ents.len() >= 2 {
            let e1 = self.ents[rng.below(self.ents.len() as u64) as usize].clone();
            let e2 = self.ents[rng.below(self.ents.len() as u64) as usize].clone();
            if e1.id != e2.id {
                let m1 = self.mods(rng, &e1, heavy);
                let m2 = self.mods(rng, &e2, heavy);
                return (Op::Batch(vec![(e1.id, m1), (e2.id, m2)]), Meta::default());
            }
        }
        if r < 91 || self.deleted.is_empty() {
            let e = self.ents[rng.below(self.ents.len() as u64) as usize].clone();
            self.pending = Pending::Deleted(e.id);
            return (Op::Delete(e.id), Meta::default());
        }
        let id = self.deleted[rng.below(self.deleted.len() as u64) as usize].id;
        // a revived entry is tracked again as a plain entry
        self.pending = Pending::Revived(id);
        (Op::Revive(id), Meta::default())
    }
}

// ------------------------------------------------------------------------------------------
// running a case
// ------------------------------------------------------------------------------------------

#[derive(Default)]
struct CaseResult {
    counts: BTreeMap<String, u64>,
    failures: Vec<Failure>,
    samples: Vec<J>,
    keys: Vec<String>,
    ops: u64,
    model_requests: u64,
}

impl CaseResult {
    fn count(&mut self, k: &str) {
        *self.counts.entry(k.to_string()).or_insert(0) += 1;
    }
    fn count_n(&mut self, k: &str, n: u64) {
        *self.counts.entry(k.to_string()).or_insert(0) += n;
    }
}

struct ServerState {
    hashes: BTreeMap<Uuid, u64>,
    schema: SchemaD,
    narrowed: bool,
}

fn hash_entry(e: &Sealed) -> u64 {
    let mut h = DefaultHasher::new();
    format!("{:?}", e.get_ava()).hash(&mut h);
    h.finish()
}

/// read everything back from server `idx`; oracle + correspondence
#[allow(clippy::too_many_arguments)]
fn observe(
    qs: &QueryServer,
    rt: &tokio::runtime::Runtime,
    drv: &mut Driver,
    at: &mut Atoms,
    st: &mut ServerState,
    accepted: bool,
    is_repl: bool,
    input: &J,
    res: &mut CaseResult,
) -> Result<(), String> {
    let mut r = rt.block_on(qs.read()).map_err(|e| format!("read:{e:?}"))?;
    let schema_txn = r.get_schema();
    let sd = dump_schema(schema_txn);
    let all: Vec<Arc<Sealed>> = r.internal_search(Filter::new(f_pres(Attribute::Class))).map_err(|e| format!("search:{e:?}"))?;
    let schema_changed = sd != st.schema;
    let mut lines: Vec<String> = vec![];
    if schema_changed {
        lines.extend(schema_lines(&sd, at));
        res.count("schema-reloads-observed");
    }
    let n_schema_lines = lines.len();
    let mut hashes = BTreeMap::new();
    let mut changed: Vec<&Arc<Sealed>> = vec![];
    for e in &all {
        let h = hash_entry(e);
        if schema_changed || st.hashes.get(&e.get_uuid()) != Some(&h) {
            changed.push(e);
        }
        hashes.insert(e.get_uuid(), h);
    }
    // ---- a refused operation leaves nothing behind
    if !accepted && !is_repl {
        if hashes != st.hashes {
            let diff: Vec<String> = hashes.iter().filter(|(u, h)| st.hashes.get(*u) != Some(*h)).map(|(u, _)| u.to_string()).chain(st.hashes.keys().filter(|u| !hashes.contains_key(*u)).map(|u| format!("gone:{u}"))).take(5).collect();
            res.failures.push(Failure { kind: "impl-vs-oracle".into(), class: "refused-operation-left-changes".into(), input: input.clone(), expected: "stored entries unchanged".into(), observed: format!("changed: {diff:?}") });
        }
        if schema_changed {
            res.failures.push(Failure { kind: "impl-vs-oracle".into(), class: "refused-operation-changed-schema".into(), input: input.clone(), expected: "schema unchanged".into(), observed: "schema differs".into() });
        }
        res.count("refused-leaves-nothing-checked");
    }
    // ---- the two schema facts the theorems assume (`SchemaCidFacts`)
    if schema_changed {
        let lm = Attribute::LastModifiedCid.as_str().to_string();
        let ca = Attribute::CreatedAtCid.as_str().to_string();
        let obj_ok = sd.classes.get(&c_name(EntryClass::Object)).map(|c| {
            let req: Vec<&String> = c.lists[0].iter().chain(c.lists[1].iter()).collect();
            req.contains(&&lm) && req.contains(&&ca)
        });
        let typed = [&lm, &ca].iter().all(|a| sd.attrs.get(*a).map(|d| d.syntax == "Cid").unwrap_or(true));
        if obj_ok != Some(true) || !typed {
            res.failures.push(Failure { kind: "assumption".into(), class: "schema-cid-facts".into(), input: input.clone(), expected: "class object requires last_modified_cid and created_at_cid, both of syntax Cid".into(), observed: format!("object requires both: {obj_ok:?}, cid-typed: {typed}") });
        }
    }
    // ---- oracle over every changed entry (every entry after a schema change)
    let trim = Cid::new_lamport(nat_uuid(0x15FE), Duration::from_secs(1), &Duration::from_secs(0));
    let cid = Cid::new_lamport(nat_uuid(0x15FF), Duration::from_secs(4_000_000_000), &Duration::from_secs(0));
    let mut reals = vec![];
    for e in &changed {
        let v = view(e);
        let viol = oracle_violations(&sd, &v);
        let cls = v.classes.clone().unwrap_or_default();
        let state = if cls.contains(&c_name(EntryClass::Tombstone)) {
            "tombstone"
        } else if cls.contains(&c_name(EntryClass::Conflict)) && cls.contains(&c_name(EntryClass::Recycled)) {
            "conflict"
        } else if cls.contains(&c_name(EntryClass::Recycled)) {
            "recycled"
        } else {
            "live"
        };
        res.count(&format!("checked:{state}"));
        if state == "live" && !cls.contains(&c_name(EntryClass::Object)) {
            res.count("live-without-class-object");
        }
        for a in v.avas.iter().filter(|a| a.3 == 0) {
            res.count(&format!("empty-valueset:{state}:{}", a.0));
        }
        if !viol.is_empty() {
            let rule = viol[0].split(':').next().unwrap_or("?").to_string();
            if st.narrowed {
                // outside the quantifier: the server does not revalidate after a narrowing schema edit
                res.count(&format!("excluded:narrowing:{state}:{rule}"));
                if res.samples.len() < 3 {
                    res.samples.push(json!({"excluded": "narrowing schema edit", "entry": v.uuid.to_string(), "state": state, "violations": viol, "input": input}));
                }
            } else if state == "live" {
                res.failures.push(Failure {
                    kind: "impl-vs-oracle".into(),
                    class: format!("stored-live-entry:{rule}"),
                    input: input.clone(),
                    expected: "every stored live entry satisfies the schema in force".into(),
                    observed: format!("{} {:?}: {:?}", v.uuid, cls, viol),
                });
            } else {
                res.failures.push(Failure {
                    kind: "impl-vs-oracle".into(),
                    class: format!("stored-recycled-entry:{rule}"),
                    input: input.clone(),
                    expected: "recycled entries satisfy the schema except for required attributes".into(),
                    observed: format!("{} {:?}: {:?}", v.uuid, cls, viol),
                });
            }
        }
        // ---- correspondence: the real validate on the stored entry vs the model
        let real = e.as_ref().clone().invalidate(cid.clone(), &trim).validate(schema_txn).map(|_| ());
        let real = show_real(&real);
        // agreement of the real check with the oracle, where the oracle is total (not conflict / tombstone)
        if state == "live" || state == "recycled" {
            if (real == "ok") != viol.is_empty() {
                // required-empty is the one rule the oracle has and `validate` has not
                let only_empty = !viol.is_empty() && viol.iter().all(|x| x.starts_with("required-empty"));
                if !only_empty {
                    res.failures.push(Failure {
                        kind: "impl-vs-oracle".into(),
                        class: if real == "ok" { "validate-accepts-nonconforming".into() } else { "validate-refuses-conforming".into() },
                        input: input.clone(),
                        expected: format!("oracle: {viol:?}"),
                        observed: format!("{} validate: {real}", v.uuid),
                    });
                }
            }
        }
        lines.push(entry_line(e, schema_txn, at));
        reals.push((v.uuid, real));
    }
    let replies = drv.ask_batch(&lines);
    res.model_requests += lines.len() as u64;
    let mut disagreements = 0;
    for ((u, real), reply) in reals.iter().zip(replies[n_schema_lines..].iter()) {
        let model = show_model(reply, at);
        res.count(&format!("validate:{}", real.split(' ').nth(1).unwrap_or("ok")));
        if &model != real {
            disagreements += 1;
            if disagreements <= 2 {
                res.failures.push(Failure { kind: "impl-vs-model".into(), class: "stored-entry-validate-differs".into(), input: input.clone(), expected: model, observed: format!("{u}: {real}") });
            }
        }
    }
    st.hashes = hashes;
    st.schema = sd;
    Ok(())
}

fn run_case(seed: u64, case: u64, kind: Kind, heavy: bool, driver: &str) -> CaseResult {
    let mut res = CaseResult::default();
    let rt = tokio::runtime::Builder::new_current_thread().enable_all().build().unwrap();
    let mut ct = duration_from_epoch_now();
    let qs: Vec<QueryServer> = if kind == Kind::Pair {
        let (a, b) = rt.block_on(setup_pair_test(TestConfiguration::default()));
        ct += Duration::from_secs(1);
        {
            let mut a_r = rt.block_on(a.read()).expect("read a");
            let mut b_w = rt.block_on(b.write(ct)).expect("write b");
            let ctx = a_r.supplier_provide_refresh().expect("refresh ctx");
            b_w.consumer_apply_refresh(ctx).expect("apply refresh");
            b_w.commit().expect("commit refresh");
        }
        vec![a, b]
    } else {
        vec![rt.block_on(setup_test(TestConfiguration { domain_level: kind.boot_level(), ..Default::default() }))]
    };
    let mut drv = Driver::spawn(driver);
    let mut at = Atoms::new();
    let mut states: Vec<ServerState> = qs.iter().map(|_| ServerState { hashes: BTreeMap::new(), schema: SchemaD::default(), narrowed: false }).collect();
    let cx = Ctx { base: case % 1000 + 1000 * (kind as u64) };
    let mut hist = Gen::new(seed, case, kind, heavy);
    let mut hist = Gen::new(seed, case, kind, heavy);
    let input0 = json!({"seed": seed, "case": case, "kind": format!("{kind:?}")});
    // initial observation: the migrated database itself
    for (i, q) in qs.iter().enumerate() {
        if let Err(e) = observe(q, &rt, &mut drv, &mut at, &mut states[i], true, true, &input0, &mut res) {
            res.failures.push(Failure { kind: "harness".into(), class: "observe-failed".into(), input: input0.clone(), expected: "".into(), observed: e });
            return res;
        }
    }
    let mut rng = Rng::for_case(seed ^ 0xC15C15, case);
    let mut accepted_ops = 0u64;
    let mut refused_schema = 0u64;
    let mut k = 0usize;
    let mut trace: Vec<String> = vec![];
    while let Some((op, meta)) = hist.next_op() {
        ct += Duration::from_secs(1);
        let last = hist.produced >= hist.target && hist.queued.is_none();
        // schema is edited on the first server and replicated at once, entries on either
        let target = match meta.server {
            Some(s) if kind == Kind::Pair => s,
            _ => if kind == Kind::Pair && !meta.schema_op { rng.below(2) as usize } else { 0 },
        };
        let input = json!({"seed": seed, "case": case, "kind": format!("{kind:?}"), "op_index": k, "server": target, "op": format!("{op:?}"), "history": trace});
        LAST_PANIC.with(|p| p.borrow_mut().clear());
        let r = std::panic::catch_unwind(std::panic::AssertUnwindSafe(|| exec(&qs[target], &rt, ct, &cx, &op)));
        let r = match r {
            Ok(r) => r,
            Err(_) => {
                let msg = LAST_PANIC.with(|p| p.borrow().clone());
                if msg.contains("assertion failed") || msg.contains("assertion `left") {
                    // a debug assertion (typed accessor on an ill-typed value): debug builds only; the
                    // transaction is dropped by the unwind, a release build answers with an error
                    Err("DebugAssertion".to_string())
                } else {
                    res.failures.push(Failure { kind: "impl-vs-oracle".into(), class: "operation-panicked".into(), input: input.clone(), expected: "Ok or Err".into(), observed: format!("panic: {msg}") });
                    return res;
                }
            }
        };
        res.ops += 1;
        hist.feedback(r.is_ok());
        let opname = format!("{op:?}");
        let opname = opname.split('(').next().unwrap_or("?").to_string();
        trace.push(format!("{}@{target}:{}", opname, if r.is_ok() { "ok" } else { "refused" }));
        match &r {
            Ok(()) => {
                accepted_ops += 1;
                res.count(&format!("op:{opname}:ok"));
                if let Some(what) = &meta.narrowing {
                    for st in states.iter_mut() {
                        st.narrowed = true;
                    }
                    res.count(&format!("narrowing-accepted:{what}"));
                }
            }
            Err(e) => {
                let short: String = e.chars().take_while(|c| c.is_alphanumeric()).collect();
                res.count(&format!("op:{opname}:err:{short}"));
                if short == "SchemaViolation" {
                    refused_schema += 1;
                    let variant: String = e.trim_start_matches("SchemaViolation(").chars().take_while(|c| c.is_alphanumeric()).collect();
                    res.count(&format!("refused:{variant}"));
                }
            }
        }
        if let Err(e) = observe(&qs[target], &rt, &mut drv, &mut at, &mut states[target], r.is_ok(), false, &input, &mut res) {
            res.failures.push(Failure { kind: "harness".into(), class: "observe-failed".into(), input: input.clone(), expected: "".into(), observed: e });
            return res;
        }
        // replication points
        if kind == Kind::Pair && !meta.hold_repl && (meta.schema_op || rng.chance(1, 4) || last) {
            let rounds = if last { 2 } else { 1 };
            for _ in 0..rounds {
                for (from, to) in [(0usize, 1usize), (1, 0)] {
                    ct += Duration::from_secs(1);
                    let input = json!({"seed": seed, "case": case, "kind": "Pair", "op_index": k, "op": format!("Repl({from},{to})"), "history": trace});
                    let rr = std::panic::catch_unwind(std::panic::AssertUnwindSafe(|| exec_repl(&qs, &rt, ct, from, to)));
                    match rr {
                        Ok(Ok(())) => res.count("op:Repl:ok"),
                        Ok(Err(e)) => res.count(&format!("op:Repl:err:{}", e.chars().take(40).collect::<String>())),
                        Err(_) => {
                            let msg = LAST_PANIC.with(|p| p.borrow().clone());
                            res.failures.push(Failure { kind: "impl-vs-oracle".into(), class: "replication-panicked".into(), input: input.clone(), expected: "Ok or Err".into(), observed: format!("panic: {msg}") });
                            return res;
                        }
                    }
                    trace.push(format!("Repl({from},{to})"));
                    if let Err(e) = observe(&qs[to], &rt, &mut drv, &mut at, &mut states[to], true, true, &input, &mut res) {
                        res.failures.push(Failure { kind: "harness".into(), class: "observe-failed".into(), input, expected: "".into(), observed: e });
                        return res;
                    }
                }
            }
        }
        k += 1;
        if res.failures.iter().any(|f| f.kind == "impl-vs-oracle") {
            break;
        }
    }
    if accepted_ops >= 6 && refused_schema >= 1 {
        res.keys.push(format!("{kind:?}|{case}|{accepted_ops}|{refused_schema}"));
    }
    res
}

fn main() {
    let args = Args::parse();
    std::panic::set_hook(Box::new(|info| {
        let msg = info.to_string();
        LAST_PANIC.with(|p| *p.borrow_mut() = msg);
    }));
    let mut rep = Report::new(
        "schema-histories",
        "a history with at least 6 accepted operations and at least one operation refused for a schema violation, every stored entry re-checked after every operation",
    );
    let heavy = args.budget > 1;
    let mut jobs: Vec<(u64, Kind)> = vec![];
    let seed;
    if let Some(f) = &args.replay {
        let v: J = serde_json::from_str(&std::fs::read_to_string(f).expect("replay file")).expect("replay json");
        let inp = v.get("input").unwrap_or(&v);
        seed = inp["seed"].as_u64().unwrap_or(args.seed);
        let kind = match inp["kind"].as_str().unwrap_or("Single") {
            "Narrow" => Kind::Narrow,
            "Pair" => Kind::Pair,
            "Legacy" => Kind::Legacy,
            "Upgrade" => Kind::Upgrade,
            _ => Kind::Single,
        };
        jobs.push((inp["case"].as_u64().expect("case"), kind));
    } else {
        seed = args.seed;
        for (kind, q, th) in [(Kind::Single, 10, 110), (Kind::Legacy, 12, 130), (Kind::Narrow, 6, 50), (Kind::Pair, 10, 80), (Kind::Upgrade, 4, 30)] {
            for i in 0..args.cases(q, th) {
                jobs.push((i, kind));
            }
        }
    }
    let threads = if args.replay.is_some() { 1 } else { 8 };
    let jobs = Arc::new(jobs);
    let mut handles = vec![];
    for t in 0..threads {
        let jobs = jobs.clone();
        let driver = args.driver.clone();
        handles.push(std::thread::spawn(move || {
            let mut out = vec![];
            let mut i = t;
            while i < jobs.len() {
                let (case, kind) = jobs[i];
                out.push((i, run_case(seed, case, kind, heavy, &driver)));
                i += threads;
            }
            out
        }));
    }
    let mut results: Vec<(usize, CaseResult)> = handles.into_iter().flat_map(|h| h.join().expect("worker")).collect();
    results.sort_by_key(|r| r.0);
    let mut model_fail = 0;
    for (_, r) in results {
        rep.evaluations += 1;
        for k in r.keys {
            rep.nontrivial_keys.insert(k);
        }
        for (k, n) in r.counts {
            rep.count_n(&k, n);
        }
        rep.count_n("ops", r.ops);
        rep.model_requests += r.model_requests;
        for s in r.samples {
            rep.sample(s);
        }
        for f in r.failures {
            if f.kind == "impl-vs-model" {
                model_fail += 1;
                if model_fail > 5 {
                    rep.count("impl-vs-model-more");
                    continue;
                }
            }
            rep.fail(f);
        }
    }
    // non-vacuity floors
    if args.replay.is_none() {
        let h = rep.histogram.clone();
        let need = |k: &str| h.iter().filter(|(n, _)| n.starts_with(k)).map(|(_, v)| *v).sum::<u64>();
        for (k, min) in [("refused:", 10u64), ("op:Create:ok", 40), ("op:Modify:ok", 25), ("op:Delete:ok", 5), ("op:Revive:ok", 1), ("op:Repl:ok", 10), ("schema-reloads-observed", 20), ("op:Raise:ok", 2), ("checked:conflict", 1), ("checked:recycled", 5), ("narrowing-accepted:", 1), ("excluded:narrowing:", 1)] {
            if need(k) < min {
                rep.fail(Failure { kind: "generator".into(), class: "coverage-floor".into(), input: json!({"key": k}), expected: format!(">= {min}"), observed: format!("{}", need(k)) });
            }
        }
    }
    rep.write(&args.out);
    println!("c15srv schema-histories: {} histories, {} ops, {} distinct non-trivial, {} failures", rep.evaluations, rep.histogram.get("ops").unwrap_or(&0), rep.nontrivial_keys.len(), rep.failures.len());
}
