//! C15 — every stored entry satisfies the schema. Stream `schema-histories` (server level).
//!
//! Every case boots a fresh migrated in-memory server (`setup_test`; `setup_pair_test` + refresh for
//! the replicated cases) and runs a random history of internal operations, one committed write
//! transaction each: creates and modifies (mostly valid; ill-typed values, invalid values, missing
//! required attributes, attributes no class allows, two values on single-valued attributes, unknown
//! / excluded / unsupplemented classes), batch modifies, deletes and revives, schema *additions*
//! (new attribute types, new classes, `may` added to a class in use), and — pair cases — replication
//! in both directions including merges of individually valid edits that combine into an invalid
//! entry. A third kind of case adds *narrowing* schema edits (must added to a class in use, may
//! removed, multivalue switched off, excludes added, attribute definition deleted); these are outside
//! the property's quantifier and are only observed (histogram `excluded:*`, first witnesses kept as
//! samples), never failures.
//!
//! After EVERY operation, on every server, in a read transaction:
//! * the schema in force is dumped (`get_schema().get_attributes()/get_classes()`),
//! * every stored entry (live, recycled, conflict, tombstone) is read back,
//! * ORACLE (written from the property text over that dump, string names, own per-syntax
//!   predicates and own storage-type table; never the model, never `validate`): every live entry
//!   has only allowed attributes, every required attribute with at least one value, at most one
//!   value on single-valued attributes, value sets of the attribute's syntax whose values are valid
//!   for it, only known classes, satisfied supplements / excludes; recycled entries the same except
//!   required attributes; a refused operation leaves every stored entry byte-identical,
//! * CORRESPONDENCE: for every entry that changed (all entries after a schema change) the real
//!   `validate` (entry cloned, `invalidate`d, validated against the schema in force) and the Lean
//!   model's `validateInvalid` on the dumped schema give the same reply, payload included.
//!
//! `--replay FILE` re-runs the history stored in the replay's `input` (`{"seed","case","kind"}`).
use hlib::*;
use kanidmd_lib::entry::{Entry, EntryCommitted, EntryInit, EntryNew, EntrySealed};
use kanidmd_lib::event::ReviveRecycledEvent;
use kanidmd_lib::filter::{f_eq, f_pres, Filter};
use kanidmd_lib::modify::{Modify, ModifyList};
use kanidmd_lib::prelude::*;
use kanidmd_lib::repl::proto::ConsumerState;
use kanidmd_lib::schema::SchemaTransaction;
use kanidmd_lib::testkit::{setup_pair_test, setup_test, TestConfiguration};
use kanidmd_lib::valueset::{self, ValueSet};
use serde_json::{json, Value as J};
use std::collections::hash_map::DefaultHasher;
use std::collections::{BTreeMap, BTreeSet};
use std::hash::{Hash, Hasher};
use std::sync::Arc;
use std::time::Duration;

type Sealed = Entry<EntrySealed, EntryCommitted>;
type NewE = Entry<EntryInit, EntryNew>;

// ------------------------------------------------------------------------------------------
// the harness's own description of the schema in force
// ------------------------------------------------------------------------------------------

#[derive(Clone, Debug, PartialEq, Eq, Hash)]
struct AttrD {
    syntax: String,
    multivalue: bool,
    phantom: bool,
}

#[derive(Clone, Debug, PartialEq, Eq, Hash, Default)]
struct ClassD {
    lists: [Vec<String>; 8],
}

#[derive(Clone, Debug, PartialEq, Eq, Hash, Default)]
struct SchemaD {
    attrs: BTreeMap<String, AttrD>,
    classes: BTreeMap<String, ClassD>,
}

fn dump_schema(s: &dyn SchemaTransaction) -> SchemaD {
    let mut d = SchemaD::default();
    for (n, a) in s.get_attributes().iter() {
        d.attrs.insert(n.as_str().to_string(), AttrD { syntax: format!("{:?}", a.syntax), multivalue: a.multivalue, phantom: a.phantom });
    }
    for (n, c) in s.get_classes().iter() {
        let av = |l: &Vec<Attribute>| l.iter().map(|a| a.as_str().to_string()).collect::<Vec<_>>();
        let cv = |l: &Vec<AttrString>| l.iter().map(|a| a.to_string()).collect::<Vec<_>>();
        d.classes.insert(
            n.to_string(),
            ClassD { lists: [av(&c.systemmust), av(&c.must), av(&c.systemmay), av(&c.may), cv(&c.systemsupplements), cv(&c.supplements), cv(&c.systemexcludes), cv(&c.excludes)] },
        );
    }
    d
}

fn c_name(c: EntryClass) -> String {
    let s: &str = c.into();
    s.to_string()
}

// ------------------------------------------------------------------------------------------
// ORACLE — from the statement; independent of `validate` and of the model
// ------------------------------------------------------------------------------------------

/// storage variant (first word of `DbValueSetV2`'s Debug form) -> the syntax it stores
fn storage_syntax(variant: &str) -> String {
    match variant {
        "Utf8" => "Utf8String",
        "Iutf8" => "Utf8StringInsensitive",
        "Iname" => "Utf8StringIname",
        "Bool" => "Boolean",
        "SyntaxType" => "SyntaxId",
        "IndexType" => "IndexId",
        "Reference" => "ReferenceUuid",
        "SecretValue" => "SecretUtf8String",
        "Spn" => "SecurityPrincipalName",
        "ApiTokenSet" => "ApiToken",
        o => o,
    }
    .to_string()
}

fn no_control(s: &str) -> bool {
    !s.chars().any(|c| c.is_control())
}

/// is this text a valid value of the syntax (string syntaxes; typed syntaxes are checked by their
/// storage type and, where the text form is simple, by parsing it back)
fn value_ok(syntax: &str, s: &str) -> bool {
    match syntax {
        "Utf8StringInsensitive" => no_control(s) && s.to_lowercase() == s,
        "Utf8StringIname" => {
            no_control(s) && !s.is_empty() && s.to_lowercase() == s && !s.contains(char::is_whitespace) && !s.contains('@') && uuid::Uuid::parse_str(s).is_err()
        }
        "Utf8String" => !s.is_empty() && no_control(s),
        "Uuid" | "ReferenceUuid" => uuid::Uuid::parse_str(s).is_ok(),
        "Boolean" => s == "true" || s == "false",
        "Uint32" => s.parse::<u32>().is_ok(),
        _ => true,
    }
}

struct EntryView {
    uuid: Uuid,
    classes: Option<Vec<String>>,
    /// attribute, storage variant, texts, number of values
    avas: Vec<(String, String, Vec<String>, usize)>,
}

fn view(e: &Sealed) -> EntryView {
    let mut avas = vec![];
    for (a, vs) in e.get_ava_iter() {
        let dbg = format!("{:?}", vs.to_db_valueset_v2());
        let variant: String = dbg.chars().take_while(|c| c.is_alphanumeric()).collect();
        let texts: Vec<String> = vs.to_proto_string_clone_iter().collect();
        avas.push((a.as_str().to_string(), variant, texts, vs.len()));
    }
    let classes = avas.iter().find(|a| a.0 == "class").filter(|a| a.1 == "Iutf8").map(|a| a.2.clone());
    EntryView { uuid: e.get_uuid(), classes, avas }
}

/// the rules of the statement this entry breaks (empty = conforms)
fn oracle_violations(s: &SchemaD, v: &EntryView) -> Vec<String> {
    let mut out = vec![];
    let cls = match &v.classes {
        Some(c) => c,
        None => return vec!["no-class".into()],
    };
    if cls.contains(&c_name(EntryClass::Conflict)) || cls.contains(&c_name(EntryClass::Tombstone)) {
        return out;
    }
    let recycled = cls.contains(&c_name(EntryClass::Recycled));
    let extensible = cls.contains(&c_name(EntryClass::ExtensibleObject));
    let mut defs = vec![];
    for c in cls {
        match s.classes.get(c) {
            Some(d) => defs.push(d),
            None => out.push(format!("unknown-class:{c}")),
        }
    }
    let supp: Vec<&String> = defs.iter().flat_map(|d| d.lists[4].iter().chain(d.lists[5].iter())).collect();
    if !supp.is_empty() && !supp.iter().any(|x| cls.contains(x)) {
        out.push("supplements".into());
    }
    for x in defs.iter().flat_map(|d| d.lists[6].iter().chain(d.lists[7].iter())) {
        if cls.contains(x) {
            out.push(format!("excludes:{x}"));
        }
    }
    if !recycled {
        for a in defs.iter().flat_map(|d| d.lists[0].iter().chain(d.lists[1].iter())) {
            match v.avas.iter().find(|x| &x.0 == a) {
                Some(x) if x.3 >= 1 => {}
                Some(_) => out.push(format!("required-empty:{a}")),
                None => out.push(format!("required-missing:{a}")),
            }
        }
    }
    let allowed: BTreeSet<&String> = defs.iter().flat_map(|d| d.lists[0].iter().chain(d.lists[1].iter()).chain(d.lists[2].iter()).chain(d.lists[3].iter())).collect();
    for (a, variant, texts, n) in &v.avas {
        let d = match s.attrs.get(a) {
            Some(d) => d,
            None => {
                out.push(format!("undefined-attribute:{a}"));
                continue;
            }
        };
        if extensible {
            if d.phantom {
                out.push(format!("phantom:{a}"));
            }
        } else if !allowed.contains(a) {
            out.push(format!("not-allowed:{a}"));
        }
        if !d.multivalue && *n > 1 {
            out.push(format!("multi-on-single:{a}"));
        }
        if storage_syntax(variant) != d.syntax {
            out.push(format!("syntax-mismatch:{a}:{variant}/{}", d.syntax));
        } else if texts.iter().any(|t| !value_ok(&d.syntax, t)) {
            out.push(format!("invalid-value:{a}"));
        }
    }
    out.sort();
    out.dedup();
    out
}

// ------------------------------------------------------------------------------------------
// model side
// ------------------------------------------------------------------------------------------

struct Atoms {
    attr: BTreeMap<String, u64>,
    cls: BTreeMap<String, u64>,
    syn: BTreeMap<String, u64>,
}

impl Atoms {
    fn new() -> Atoms {
        let mut attr = BTreeMap::new();
        for (i, n) in [Attribute::Class, Attribute::Uuid, Attribute::LastModifiedCid, Attribute::CreatedAtCid, Attribute::SourceUuid].into_iter().enumerate() {
            attr.insert(n.as_str().to_string(), i as u64);
        }
        let mut cls = BTreeMap::new();
        for (i, c) in [EntryClass::Conflict, EntryClass::Recycled, EntryClass::ExtensibleObject, EntryClass::Object, EntryClass::Tombstone].into_iter().enumerate() {
            cls.insert(c_name(c), i as u64);
        }
        let mut syn = BTreeMap::new();
        syn.insert("Utf8StringInsensitive".to_string(), 0);
        syn.insert("Uuid".to_string(), 1);
        syn.insert("Cid".to_string(), 2);
        Atoms { attr, cls, syn }
    }
    fn a(&mut self, n: &str) -> u64 {
        let k = self.attr.len() as u64 + 11;
        *self.attr.entry(n.to_string()).or_insert(k)
    }
    fn c(&mut self, n: &str) -> u64 {
        let k = self.cls.len() as u64 + 11;
        *self.cls.entry(n.to_string()).or_insert(k)
    }
    fn s(&mut self, n: &str) -> u64 {
        let k = self.syn.len() as u64 + 11;
        *self.syn.entry(n.to_string()).or_insert(k)
    }
    fn name(m: &BTreeMap<String, u64>, id: u64) -> String {
        m.iter().find(|(_, v)| **v == id).map(|(k, _)| k.clone()).unwrap_or(format!("?{id}"))
    }
}

fn list(ids: Vec<u64>) -> String {
    if ids.is_empty() { "-".into() } else { ids.iter().map(|i| i.to_string()).collect::<Vec<_>>().join(",") }
}

fn schema_lines(s: &SchemaD, at: &mut Atoms) -> Vec<String> {
    let mut lines = vec!["R".to_string()];
    for (n, a) in &s.attrs {
        lines.push(format!("A {} {} {} {}", at.a(n), at.s(&a.syntax), a.multivalue as u8, a.phantom as u8));
    }
    for (n, c) in &s.classes {
        let mut l = format!("C {}", at.c(n));
        for k in 0..8 {
            let ids: Vec<u64> = c.lists[k].iter().map(|x| if k < 4 { at.a(x) } else { at.c(x) }).collect();
            l.push(' ');
            l.push_str(&list(ids));
        }
        lines.push(l);
    }
    lines
}

fn entry_line(e: &Sealed, schema: &dyn SchemaTransaction, at: &mut Atoms) -> String {
    let mut parts = vec![];
    for (attr, vs) in e.get_ava_iter() {
        let name = attr.as_str();
        let syn = at.s(&format!("{:?}", vs.syntax()));
        let vals: Vec<String> = if name == "class" && vs.as_iutf8_set().is_some() {
            vs.as_iutf8_set().unwrap().iter().map(|s| format!("{}.1", at.c(s))).collect()
        } else {
            // per-syntax validity is an input of the model: the real predicate of the value set
            let ok = schema.get_attributes().get(attr).map(|sa| vs.validate(sa)).unwrap_or(true);
            (0..vs.len()).map(|i| format!("{}.{}", 1000 + i, ok as u8)).collect()
        };
        parts.push(format!("{}:{}:{}", at.a(name), syn, if vals.is_empty() { "-".into() } else { vals.join(",") }));
    }
    format!("I {}", if parts.is_empty() { "-".into() } else { parts.join(";") })
}

fn show_real(r: &Result<(), SchemaError>) -> String {
    let j = |l: &Vec<String>| if l.is_empty() { "-".to_string() } else { l.join(",") };
    match r {
        Ok(()) => "ok".into(),
        Err(SchemaError::NoClassFound) => "err NoClassFound -".into(),
        Err(SchemaError::InvalidClass(l)) => format!("err InvalidClass {}", j(l)),
        Err(SchemaError::SupplementsNotSatisfied(l)) => format!("err SupplementsNotSatisfied {}", j(l)),
        Err(SchemaError::ExcludesNotSatisfied(l)) => format!("err ExcludesNotSatisfied {}", j(l)),
        Err(SchemaError::Corrupted) => "err Corrupted -".into(),
        Err(SchemaError::MissingMustAttribute(l)) => format!("err MissingMustAttribute {}", j(&l.iter().map(|a| a.as_str().to_string()).collect())),
        Err(SchemaError::PhantomAttribute(a)) => format!("err PhantomAttribute {a}"),
        Err(SchemaError::InvalidAttribute(a)) => format!("err InvalidAttribute {a}"),
        Err(SchemaError::AttributeNotValidForClass(a)) => format!("err AttributeNotValidForClass {a}"),
        Err(SchemaError::InvalidAttributeSyntax(a)) => format!("err InvalidAttributeSyntax {a}"),
        Err(e) => format!("err other {e:?}"),
    }
}

fn show_model(reply: &str, at: &Atoms) -> String {
    let p: Vec<&str> = reply.split(' ').collect();
    if p.len() != 3 || p[0] != "err" {
        return reply.to_string();
    }
    let is_cls = matches!(p[1], "InvalidClass" | "SupplementsNotSatisfied" | "ExcludesNotSatisfied");
    let payload = if p[2] == "-" {
        "-".to_string()
    } else {
        p[2].split(',')
            .map(|x| {
                let id: u64 = x.parse().unwrap_or(u64::MAX);
                Atoms::name(if is_cls { &at.cls } else { &at.attr }, id)
            })
            .collect::<Vec<_>>()
            .join(",")
    };
    format!("err {} {}", p[1], payload)
}

// ------------------------------------------------------------------------------------------
// operations
// ------------------------------------------------------------------------------------------

#[derive(Clone, Debug)]
enum V {
    Iname(String),
    Utf8(String),
    Iutf8(String),
    /// constructed without normalisation
    RawIutf8(String),
    RawIname(String),
    Bool(bool),
    U32(u32),
    Uuid(u64),
    Refer(u64),
    Email(String),
    Syntax(String),
}

#[derive(Clone, Debug)]
enum M {
    Present(String, V),
    Removed(String, V),
    Purged(String),
    Set(String, Vec<V>),
}

#[derive(Clone, Debug)]
enum Op {
    Create(u64, Vec<(String, Vec<V>)>),
    Modify(u64, Vec<M>),
    Batch(Vec<(u64, Vec<M>)>),
    Delete(u64),
    Revive(u64),
    Repl(usize, usize),
}

struct Ctx {
    base: u64,
}

impl Ctx {
    fn u(&self, i: u64) -> Uuid {
        nat_uuid(0x1500_0000_0000 + self.base * 4096 + i)
    }
    fn value(&self, v: &V) -> Option<Value> {
        Some(match v {
            V::Iname(s) => Value::new_iname(s),
            V::Utf8(s) => Value::new_utf8s(s),
            V::Iutf8(s) => Value::new_iutf8(s),
            V::RawIutf8(s) => Value::Iutf8(s.clone()),
            V::RawIname(s) => Value::Iname(s.clone()),
            V::Bool(b) => Value::new_bool(*b),
            V::U32(n) => Value::new_uint32(*n),
            V::Uuid(i) => Value::Uuid(self.u(*i)),
            V::Refer(i) => Value::Refer(self.u(*i)),
            V::Email(s) => Value::new_email_address_s(s)?,
            V::Syntax(s) => Value::new_syntaxs(s)?,
        })
    }
    fn pvalue(&self, v: &V) -> Option<PartialValue> {
        Some(match v {
            V::Iname(s) | V::RawIname(s) => PartialValue::new_iname(s),
            V::Utf8(s) => PartialValue::new_utf8s(s),
            V::Iutf8(s) | V::RawIutf8(s) => PartialValue::new_iutf8(s),
            V::Bool(b) => PartialValue::new_bool(*b),
            V::U32(n) => PartialValue::new_uint32(*n),
            V::Uuid(i) => PartialValue::Uuid(self.u(*i)),
            V::Refer(i) => PartialValue::Refer(self.u(*i)),
            V::Email(s) => PartialValue::new_email_address_s(s),
            V::Syntax(s) => PartialValue::new_syntaxs(s)?,
        })
    }
    fn modlist(&self, ms: &[M]) -> Option<ModifyList<kanidmd_lib::modify::ModifyInvalid>> {
        let mut out = vec![];
        for m in ms {
            match m {
                M::Present(a, v) => out.push(Modify::Present(Attribute::from(a.as_str()), self.value(v)?)),
                M::Removed(a, v) => out.push(Modify::Removed(Attribute::from(a.as_str()), self.pvalue(v)?)),
                M::Purged(a) => out.push(Modify::Purged(Attribute::from(a.as_str()))),
                M::Set(a, vs) => {
                    let vals: Option<Vec<Value>> = vs.iter().map(|v| self.value(v)).collect();
                    let set: ValueSet = valueset::from_value_iter(vals?.into_iter()).ok()?;
                    out.push(Modify::Set(Attribute::from(a.as_str()), set));
                }
            }
        }
        Some(ModifyList::new_list(out))
    }
}

fn exec(qs: &QueryServer, rt: &tokio::runtime::Runtime, ct: Duration, cx: &Ctx, op: &Op) -> Result<(), String> {
    let mut w = rt.block_on(qs.write(ct)).map_err(|e| format!("write:{e:?}"))?;
    let r: Result<(), OperationError> = match op {
        Op::Create(i, avas) => {
            let mut e: NewE = Entry::new();
            e.add_ava(Attribute::Uuid, Value::Uuid(cx.u(*i)));
            let mut bad = false;
            for (a, vs) in avas {
                let vals: Option<Vec<Value>> = vs.iter().map(|v| cx.value(v)).collect();
                match vals.and_then(|v| valueset::from_value_iter(v.into_iter()).ok()) {
                    Some(set) => e.set_ava_set(&Attribute::from(a.as_str()), set),
                    None => bad = true,
                }
            }
            if bad { Err(OperationError::InvalidRequestState) } else { w.internal_create(vec![e]) }
        }
        Op::Modify(i, ms) => match cx.modlist(ms) {
            Some(ml) => w.internal_modify_uuid(cx.u(*i), &ml),
            None => Err(OperationError::InvalidRequestState),
        },
        Op::Batch(items) => {
            let mods: Option<Vec<_>> = items.iter().map(|(i, ms)| cx.modlist(ms).map(|ml| (cx.u(*i), ml))).collect();
            match mods {
                Some(m) => w.internal_batch_modify(m.into_iter()),
                None => Err(OperationError::InvalidRequestState),
            }
        }
        Op::Delete(i) => w.internal_delete_uuid(cx.u(*i)),
        Op::Revive(i) => {
            let admin = w.internal_search_uuid(UUID_ADMIN).map_err(|e| format!("admin:{e:?}"))?;
            let ident = Identity::from_impersonate_entry_readwrite(admin);
            let f = Filter::new(f_eq(Attribute::Uuid, PartialValue::Uuid(cx.u(*i))));
            match ReviveRecycledEvent::from_parts(ident, &f, &w) {
                Ok(re) => w.revive_recycled(&re),
                Err(e) => Err(e),
            }
        }
        Op::Repl(..) => unreachable!(),
    };
    match r {
        Ok(()) => w.commit().map_err(|e| format!("commit:{e:?}")),
        Err(e) => Err(format!("{e:?}")),
    }
}

fn exec_repl(qs: &[QueryServer], rt: &tokio::runtime::Runtime, ct: Duration, from: usize, to: usize) -> Result<(), String> {
    let mut from_r = rt.block_on(qs[from].read()).map_err(|e| format!("read:{e:?}"))?;
    let mut to_w = rt.block_on(qs[to].write(ct)).map_err(|e| format!("write:{e:?}"))?;
    let state = to_w.consumer_get_state().map_err(|e| format!("consumer_get_state:{e:?}"))?;
    let changes = from_r.supplier_provide_changes(state).map_err(|e| format!("supplier_provide_changes:{e:?}"))?;
    match to_w.consumer_apply_changes(changes).map_err(|e| format!("consumer_apply_changes:{e:?}"))? {
        ConsumerState::Ok => to_w.commit().map_err(|e| format!("commit:{e:?}")),
        ConsumerState::RefreshRequired => Err("refresh-required".into()),
    }
}

// ------------------------------------------------------------------------------------------
// history generation
// ------------------------------------------------------------------------------------------

#[derive(Clone, Copy, PartialEq, Eq, Debug)]
enum Kind {
    Single,
    Narrow,
    Pair,
}

#[derive(Clone, Debug)]
struct CustomAttr {
    name: String,
    syntax: &'static str,
    multivalue: bool,
}

#[derive(Clone, Debug, Default)]
struct CustomClass {
    name: String,
    must: Vec<usize>,
    may: Vec<usize>,
}

#[derive(Clone, Debug)]
struct Ent {
    id: u64,
    kind: u8, // 0 person 1 group 2 custom
    custom: Vec<usize>,
}

struct Gen {
    tag: String,
    attrs: Vec<CustomAttr>,
    classes: Vec<CustomClass>,
    ents: Vec<Ent>,
    next: u64,
}

const CUSTOM_SYNTAX: [&str; 6] = ["UTF8STRING", "UTF8STRING_INSENSITIVE", "UTF8STRING_INAME", "BOOLEAN", "UINT32", "UUID"];

impl Gen {
    fn val(&self, rng: &mut Rng, syntax: &str, k: u64) -> V {
        match syntax {
            "UTF8STRING" => V::Utf8(format!("Text {k} {}", rng.below(1000))),
            "UTF8STRING_INSENSITIVE" => V::Iutf8(format!("word{k}x{}", rng.below(1000))),
            "UTF8STRING_INAME" => V::Iname(format!("nm{}x{k}x{}", self.tag, rng.below(100000))),
            "BOOLEAN" => V::Bool(rng.chance(1, 2)),
            "UINT32" => V::U32(rng.below(100000) as u32),
            _ => V::Uuid(3000 + rng.below(1000)),
        }
    }
    fn wrong_val(&self, rng: &mut Rng, syntax: &str) -> V {
        match syntax {
            "UTF8STRING" => V::U32(7),
            "UTF8STRING_INSENSITIVE" => if rng.chance(1, 2) { V::RawIutf8("UPPER Case".into()) } else { V::Bool(true) },
            "UTF8STRING_INAME" => if rng.chance(1, 2) { V::RawIname("Not A Name".into()) } else { V::Utf8("plain text".into()) },
            "BOOLEAN" => V::Utf8("true".into()),
            "UINT32" => V::Utf8("12".into()),
            _ => V::Utf8("not-a-uuid".into()),
        }
    }
    fn add_attr(&mut self, rng: &mut Rng) -> Op {
        let k = self.attrs.len();
        let a = CustomAttr { name: format!("c15{}a{k}", self.tag), syntax: CUSTOM_SYNTAX[rng.below(6) as usize], multivalue: rng.chance(1, 2) };
        let id = self.next;
        self.next += 1;
        let op = Op::Create(
            id,
            vec![
                ("class".into(), vec![V::Iutf8("object".into()), V::Iutf8("attributetype".into())]),
                ("attributename".into(), vec![V::Iutf8(a.name.clone())]),
                ("description".into(), vec![V::Utf8("c15 attribute".into())]),
                ("multivalue".into(), vec![V::Bool(a.multivalue)]),
                ("unique".into(), vec![V::Bool(false)]),
                ("syntax".into(), vec![V::Syntax(a.syntax.into())]),
            ],
        );
        self.attrs.push(a);
        op
    }
    fn add_class(&mut self, rng: &mut Rng) -> Op {
        let k = self.classes.len();
        let mut c = CustomClass { name: format!("c15{}c{k}", self.tag), ..Default::default() };
        for i in 0..self.attrs.len() {
            match rng.below(4) {
                0 if c.must.len() < 2 => c.must.push(i),
                1 | 2 => c.may.push(i),
                _ => {}
            }
        }
        let id = self.next;
        self.next += 1;
        let mut avas = vec![
            ("class".to_string(), vec![V::Iutf8("object".into()), V::Iutf8("classtype".into())]),
            ("classname".to_string(), vec![V::Iutf8(c.name.clone())]),
            ("description".to_string(), vec![V::Utf8("c15 class".into())]),
        ];
        if !c.must.is_empty() {
            avas.push(("must".into(), c.must.iter().map(|i| V::Iutf8(self.attrs[*i].name.clone())).collect()));
        }
        if !c.may.is_empty() {
            avas.push(("may".into(), c.may.iter().map(|i| V::Iutf8(self.attrs[*i].name.clone())).collect()));
        }
        self.classes.push(c);
        Op::Create(id, avas)
    }
    /// uuid slot of the schema entry of class k / attribute k is not tracked: schema entries are
    /// addressed through a modify by filter on their name, see `schema_mod`
    fn create_entry(&mut self, rng: &mut Rng, heavy: bool) -> Op {
        let id = self.next;
        self.next += 1;
        let kind = rng.below(3) as u8;
        let nm = format!("c15{}e{id}", self.tag);
        let mut avas: Vec<(String, Vec<V>)> = vec![];
        let mut classes: Vec<V> = vec![V::Iutf8("object".into())];
        let mut custom = vec![];
        match kind {
            0 => {
                classes.push(V::Iutf8("account".into()));
                classes.push(V::Iutf8("person".into()));
                avas.push(("name".into(), vec![V::Iname(nm.clone())]));
                avas.push(("displayname".into(), vec![V::Utf8(format!("Person {id}"))]));
                if rng.chance(1, 3) { avas.push(("legalname".into(), vec![V::Utf8(format!("Legal {id}"))])); }
                if rng.chance(1, 3) { avas.push(("mail".into(), vec![V::Email(format!("{nm}@example.com"))])); }
            }
            1 => {
                classes.push(V::Iutf8("group".into()));
                avas.push(("name".into(), vec![V::Iname(nm.clone())]));
                if rng.chance(1, 2) { avas.push(("description".into(), vec![V::Utf8(format!("Group {id}"))])); }
                if !self.ents.is_empty() && rng.chance(1, 2) {
                    let t = self.ents[rng.below(self.ents.len() as u64) as usize].id;
                    avas.push(("member".into(), vec![V::Refer(t)]));
                }
            }
            _ => {
                if rng.chance(1, 4) { classes.push(V::Iutf8("extensibleobject".into())); }
            }
        }
        if !self.classes.is_empty() && (kind == 2 || rng.chance(1, 3)) {
            let k = rng.below(self.classes.len() as u64) as usize;
            custom.push(k);
            classes.push(V::Iutf8(self.classes[k].name.clone()));
            let c = self.classes[k].clone();
            let mut picks: Vec<usize> = c.must.clone();
            for i in &c.may {
                if rng.chance(1, 2) {
                    picks.push(*i);
                }
            }
            for i in picks.iter() {
                let a = self.attrs[*i].clone();
                let n = if a.multivalue && a.syntax != "BOOLEAN" { rng.range(1, 2) } else { 1 };
                let vals = (0..n).map(|j| self.val(rng, a.syntax, j)).collect();
                if !avas.iter().any(|x| x.0 == a.name) {
                    avas.push((a.name.clone(), vals));
                }
            }
        }
        // ---- corruption of the request
        if rng.chance(if heavy { 45 } else { 35 }, 100) {
            match rng.below(9) {
                0 => {
                    // drop a required attribute
                    if let Some(p) = avas.iter().position(|x| x.0 == "displayname" || x.0 == "name" || self.attrs.iter().any(|a| a.name == x.0)) {
                        avas.remove(p);
                    }
                }
                1 => avas.push(("member".into(), vec![V::Refer(self.ents.first().map(|e| e.id).unwrap_or(0))])),
                2 => {
                    // two values on a single-valued attribute
                    if let Some(x) = avas.iter_mut().find(|x| x.0 == "displayname") {
                        x.1.push(V::Utf8("second".into()));
                    } else if let Some(a) = self.attrs.iter().find(|a| !a.multivalue && a.syntax != "BOOLEAN") {
                        let vals = vec![self.val(rng, a.syntax, 8), self.val(rng, a.syntax, 9)];
                        avas.retain(|x| x.0 != a.name);
                        avas.push((a.name.clone(), vals));
                    }
                }
                3 => {
                    // value of another type
                    if let Some(x) = avas.iter_mut().find(|x| x.0 == "name") {
                        x.1 = vec![V::Utf8("plain text".into())];
                    } else if let Some(a) = self.attrs.first() {
                        let w = self.wrong_val(rng, a.syntax);
                        avas.retain(|x| x.0 != a.name);
                        avas.push((a.name.clone(), vec![w]));
                    }
                }
                4 => {
                    // value invalid for its syntax
                    if let Some(x) = avas.iter_mut().find(|x| x.0 == "name") {
                        x.1 = vec![V::RawIname("Bad Name".into())];
                    } else {
                        avas.push(("description".into(), vec![V::Utf8("two\nlines".into())]));
                    }
                }
                5 => classes.push(V::Iutf8("c15nosuchclass".into())),
                6 => classes.push(V::Iutf8("service_account".into())),
                7 => {
                    classes.push(V::Iutf8("posixaccount".into()));
                    if rng.chance(1, 2) { avas.push(("gidnumber".into(), vec![V::U32(70000 + id as u32)])); }
                }
                _ => {
                    // an attribute of a custom class the entry does not carry
                    if let Some(a) = self.attrs.last() {
                        if !avas.iter().any(|x| x.0 == a.name) {
                            avas.push((a.name.clone(), vec![self.val(rng, a.syntax, 5)]));
                        }
                    }
                }
            }
        }
        avas.push(("class".into(), classes));
        self.ents.push(Ent { id, kind, custom });
        Op::Create(id, avas)
    }
    fn mods(&mut self, rng: &mut Rng, e: &Ent, heavy: bool) -> Vec<M> {
        let mut ms = vec![];
        let bad = rng.chance(if heavy { 50 } else { 40 }, 100);
        if !bad {
            match rng.below(6) {
                0 => ms.push(M::Set("description".into(), vec![V::Utf8(format!("desc {}", rng.below(1000)))])),
                1 if e.kind == 0 => ms.push(M::Set("displayname".into(), vec![V::Utf8(format!("Renamed {}", rng.below(1000)))])),
                2 if e.kind == 1 && !self.ents.is_empty() => {
                    let t = self.ents[rng.below(self.ents.len() as u64) as usize].id;
                    ms.push(M::Present("member".into(), V::Refer(t)));
                }
                3 if !self.classes.is_empty() => {
                    // take on a custom class together with what it requires
                    let k = rng.below(self.classes.len() as u64) as usize;
                    let c = self.classes[k].clone();
                    ms.push(M::Present("class".into(), V::Iutf8(c.name.clone())));
                    for i in &c.must {
                        let a = self.attrs[*i].clone();
                        ms.push(M::Set(a.name.clone(), vec![self.val(rng, a.syntax, 1)]));
                    }
                }
                4 if !e.custom.is_empty() => {
                    let c = self.classes[e.custom[0]].clone();
                    if let Some(i) = c.may.first() {
                        let a = self.attrs[*i].clone();
                        ms.push(M::Set(a.name.clone(), vec![self.val(rng, a.syntax, 2)]));
                    }
                }
                _ => ms.push(M::Purged("description".into())),
            }
            if ms.is_empty() {
                ms.push(M::Set("description".into(), vec![V::Utf8("fallback".into())]));
            }
            return ms;
        }
        match rng.below(9) {
            0 => ms.push(M::Purged(if e.kind == 2 { "uuid".into() } else { "name".into() })),
            1 => ms.push(M::Purged("displayname".into())),
            2 => {
                ms.push(M::Present("displayname".into(), V::Utf8("one".into())));
                ms.push(M::Present("displayname".into(), V::Utf8("two".into())));
            }
            3 => ms.push(M::Present("class".into(), V::Iutf8("c15nosuchclass".into()))),
            4 => {
                // take on a class without what it requires
                if let Some(c) = self.classes.iter().find(|c| !c.must.is_empty()) {
                    ms.push(M::Present("class".into(), V::Iutf8(c.name.clone())));
                } else {
                    ms.push(M::Present("class".into(), V::Iutf8("posixaccount".into())));
                }
            }
            5 => {
                // drop a class but keep its attributes
                if let Some(k) = e.custom.first() {
                    ms.push(M::Removed("class".into(), V::Iutf8(self.classes[*k].name.clone())));
                } else {
                    ms.push(M::Removed("class".into(), V::Iutf8(if e.kind == 0 { "person".into() } else { "group".into() })));
                }
            }
            6 => ms.push(M::Present("member".into(), V::Refer(e.id))),
            7 => {
                if let Some(a) = self.attrs.first().cloned() {
                    ms.push(M::Set(a.name.clone(), vec![self.wrong_val(rng, a.syntax)]));
                } else {
                    ms.push(M::Set("description".into(), vec![V::Utf8("two\nlines".into())]));
                }
            }
            _ => {
                if let Some(a) = self.attrs.iter().find(|a| !a.multivalue && a.syntax != "BOOLEAN").cloned() {
                    ms.push(M::Set(a.name.clone(), vec![self.val(rng, a.syntax, 3), self.val(rng, a.syntax, 4)]));
                } else {
                    ms.push(M::Purged("class".into()));
                }
            }
        }
        ms
    }
}

/// the whole history of a case, derived from (seed, case, kind) only
fn gen_history(seed: u64, case: u64, kind: Kind, heavy: bool) -> (Vec<Op>, Vec<(usize, String)>) {
    let mut rng = Rng::for_case(seed ^ (kind as u64 + 1) * 0x5151, case);
    let mut g = Gen { tag: format!("k{}x{case}", kind as u8), attrs: vec![], classes: vec![], ents: vec![], next: 1 };
    let mut ops: Vec<Op> = vec![];
    // narrowing edits are expressed as modifies of schema entries by slot; remember which op index
    // performs which narrowing (for the report)
    let mut narrow_at: Vec<(usize, String)> = vec![];
    // slots of schema entries: attribute k -> slot, class k -> slot
    let mut attr_slot: Vec<u64> = vec![];
    let mut class_slot: Vec<u64> = vec![];
    let n_ops = rng.range(18, 30);
    // always start with a little schema so that custom entries exist early
    for _ in 0..rng.range(2, 3) {
        attr_slot.push(g.next);
        ops.push(g.add_attr(&mut rng));
    }
    class_slot.push(g.next);
    ops.push(g.add_class(&mut rng));
    while (ops.len() as u64) < n_ops {
        let r = rng.below(100);
        if r < 6 && g.attrs.len() < 6 {
            attr_slot.push(g.next);
            ops.push(g.add_attr(&mut rng));
        } else if r < 11 && g.classes.len() < 4 {
            class_slot.push(g.next);
            ops.push(g.add_class(&mut rng));
        } else if r < 16 && !g.classes.is_empty() && !g.attrs.is_empty() {
            // extension: one more `may` on a class (possibly in use)
            let k = rng.below(g.classes.len() as u64) as usize;
            let i = rng.below(g.attrs.len() as u64) as usize;
            if !g.classes[k].may.contains(&i) && !g.classes[k].must.contains(&i) {
                g.classes[k].may.push(i);
                ops.push(Op::Modify(class_slot[k], vec![M::Present("may".into(), V::Iutf8(g.attrs[i].name.clone()))]));
            }
        } else if r < 50 || g.ents.is_empty() {
            ops.push(g.create_entry(&mut rng, heavy));
        } else if r < 78 {
            let e = g.ents[rng.below(g.ents.len() as u64) as usize].clone();
            let ms = g.mods(&mut rng, &e, heavy);
            ops.push(Op::Modify(e.id, ms));
        } else if r < 83 && g.ents.len() >= 2 {
            let e1 = g.ents[rng.below(g.ents.len() as u64) as usize].clone();
            let e2 = g.ents[rng.below(g.ents.len() as u64) as usize].clone();
            let m1 = g.mods(&mut rng, &e1, heavy);
            let m2 = g.mods(&mut rng, &e2, heavy);
            if e1.id != e2.id {
                ops.push(Op::Batch(vec![(e1.id, m1), (e2.id, m2)]));
            }
        } else if r < 91 {
            let e = g.ents[rng.below(g.ents.len() as u64) as usize].clone();
            ops.push(Op::Delete(e.id));
        } else {
            let e = g.ents[rng.below(g.ents.len() as u64) as usize].clone();
            ops.push(Op::Revive(e.id));
        }
        if kind == Kind::Narrow && ops.len() > 10 && rng.chance(1, 4) && !g.classes.is_empty() && !g.attrs.is_empty() {
            let k = rng.below(g.classes.len() as u64) as usize;
            let i = rng.below(g.attrs.len() as u64) as usize;
            let c = g.classes[k].clone();
            let a = g.attrs[i].clone();
            let (what, op) = match rng.below(5) {
                0 => ("add-must", Op::Modify(class_slot[k], vec![M::Present("must".into(), V::Iutf8(a.name.clone()))])),
                1 => match c.may.first() {
                    Some(j) => ("remove-may", Op::Modify(class_slot[k], vec![M::Removed("may".into(), V::Iutf8(g.attrs[*j].name.clone()))])),
                    None => ("add-must", Op::Modify(class_slot[k], vec![M::Present("must".into(), V::Iutf8(a.name.clone()))])),
                },
                2 => ("multivalue-off", Op::Modify(attr_slot[i], vec![M::Set("multivalue".into(), vec![V::Bool(false)])])),
                3 => ("add-excludes", Op::Modify(class_slot[k], vec![M::Present("excludes".into(), V::Iutf8(if rng.chance(1, 2) { "group".into() } else { "person".into() }))])),
                _ => ("delete-attribute", Op::Delete(attr_slot[i])),
            };
            narrow_at.push((ops.len(), what.to_string()));
            ops.push(op);
        }
    }
    if kind == Kind::Pair {
        // spread over two servers: see `run_case` (server choice and replication points are drawn there)
    }
    (ops, narrow_at)
}

// ------------------------------------------------------------------------------------------
// running a case
// ------------------------------------------------------------------------------------------

#[derive(Default)]
struct CaseResult {
    counts: BTreeMap<String, u64>,
    failures: Vec<Failure>,
    samples: Vec<J>,
    keys: Vec<String>,
    ops: u64,
    model_requests: u64,
}

impl CaseResult {
    fn count(&mut self, k: &str) {
        *self.counts.entry(k.to_string()).or_insert(0) += 1;
    }
    fn count_n(&mut self, k: &str, n: u64) {
        *self.counts.entry(k.to_string()).or_insert(0) += n;
    }
}

struct ServerState {
    hashes: BTreeMap<Uuid, u64>,
    schema: SchemaD,
    narrowed: bool,
}

fn hash_entry(e: &Sealed) -> u64 {
    let mut h = DefaultHasher::new();
    format!("{:?}", e.get_ava()).hash(&mut h);
    h.finish()
}

/// read everything back from server `idx`; oracle + correspondence
#[allow(clippy::too_many_arguments)]
fn observe(
    qs: &QueryServer,
    rt: &tokio::runtime::Runtime,
    drv: &mut Driver,
    at: &mut Atoms,
    st: &mut ServerState,
    accepted: bool,
    is_repl: bool,
    input: &J,
    res: &mut CaseResult,
) -> Result<(), String> {
    let mut r = rt.block_on(qs.read()).map_err(|e| format!("read:{e:?}"))?;
    let schema_txn = r.get_schema();
    let sd = dump_schema(schema_txn);
    let all: Vec<Arc<Sealed>> = r.internal_search(Filter::new(f_pres(Attribute::Class))).map_err(|e| format!("search:{e:?}"))?;
    let schema_changed = sd != st.schema;
    let mut lines: Vec<String> = vec![];
    if schema_changed {
        lines.extend(schema_lines(&sd, at));
        res.count("schema-reloads-observed");
    }
    let n_schema_lines = lines.len();
    let mut hashes = BTreeMap::new();
    let mut changed: Vec<&Arc<Sealed>> = vec![];
    for e in &all {
        let h = hash_entry(e);
        if schema_changed || st.hashes.get(&e.get_uuid()) != Some(&h) {
            changed.push(e);
        }
        hashes.insert(e.get_uuid(), h);
    }
    // ---- a refused operation leaves nothing behind
    if !accepted && !is_repl {
        if hashes != st.hashes {
            let diff: Vec<String> = hashes.iter().filter(|(u, h)| st.hashes.get(*u) != Some(*h)).map(|(u, _)| u.to_string()).chain(st.hashes.keys().filter(|u| !hashes.contains_key(*u)).map(|u| format!("gone:{u}"))).take(5).collect();
            res.failures.push(Failure { kind: "impl-vs-oracle".into(), class: "refused-operation-left-changes".into(), input: input.clone(), expected: "stored entries unchanged".into(), observed: format!("changed: {diff:?}") });
        }
        if schema_changed {
            res.failures.push(Failure { kind: "impl-vs-oracle".into(), class: "refused-operation-changed-schema".into(), input: input.clone(), expected: "schema unchanged".into(), observed: "schema differs".into() });
        }
        res.count("refused-leaves-nothing-checked");
    }
    // ---- schema sanity the theorems assume (CidNotRequired)
    if schema_changed {
        for (n, c) in &sd.classes {
            for a in c.lists[0].iter().chain(c.lists[1].iter()) {
                if a == Attribute::LastModifiedCid.as_str() || a == Attribute::CreatedAtCid.as_str() {
                    res.failures.push(Failure { kind: "assumption".into(), class: "cid-attribute-required-by-class".into(), input: input.clone(), expected: "no class requires last_modified_cid / created_at_cid".into(), observed: n.clone() });
                }
            }
        }
    }
    // ---- oracle over every changed entry (every entry after a schema change)
    let trim = Cid::new_lamport(nat_uuid(0x15FE), Duration::from_secs(1), &Duration::from_secs(0));
    let cid = Cid::new_lamport(nat_uuid(0x15FF), Duration::from_secs(4_000_000_000), &Duration::from_secs(0));
    let mut reals = vec![];
    for e in &changed {
        let v = view(e);
        let viol = oracle_violations(&sd, &v);
        let cls = v.classes.clone().unwrap_or_default();
        let state = if cls.contains(&c_name(EntryClass::Tombstone)) {
            "tombstone"
        } else if cls.contains(&c_name(EntryClass::Conflict)) {
            "conflict"
        } else if cls.contains(&c_name(EntryClass::Recycled)) {
            "recycled"
        } else {
            "live"
        };
        res.count(&format!("checked:{state}"));
        if state == "live" && !cls.contains(&c_name(EntryClass::Object)) {
            res.count("live-without-class-object");
        }
        if v.avas.iter().any(|a| a.3 == 0) {
            res.count(&format!("empty-valueset:{state}"));
        }
        if !viol.is_empty() {
            let rule = viol[0].split(':').next().unwrap_or("?").to_string();
            if st.narrowed {
                // outside the quantifier: the server does not revalidate after a narrowing schema edit
                res.count(&format!("excluded:narrowing:{state}:{rule}"));
                if res.samples.len() < 3 {
                    res.samples.push(json!({"excluded": "narrowing schema edit", "entry": v.uuid.to_string(), "state": state, "violations": viol, "input": input}));
                }
            } else if state == "live" {
                res.failures.push(Failure {
                    kind: "impl-vs-oracle".into(),
                    class: format!("stored-live-entry:{rule}"),
                    input: input.clone(),
                    expected: "every stored live entry satisfies the schema in force".into(),
                    observed: format!("{} {:?}: {:?}", v.uuid, cls, viol),
                });
            } else {
                res.failures.push(Failure {
                    kind: "impl-vs-oracle".into(),
                    class: format!("stored-recycled-entry:{rule}"),
                    input: input.clone(),
                    expected: "recycled entries satisfy the schema except for required attributes".into(),
                    observed: format!("{} {:?}: {:?}", v.uuid, cls, viol),
                });
            }
        }
        // ---- correspondence: the real validate on the stored entry vs the model
        let real = e.as_ref().clone().invalidate(cid.clone(), &trim).validate(schema_txn).map(|_| ());
        let real = show_real(&real);
        // agreement of the real check with the oracle, where the oracle is total (not conflict / tombstone)
        if state == "live" || state == "recycled" {
            if (real == "ok") != viol.is_empty() {
                // required-empty is the one rule the oracle has and `validate` has not
                let only_empty = !viol.is_empty() && viol.iter().all(|x| x.starts_with("required-empty"));
                if !only_empty {
                    res.failures.push(Failure {
                        kind: "impl-vs-oracle".into(),
                        class: if real == "ok" { "validate-accepts-nonconforming".into() } else { "validate-refuses-conforming".into() },
                        input: input.clone(),
                        expected: format!("oracle: {viol:?}"),
                        observed: format!("{} validate: {real}", v.uuid),
                    });
                }
            }
        }
        lines.push(entry_line(e, schema_txn, at));
        reals.push((v.uuid, real));
    }
    let replies = drv.ask_batch(&lines);
    res.model_requests += lines.len() as u64;
    let mut disagreements = 0;
    for ((u, real), reply) in reals.iter().zip(replies[n_schema_lines..].iter()) {
        let model = show_model(reply, at);
        res.count(&format!("validate:{}", real.split(' ').nth(1).unwrap_or("ok")));
        if &model != real {
            disagreements += 1;
            if disagreements <= 2 {
                res.failures.push(Failure { kind: "impl-vs-model".into(), class: "stored-entry-validate-differs".into(), input: input.clone(), expected: model, observed: format!("{u}: {real}") });
            }
        }
    }
    st.hashes = hashes;
    st.schema = sd;
    Ok(())
}

fn run_case(seed: u64, case: u64, kind: Kind, heavy: bool, driver: &str) -> CaseResult {
    let mut res = CaseResult::default();
    let rt = tokio::runtime::Builder::new_current_thread().enable_all().build().unwrap();
    let mut ct = duration_from_epoch_now();
    let qs: Vec<QueryServer> = if kind == Kind::Pair {
        let (a, b) = rt.block_on(setup_pair_test(TestConfiguration::default()));
        ct += Duration::from_secs(1);
        {
            let mut a_r = rt.block_on(a.read()).expect("read a");
            let mut b_w = rt.block_on(b.write(ct)).expect("write b");
            let ctx = a_r.supplier_provide_refresh().expect("refresh ctx");
            b_w.consumer_apply_refresh(ctx).expect("apply refresh");
            b_w.commit().expect("commit refresh");
        }
        vec![a, b]
    } else {
        vec![rt.block_on(setup_test(TestConfiguration::default()))]
    };
    let mut drv = Driver::spawn(driver);
    let mut at = Atoms::new();
    let mut states: Vec<ServerState> = qs.iter().map(|_| ServerState { hashes: BTreeMap::new(), schema: SchemaD::default(), narrowed: false }).collect();
    let cx = Ctx { base: case % 1000 + 1000 * (kind as u64) };
    let (ops, narrow_at) = gen_history(seed, case, kind, heavy);
    let input0 = json!({"seed": seed, "case": case, "kind": format!("{kind:?}")});
    // initial observation: the migrated database itself
    for (i, q) in qs.iter().enumerate() {
        if let Err(e) = observe(q, &rt, &mut drv, &mut at, &mut states[i], true, true, &input0, &mut res) {
            res.failures.push(Failure { kind: "harness".into(), class: "observe-failed".into(), input: input0.clone(), expected: "".into(), observed: e });
            return res;
        }
    }
    let mut rng = Rng::for_case(seed ^ 0xC15C15, case);
    let mut accepted_ops = 0u64;
    let mut refused_schema = 0u64;
    for (k, op) in ops.iter().enumerate() {
        ct += Duration::from_secs(1);
        let input = json!({"seed": seed, "case": case, "kind": format!("{kind:?}"), "op_index": k, "op": format!("{op:?}")});
        let target = if kind == Kind::Pair { rng.below(2) as usize } else { 0 };
        let r = std::panic::catch_unwind(std::panic::AssertUnwindSafe(|| exec(&qs[target], &rt, ct, &cx, op)));
        let r = match r {
            Ok(r) => r,
            Err(_) => {
                res.failures.push(Failure { kind: "impl-vs-oracle".into(), class: "operation-panicked".into(), input: input.clone(), expected: "Ok or Err".into(), observed: "panic".into() });
                return res;
            }
        };
        res.ops += 1;
        let opname = format!("{op:?}");
        let opname = opname.split('(').next().unwrap_or("?").to_string();
        match &r {
            Ok(()) => {
                accepted_ops += 1;
                res.count(&format!("op:{opname}:ok"));
                if let Some((_, what)) = narrow_at.iter().find(|(i, _)| *i == k) {
                    states[target].narrowed = true;
                    res.count(&format!("narrowing-accepted:{what}"));
                }
            }
            Err(e) => {
                let short: String = e.chars().take_while(|c| c.is_alphanumeric()).collect();
                res.count(&format!("op:{opname}:err:{short}"));
                if short == "SchemaViolation" {
                    refused_schema += 1;
                    let variant: String = e.trim_start_matches("SchemaViolation(").chars().take_while(|c| c.is_alphanumeric()).collect();
                    res.count(&format!("refused:{variant}"));
                }
            }
        }
        if let Err(e) = observe(&qs[target], &rt, &mut drv, &mut at, &mut states[target], r.is_ok(), false, &input, &mut res) {
            res.failures.push(Failure { kind: "harness".into(), class: "observe-failed".into(), input: input.clone(), expected: "".into(), observed: e });
            return res;
        }
        // replication points
        if kind == Kind::Pair && (rng.chance(1, 4) || k + 1 == ops.len()) {
            let rounds = if k + 1 == ops.len() { 2 } else { 1 };
            for _ in 0..rounds {
                for (from, to) in [(0usize, 1usize), (1, 0)] {
                    ct += Duration::from_secs(1);
                    let input = json!({"seed": seed, "case": case, "kind": "Pair", "op_index": k, "op": format!("Repl({from},{to})")});
                    let rr = std::panic::catch_unwind(std::panic::AssertUnwindSafe(|| exec_repl(&qs, &rt, ct, from, to)));
                    match rr {
                        Ok(Ok(())) => res.count("op:Repl:ok"),
                        Ok(Err(e)) => res.count(&format!("op:Repl:err:{}", e.chars().take(40).collect::<String>())),
                        Err(_) => {
                            res.failures.push(Failure { kind: "impl-vs-oracle".into(), class: "replication-panicked".into(), input: input.clone(), expected: "Ok or Err".into(), observed: "panic".into() });
                            return res;
                        }
                    }
                    if let Err(e) = observe(&qs[to], &rt, &mut drv, &mut at, &mut states[to], true, true, &input, &mut res) {
                        res.failures.push(Failure { kind: "harness".into(), class: "observe-failed".into(), input, expected: "".into(), observed: e });
                        return res;
                    }
                }
            }
        }
        if !res.failures.is_empty() && res.failures.iter().any(|f| f.kind == "impl-vs-oracle") {
            break;
        }
    }
    if accepted_ops >= 6 && refused_schema >= 1 {
        res.keys.push(format!("{kind:?}|{case}|{accepted_ops}|{refused_schema}"));
    }
    res
}

fn main() {
    let args = Args::parse();
    let mut rep = Report::new(
        "schema-histories",
        "a history with at least 6 accepted operations and at least one operation refused for a schema violation, every stored entry re-checked after every operation",
    );
    let heavy = args.budget > 1;
    let mut jobs: Vec<(u64, Kind)> = vec![];
    let seed;
    if let Some(f) = &args.replay {
        let v: J = serde_json::from_str(&std::fs::read_to_string(f).expect("replay file")).expect("replay json");
        let inp = v.get("input").unwrap_or(&v);
        seed = inp["seed"].as_u64().unwrap_or(args.seed);
        let kind = match inp["kind"].as_str().unwrap_or("Single") {
            "Narrow" => Kind::Narrow,
            "Pair" => Kind::Pair,
            _ => Kind::Single,
        };
        jobs.push((inp["case"].as_u64().expect("case"), kind));
    } else {
        seed = args.seed;
        for i in 0..args.cases(36, 700) {
            jobs.push((i, Kind::Single));
        }
        for i in 0..args.cases(8, 120) {
            jobs.push((i, Kind::Narrow));
        }
        for i in 0..args.cases(10, 180) {
            jobs.push((i, Kind::Pair));
        }
    }
    let threads = if args.replay.is_some() { 1 } else { 8 };
    let jobs = Arc::new(jobs);
    let mut handles = vec![];
    for t in 0..threads {
        let jobs = jobs.clone();
        let driver = args.driver.clone();
        handles.push(std::thread::spawn(move || {
            let mut out = vec![];
            let mut i = t;
            while i < jobs.len() {
                let (case, kind) = jobs[i];
                out.push((i, run_case(seed, case, kind, heavy, &driver)));
                i += threads;
            }
            out
        }));
    }
    let mut results: Vec<(usize, CaseResult)> = handles.into_iter().flat_map(|h| h.join().expect("worker")).collect();
    results.sort_by_key(|r| r.0);
    let mut model_fail = 0;
    for (_, r) in results {
        rep.evaluations += 1;
        for k in r.keys {
            rep.nontrivial_keys.insert(k);
        }
        for (k, n) in r.counts {
            rep.count_n(&k, n);
        }
        rep.count_n("ops", r.ops);
        rep.model_requests += r.model_requests;
        for s in r.samples {
            rep.sample(s);
        }
        for f in r.failures {
            if f.kind == "impl-vs-model" {
                model_fail += 1;
                if model_fail > 5 {
                    rep.count("impl-vs-model-more");
                    continue;
                }
            }
            rep.fail(f);
        }
    }
    // non-vacuity floors
    if args.replay.is_none() {
        let h = rep.histogram.clone();
        let need = |k: &str| h.iter().filter(|(n, _)| n.starts_with(k)).map(|(_, v)| *v).sum::<u64>();
        for (k, min) in [("refused:", 10u64), ("op:Create:ok", 50), ("op:Modify:ok", 30), ("op:Delete:ok", 5), ("op:Revive:ok", 1), ("op:Repl:ok", 10), ("schema-reloads-observed", 20), ("checked:recycled", 5), ("narrowing-accepted:", 1), ("excluded:narrowing:", 1)] {
            if need(k) < min {
                rep.fail(Failure { kind: "generator".into(), class: "coverage-floor".into(), input: json!({"key": k}), expected: format!(">= {min}"), observed: format!("{}", need(k)) });
            }
        }
    }
    rep.write(&args.out);
    println!("c15srv schema-histories: {} histories, {} ops, {} distinct non-trivial, {} failures", rep.evaluations, rep.histogram.get("ops").unwrap_or(&0), rep.nontrivial_keys.len(), rep.failures.len());
}
