//! C40, stream `ldap-gateway` — the LDAP gateway is read-only and no more privileged than its bind.
//!
//! One *world* per case index: a freshly booted in-memory IdmServer + LdapServer with persons
//! (POSIX passwords: right / none / imported weak hash; valid, expired, not yet valid), service
//! accounts with api tokens (read-only, read-write, expired, destroyed, compact format), a UAT of
//! a privileged login, applications with linked groups and application passwords (member and
//! non-member), a search ACP that lets one group read more than anonymous may, both settings of
//! the unix-bind flag, optionally a custom base DN.  Then a few *connections*: random sequences of
//! LDAP messages (binds with every DN form and right / wrong / empty / token / application
//! secrets, searches, compares, who-am-i, unbind, every update operation, extended operations,
//! responses sent as requests, SASL binds, malformed DNs), interleaved with outside changes
//! (flag toggled, account expired / deleted, api token destroyed).  The wire layer
//! (`handle_ldaprequest` + the `client_process` loop of server/core) is transcribed here:
//! `ServerOps::try_from` (the real one), `LdapServer::do_op` (the real one), session kept per
//! response state.
//!
//! Correspondence (`impl-vs-model`): the same world facts (from the harness's own bookkeeping) and
//! the same messages go to `km_c40`; outcome, connection session, close flag, the identity
//! `validate_ldap_session` derives for the token in use, and the delayed actions are compared.
//! Oracle (`impl-vs-oracle`, from the property text only):
//!   * the storage-level digest of every entry (all attributes in their database encoding + change
//!     state) is the same after every message as before it;
//!   * an update operation never gets a success answer;
//!   * an accepted password bind had the right secret for the bound account, the flag on (POSIX) or
//!     membership of the application's linked group (application), a valid account;
//!   * an accepted token bind presented a live token of that account;
//!   * every search answers exactly what a native search with the same filter gives the identity
//!     the property prescribes (anonymous entry / read-only after any password bind or none, the
//!     token's account and scope after a token bind), minus schema / access-control entries;
//!   * the identity `validate_ldap_session` derives is that prescribed identity;
//!   * the only delayed action is the hash upgrade of the account that has just bound.
use compact_jwt::JwsCompact;
use kanidmd_lib::entry::EntryReduced;
use hlib::*;
use kanidm_proto::internal::{ApiToken as ProtoApiToken, Filter as PF, SearchRequest, UatPurpose, UserAuthToken};
use kanidm_proto::v1::{AuthIssueSession, AuthMech};
use kanidmd_lib::entry::{Entry, EntryCommitted, EntryInit, EntryNew, EntrySealed};
use kanidmd_lib::event::SearchEvent;
use kanidmd_lib::filter::{f_pres, Filter};
use kanidmd_lib::idm::application::GenerateApplicationPasswordEvent;
use kanidmd_lib::idm::authentication::{AuthCredential, AuthState, ClientAuthInfo};
use kanidmd_lib::idm::delayed::DelayedAction;
use kanidmd_lib::idm::event::{AuthEvent, AuthEventStep, AuthEventStepCred, AuthEventStepInit, AuthEventStepMech, UnixPasswordChangeEvent};
use kanidmd_lib::idm::ldap::{LdapBoundToken, LdapResponseState, LdapServer, LdapSession};
use kanidmd_lib::idm::server::{IdmServer, IdmServerDelayed, IdmServerTransaction};
use kanidmd_lib::idm::serviceaccount::{DestroyApiTokenEvent, GenerateApiTokenEvent};
use kanidmd_lib::prelude::*;
use kanidmd_lib::testkit::{setup_idm_test, TestConfiguration};
use kanidmd_lib::value::Value;
use kanidmd_lib::verif_hooks::c12::vs_to_db_json;
use kanidmd_lib::verif_hooks::c23::ident_internal;
use kanidmd_lib::verif_hooks::c27::cred_password;
use ldap3_proto::proto::*;
use ldap3_proto::simple::ServerOps;
use serde_json::{json, Value as J};
use std::collections::{BTreeMap, BTreeSet};
use std::str::FromStr;
use std::sync::Arc;
use std::time::Duration;

type EntrySC = Entry<EntrySealed, EntryCommitted>;

const PW_LOGIN: &str = "c40-primary-Password-eeGh7ooz";
// password_import test vector of the server's own test-suite (plugins/cred_import.rs)
const IMPORT_HASH: &str = "pbkdf2_sha256$36000$xIEozuZVAoYm$uW1b35DUKyhvQAf1mBqMvoBDcqSD06juzyO/nmyV0+w=";
const IMPORT_PW: &str = "eicieY7ahchaoCh0eeTa";
const OID_WHOAMI: &str = "1.3.6.1.4.1.4203.1.11.3";

fn enc(s: &str) -> String {
    if s.is_empty() {
        "-".into()
    } else {
        s.chars().map(|c| (c as u32).to_string()).collect::<Vec<_>>().join(".")
    }
}

#[derive(Clone, Debug, PartialEq)]
enum Kind {
    Person,
    Service,
    Group,
    App,
}

#[derive(Clone, Debug)]
struct Principal {
    name: String,
    uuid: Uuid,
    kind: Kind,
    valid_from: Option<u64>,
    expire: Option<u64>,
    unix_pw: Option<String>,
    needs_upgrade: bool,
    member_of: Vec<Uuid>,
    app_pws: Vec<(Uuid, String)>,
    exists: bool,
    /// a wrong unix password was tried since the last success: the soft lock may refuse
    unix_failed: bool,
}

#[derive(Clone, Debug)]
struct AppInfo {
    name: String,
    uuid: Uuid,
    linked_group: Uuid,
}

#[derive(Clone, Debug)]
enum TokKind {
    Uat { account: Uuid, session: Uuid, expiry: Option<u64>, rw_until: Option<Option<u64>> },
    Apit { account: Uuid, token_id: Uuid, issued_at: u64, expiry: Option<u64>, purpose: &'static str, compact: bool },
}

#[derive(Clone, Debug)]
struct Tok {
    label: String,
    secret: String,
    kind: TokKind,
    /// api token: its session is still stored on the account
    present: bool,
}

struct World {
    idms: IdmServer,
    delayed: IdmServerDelayed,
    ldaps: LdapServer,
    basedn: String,
    flag: bool,
    ps: Vec<Principal>,
    apps: Vec<AppInfo>,
    toks: Vec<Tok>,
    uuids: BTreeMap<Uuid, u64>,
    secrets: BTreeMap<String, u64>,
    /// dn of every entry ↦ uuid, spn ↦ uuid
    dn_of: BTreeMap<String, Uuid>,
    spn_of: BTreeMap<String, Uuid>,
    hidden_class: BTreeSet<Uuid>,
    notes: Vec<String>,
}

impl World {
    fn atom(&mut self, u: Uuid) -> u64 {
        let n = self.uuids.len() as u64;
        *self.uuids.entry(u).or_insert(n)
    }
    fn secret(&mut self, s: &str) -> u64 {
        if s.is_empty() {
            return 0;
        }
        let n = self.secrets.len() as u64 + 1;
        *self.secrets.entry(s.to_string()).or_insert(n)
    }
    fn p(&self, u: Uuid) -> Option<&Principal> {
        self.ps.iter().find(|p| p.uuid == u)
    }
}

fn now_secs() -> u64 {
    duration_from_epoch_now().as_secs()
}

fn new_entry(classes: &[EntryClass], name: &str, uuid: Uuid) -> Entry<EntryInit, EntryNew> {
    let mut e: Entry<EntryInit, EntryNew> = Entry::new();
    for c in classes {
        e.add_ava(Attribute::Class, c.to_value());
    }
    e.add_ava(Attribute::Name, Value::new_iname(name));
    e.add_ava(Attribute::Uuid, Value::Uuid(uuid));
    e
}

fn odt(secs: u64) -> time::OffsetDateTime {
    time::OffsetDateTime::UNIX_EPOCH + Duration::from_secs(secs)
}

fn pid(world: u64, i: u64) -> Uuid {
    Uuid::from_u128(0xC400_0000_0000_4000_8000_0000_0000_0000u128 + ((world as u128) << 32) + i as u128)
}

const B64: &[u8] = b"ABCDEFGHIJKLMNOPQRSTUVWXYZabcdefghijklmnopqrstuvwxyz0123456789-_";
fn b64_dec(s: &str) -> Option<Vec<u8>> {
    let mut out = vec![];
    let (mut acc, mut bits) = (0u32, 0u32);
    for c in s.bytes() {
        let v = B64.iter().position(|b| *b == c)? as u32;
        acc = (acc << 6) | v;
        bits += 6;
        if bits >= 8 {
            bits -= 8;
            out.push((acc >> bits) as u8);
            acc &= (1 << bits) - 1;
        }
    }
    Some(out)
}

fn odt_secs(t: time::OffsetDateTime) -> u64 {
    t.unix_timestamp().max(0) as u64
}

/// A complete login through `IdmServer::auth`; returns the UAT as a compact JWS.
async fn login(idms: &IdmServer, name: &str, anonymous: bool, privileged: bool, ct: Duration) -> Option<String> {
    let cai = || ClientAuthInfo::new(Source::Internal, None, None, None);
    let mut a = idms.auth().await.ok()?;
    let init = AuthEvent {
        ident: None,
        step: AuthEventStep::Init(AuthEventStepInit { username: name.to_string(), issue: AuthIssueSession::Token, privileged }),
    };
    let sid = a.auth(&init, ct, cai()).await.ok()?.sessionid;
    let (mech, cred) = if anonymous {
        (AuthMech::Anonymous, AuthCredential::Anonymous)
    } else {
        (AuthMech::Password, AuthCredential::Password(PW_LOGIN.into()))
    };
    let begin = AuthEvent { ident: None, step: AuthEventStep::Begin(AuthEventStepMech { sessionid: sid, mech }) };
    let r = a.auth(&begin, ct, cai()).await.ok()?;
    let out = match r.state {
        AuthState::Continue(_) => {
            let ev = AuthEvent { ident: None, step: AuthEventStep::Cred(AuthEventStepCred { sessionid: sid, cred }) };
            match a.auth(&ev, ct, cai()).await {
                Ok(r) => match r.state {
                    AuthState::Success(tok, _) => Some(tok.to_string()),
                    _ => None,
                },
                Err(_) => None,
            }
        }
        _ => None,
    };
    let _ = a.commit();
    out
}

async fn drain(delayed: &mut IdmServerDelayed) -> Vec<DelayedAction> {
    let mut out = vec![];
    loop {
        let mut buf: Vec<DelayedAction> = Vec::with_capacity(8);
        let n = tokio::select! {
            biased;
            n = delayed.recv_many(&mut buf) => n,
            _ = std::future::ready(()) => 0,
        };
        if n == 0 {
            break;
        }
        out.extend(buf);
    }
    out
}

/// Storage-level digest of the whole database: every entry (recycled and tombstoned included),
/// every attribute in its database encoding, plus the entry's change state.
async fn digest(idms: &IdmServer) -> (u64, usize) {
    let mut rd = idms.proxy_read().await.expect("read txn");
    let all = rd.qs_read.internal_search(Filter::new(f_pres(Attribute::Class))).expect("dump");
    let mut rows: Vec<String> = all
        .iter()
        .map(|e| {
            let mut attrs: Vec<String> = e.get_ava_iter().map(|(a, vs)| format!("{}={}", a.as_str(), vs_to_db_json(vs).unwrap_or_else(|e| e))).collect();
            attrs.sort();
            format!("{}|{:?}|{}", e.get_uuid(), e.get_changestate(), attrs.join(";"))
        })
        .collect();
    rows.sort();
    let mut h: u64 = 0xcbf29ce484222325;
    for r in &rows {
        for b in r.bytes() {
            h ^= b as u64;
            h = h.wrapping_mul(0x100000001b3);
        }
        h ^= 0xff;
        h = h.wrapping_mul(0x100000001b3);
    }
    (h, rows.len())
}

fn decode_tok(label: &str, secret: &str, present: bool) -> Option<Tok> {
    let parts: Vec<&str> = secret.split('.').collect();
    let payload = b64_dec(parts.get(1)?)?;
    if let Ok(u) = serde_json::from_slice::<UserAuthToken>(&payload) {
        let rw_until = match u.purpose {
            UatPurpose::ReadOnly => None,
            UatPurpose::ReadWrite { expiry } => Some(expiry.map(odt_secs)),
        };
        return Some(Tok {
            label: label.into(),
            secret: secret.into(),
            kind: TokKind::Uat { account: u.uuid, session: u.session_id, expiry: u.expiry.map(odt_secs), rw_until },
            present,
        });
    }
    if let Ok(a) = serde_json::from_slice::<ProtoApiToken>(&payload) {
        let purpose = match a.purpose {
            kanidm_proto::internal::ApiTokenPurpose::ReadOnly => "ro",
            kanidm_proto::internal::ApiTokenPurpose::ReadWrite => "rw",
            kanidm_proto::internal::ApiTokenPurpose::Synchronise => "sync",
        };
        return Some(Tok {
            label: label.into(),
            secret: secret.into(),
            kind: TokKind::Apit { account: a.account_id, token_id: a.token_id, issued_at: odt_secs(a.issued_at), expiry: a.expiry.map(odt_secs), purpose, compact: false },
            present,
        });
    }
    None
}

async fn build_world(seed: u64, wi: u64) -> World {
    let mut r = Rng::for_case(seed ^ 0xC40, wi);
    let (idms, mut delayed, _audit) = setup_idm_test(TestConfiguration::default()).await;
    let now = now_secs();
    let ct = Duration::from_secs(now);
    let issue_ct = Duration::from_secs(now - 3600);
    let flag = r.chance(2, 3);
    let custom_base = r.chance(1, 4);
    let mut notes = vec![];
    let internal = || ident_internal(0).expect("internal identity");

    let g0 = pid(wi, 100);
    let g1 = pid(wi, 101);
    let readers = pid(wi, 102);
    let mut ps: Vec<Principal> = vec![];
    let mk = |name: &str, uuid: Uuid, kind: Kind| Principal {
        name: name.to_string(),
        uuid,
        kind,
        valid_from: None,
        expire: None,
        unix_pw: None,
        needs_upgrade: false,
        member_of: vec![],
        app_pws: vec![],
        exists: true,
        unix_failed: false,
    };
    // persons
    let np = 6u64;
    for i in 0..np {
        let mut p = mk(&format!("c40p{i}"), pid(wi, i), Kind::Person);
        match i {
            2 => p.expire = Some(now - 3600),
            3 => p.valid_from = Some(now + 3600),
            _ => {}
        }
        if r.chance(1, 2) || i == 0 || i == 4 {
            p.member_of.push(g0);
        }
        if r.chance(1, 2) {
            p.member_of.push(g1);
        }
        if i == 1 {
            p.member_of.retain(|g| *g != g0);
        }
        ps.push(p);
    }
    for i in 0..2u64 {
        let mut p = mk(&format!("c40s{i}"), pid(wi, 20 + i), Kind::Service);
        if i == 0 {
            p.member_of.push(readers);
        }
        ps.push(p);
    }
    ps.push(mk("c40g0", g0, Kind::Group));
    ps.push(mk("c40g1", g1, Kind::Group));
    ps.push(mk("c40readers", readers, Kind::Group));
    let apps = vec![
        AppInfo { name: "c40app0".into(), uuid: pid(wi, 40), linked_group: g0 },
        AppInfo { name: "c40app1".into(), uuid: pid(wi, 41), linked_group: g1 },
    ];
    for a in &apps {
        ps.push(mk(&a.name, a.uuid, Kind::App));
    }

    let mut entries = vec![];
    for p in &ps {
        let mut e = match p.kind {
            Kind::Person => {
                let mut e = new_entry(&[EntryClass::Object, EntryClass::Account, EntryClass::Person], &p.name, p.uuid);
                e.add_ava(Attribute::DisplayName, Value::new_utf8s(&format!("C40 {}", p.name)));
                e.add_ava(Attribute::Mail, Value::new_email_address_primary_s(&format!("{}@c40.example.com", p.name)).unwrap());
                if p.name != "c40p5" {
                    e.add_ava(Attribute::Class, EntryClass::PosixAccount.to_value());
                    e.add_ava(Attribute::GidNumber, Value::new_uint32(70000 + (p.uuid.as_u128() & 0xff) as u32));
                }
                if p.name == "c40p0" {
                    e.add_ava(Attribute::PrimaryCredential, Value::new_credential("primary", cred_password(PW_LOGIN, false).expect("cred")));
                }
                if p.name == "c40p4" {
                    e.add_ava(Attribute::UnixPasswordImport, Value::new_utf8s(IMPORT_HASH));
                }
                e
            }
            Kind::Service => {
                let mut e = new_entry(&[EntryClass::Object, EntryClass::Account, EntryClass::ServiceAccount], &p.name, p.uuid);
                e.add_ava(Attribute::DisplayName, Value::new_utf8s(&format!("C40 {}", p.name)));
                e
            }
            Kind::Group => {
                let mut e = new_entry(&[EntryClass::Object, EntryClass::Group], &p.name, p.uuid);
                for m in ps.iter().filter(|m| m.member_of.contains(&p.uuid)) {
                    e.add_ava(Attribute::Member, Value::Refer(m.uuid));
                }
                e
            }
            Kind::App => {
                let a = apps.iter().find(|a| a.uuid == p.uuid).unwrap();
                let mut e = new_entry(&[EntryClass::Object, EntryClass::Account, EntryClass::ServiceAccount, EntryClass::Application], &p.name, p.uuid);
                e.add_ava(Attribute::DisplayName, Value::new_utf8s(&format!("C40 {}", p.name)));
                e.add_ava(Attribute::LinkedGroup, Value::Refer(a.linked_group));
                e
            }
        };
        if let Some(v) = p.valid_from {
            e.add_ava(Attribute::AccountValidFrom, Value::new_datetime_epoch(Duration::from_secs(v)));
        }
        if let Some(v) = p.expire {
            e.add_ava(Attribute::AccountExpire, Value::new_datetime_epoch(Duration::from_secs(v)));
        }
        entries.push(e);
    }
    // a search ACP: members of `readers` read more than anonymous may
    {
        let mut e = new_entry(&[EntryClass::Object, EntryClass::AccessControlProfile, EntryClass::AccessControlSearch, EntryClass::AccessControlReceiverGroup, EntryClass::AccessControlTargetScope], "c40acp", pid(wi, 60));
        e.add_ava(Attribute::Description, Value::new_utf8s("c40 generated"));
        e.add_ava(Attribute::AcpReceiverGroup, Value::Refer(readers));
        e.add_ava(Attribute::AcpTargetScope, Value::JsonFilt(PF::Or(vec![
            PF::Eq("class".into(), "person".into()),
            PF::Eq("class".into(), "group".into()),
            // schema and access-control entries too: the gateway's exclusion becomes observable
            PF::Eq("class".into(), "classtype".into()),
            PF::Eq("class".into(), "attributetype".into()),
            PF::Eq("class".into(), "access_control_profile".into()),
        ])));
        // a second rule without `class`: entries the receiver can name but not classify
        for a in ["class", "name", "uuid", "spn", "displayname", "mail", "memberof", "gidnumber", "account_expire"] {
            e.add_ava(Attribute::AcpSearchAttr, Value::new_iutf8(a));
        }
        entries.push(e);
        let mut e = new_entry(&[EntryClass::Object, EntryClass::AccessControlProfile, EntryClass::AccessControlSearch, EntryClass::AccessControlReceiverGroup, EntryClass::AccessControlTargetScope], "c40acp2", pid(wi, 61));
        e.add_ava(Attribute::Description, Value::new_utf8s("c40 generated: name without class"));
        e.add_ava(Attribute::AcpReceiverGroup, Value::Refer(readers));
        e.add_ava(Attribute::AcpTargetScope, Value::JsonFilt(PF::Eq("class".into(), "application".into())));
        for a in ["name", "uuid", "displayname"] {
            e.add_ava(Attribute::AcpSearchAttr, Value::new_iutf8(a));
        }
        entries.push(e);
    }
    let mut toks: Vec<Tok> = vec![];
    {
        let mut w = idms.proxy_write(ct).await.expect("write txn");
        w.qs_write.internal_create(entries).expect("create world");
        let ml = ModifyList::new_purge_and_set(Attribute::LdapAllowUnixPwBind, Value::Bool(flag));
        w.qs_write.internal_modify_uuid(UUID_DOMAIN_INFO, &ml).expect("flag");
        if custom_base {
            let ml = ModifyList::new_purge_and_set(Attribute::DomainLdapBasedn, Value::new_iutf8("o=c40,dc=verif"));
            w.qs_write.internal_modify_uuid(UUID_DOMAIN_INFO, &ml).expect("basedn");
        }
        w.commit().expect("commit world");
    }
    // unix passwords
    for i in 0..ps.len() {
        if ps[i].kind != Kind::Person || ps[i].name == "c40p5" {
            continue;
        }
        if ps[i].name == "c40p4" {
            ps[i].unix_pw = Some(IMPORT_PW.into());
            ps[i].needs_upgrade = true;
            continue;
        }
        if ps[i].name == "c40p1" && r.chance(1, 3) {
            continue; // posix account without a unix password
        }
        let pw = format!("c40-unix-{}-{}-Zoh6ahvi", wi, ps[i].name);
        let mut w = idms.proxy_write(ct).await.expect("write txn");
        let ev = UnixPasswordChangeEvent::from_parts(internal(), ps[i].uuid, pw.clone()).expect("event");
        match w.set_unix_account_password(&ev) {
            Ok(()) => {
                w.commit().expect("commit unix pw");
                ps[i].unix_pw = Some(pw);
            }
            Err(e) => notes.push(format!("unix pw for {} refused: {e:?}", ps[i].name)),
        }
    }
    // application passwords: p0 (member of g0) and p1 (never a member of g0) for app0; p1 for app1
    for (pn, ai) in [("c40p0", 0usize), ("c40p1", 0), ("c40p1", 1), ("c40p4", 0)] {
        let pi = ps.iter().position(|p| p.name == pn).unwrap();
        let mut w = idms.proxy_write(ct).await.expect("write txn");
        let ev = GenerateApplicationPasswordEvent::new_internal(ps[pi].uuid, apps[ai].uuid, format!("c40-{ai}"));
        match w.generate_application_password(&ev) {
            Ok((clear, _)) => {
                w.commit().expect("commit app pw");
                ps[pi].app_pws.push((apps[ai].uuid, clear));
            }
            Err(e) => notes.push(format!("app pw for {pn}/{ai} refused: {e:?}")),
        }
    }
    // api tokens (issued an hour ago: outside the grace window)
    let s0 = ps.iter().find(|p| p.name == "c40s0").unwrap().uuid;
    let s1 = ps.iter().find(|p| p.name == "c40s1").unwrap().uuid;
    let specs: [(&str, Uuid, bool, Option<u64>, bool, bool); 7] = [
        ("s0-ro", s0, false, None, false, false),
        ("s0-rw", s0, true, Some(now + 7200), false, false),
        ("s0-expired", s0, true, Some(now - 1800), false, false),
        ("s0-compact", s0, false, None, true, false),
        ("s1-rw", s1, true, None, false, false),
        ("s1-destroyed", s1, true, None, false, true),
        ("s1-compact-destroyed", s1, false, None, true, true),
    ];
    for (label, target, rw, expiry, compact, destroy) in specs {
        let mut w = idms.proxy_write(ct).await.expect("write txn");
        let gte = GenerateApiTokenEvent { ident: internal(), target, label: label.into(), expiry: expiry.map(odt), read_write: rw, compact };
        let jws = match w.service_account_generate_api_token(&gte, issue_ct) {
            Ok(j) => j,
            Err(e) => {
                notes.push(format!("api token {label} refused: {e:?}"));
                continue;
            }
        };
        w.commit().expect("commit token");
        let secret = jws.to_string();
        let tok = if compact {
            let payload = secret.split('.').nth(1).and_then(b64_dec).unwrap_or_default();
            let token_id = Uuid::from_slice(&payload).expect("compact token payload");
            Tok {
                label: label.into(),
                secret,
                kind: TokKind::Apit { account: target, token_id, issued_at: now - 3600, expiry, purpose: if rw { "rw" } else { "ro" }, compact: true },
                present: true,
            }
        } else {
            decode_tok(label, &secret, true).expect("legacy api token payload")
        };
        toks.push(tok);
        if destroy {
            let tid = match &toks.last().unwrap().kind {
                TokKind::Apit { token_id, .. } => *token_id,
                _ => unreachable!(),
            };
            let mut w = idms.proxy_write(ct).await.expect("write txn");
            w.service_account_destroy_api_token(&DestroyApiTokenEvent { ident: internal(), target, token_id: tid }).expect("destroy");
            w.commit().expect("commit destroy");
            toks.last_mut().unwrap().present = false;
        }
    }
    // UATs: a privileged login of p0 and an anonymous login
    for (label, name, anon) in [("uat-p0-rw", "c40p0", false), ("uat-anon", "anonymous", true)] {
        match login(&idms, name, anon, !anon, ct).await {
            Some(secret) => match decode_tok(label, &secret, true) {
                Some(t) => toks.push(t),
                None => notes.push(format!("{label}: payload is not a UAT")),
            },
            None => notes.push(format!("{label}: login failed")),
        }
    }
    // record the sessions the logins queued (AuthSessionRecord), nothing else is pending
    {
        let das = drain(&mut delayed).await;
        if !das.is_empty() {
            let mut w = idms.proxy_write(ct).await.expect("write txn");
            for da in &das {
                let _ = w.process_delayedaction(da, ct);
            }
            w.commit().expect("commit delayed");
        }
    }
    let ldaps = LdapServer::new(&idms).await.expect("ldap server");
    let basedn = if custom_base { "o=c40,dc=verif".to_string() } else { "dc=example,dc=com".to_string() };
    let mut world = World {
        idms,
        delayed,
        ldaps,
        basedn,
        flag,
        ps,
        apps,
        toks,
        uuids: BTreeMap::new(),
        secrets: BTreeMap::new(),
        dn_of: BTreeMap::new(),
        spn_of: BTreeMap::new(),
        hidden_class: BTreeSet::new(),
        notes,
    };
    world.atom(UUID_ANONYMOUS);
    refresh_dns(&mut world).await;
    world
}

/// DN / spn of every live entry (the server's own `uuid_to_rdn`), and which entries are schema or
/// access-control entries.
async fn refresh_dns(w: &mut World) {
    let mut rd = w.idms.proxy_read().await.expect("read txn");
    let all = rd.qs_read.internal_search(Filter::new_ignore_hidden(f_pres(Attribute::Class))).expect("dump");
    w.dn_of.clear();
    w.spn_of.clear();
    w.hidden_class.clear();
    for e in &all {
        let u = e.get_uuid();
        if let Ok(rdn) = rd.qs_read.uuid_to_rdn(u) {
            w.dn_of.insert(format!("{rdn},{}", w.basedn), u);
        }
        if let Some(spn) = e.get_ava_single_proto_string(Attribute::Spn) {
            w.spn_of.insert(spn, u);
        }
        let classes: Vec<String> = e.get_ava_set(Attribute::Class).map(|v| v.to_proto_string_clone_iter().collect()).unwrap_or_default();
        if classes.iter().any(|c| c == "classtype" || c == "attributetype" || c == "access_control_profile") {
            w.hidden_class.insert(u);
        }
    }
}

// ------------------------------------------------------------------------------------------------
// requests
// ------------------------------------------------------------------------------------------------

#[derive(Clone, Debug)]
enum F {
    Eq(String, String),
    Pres(String),
    And(Vec<F>),
    Or(Vec<F>),
    Not(Box<F>),
}

impl F {
    fn ldap(&self) -> LdapFilter {
        match self {
            F::Eq(a, v) => LdapFilter::Equality(a.clone(), v.clone()),
            F::Pres(a) => LdapFilter::Present(a.clone()),
            F::And(l) => LdapFilter::And(l.iter().map(|f| f.ldap()).collect()),
            F::Or(l) => LdapFilter::Or(l.iter().map(|f| f.ldap()).collect()),
            F::Not(f) => LdapFilter::Not(Box::new(f.ldap())),
        }
    }
    fn proto(&self) -> PF {
        match self {
            F::Eq(a, v) => PF::Eq(a.clone(), v.clone()),
            F::Pres(a) => PF::Pres(a.clone()),
            F::And(l) => PF::And(l.iter().map(|f| f.proto()).collect()),
            F::Or(l) => PF::Or(l.iter().map(|f| f.proto()).collect()),
            F::Not(f) => PF::AndNot(Box::new(f.proto())),
        }
    }
    fn json(&self) -> J {
        match self {
            F::Eq(a, v) => json!({"eq": [a, v]}),
            F::Pres(a) => json!({"pres": a}),
            F::And(l) => json!({"and": l.iter().map(|f| f.json()).collect::<Vec<_>>()}),
            F::Or(l) => json!({"or": l.iter().map(|f| f.json()).collect::<Vec<_>>()}),
            F::Not(f) => json!({"not": f.json()}),
        }
    }
}

#[derive(Clone, Debug)]
enum Req {
    Bind { dn: String, pw: String, what: String },
    Search { base: String, scope: u8, filter: F, attrs: Vec<String>, bad_filter: bool },
    Compare { dn: String, atype: String, val: String },
    Other(&'static str),
    // changes made outside LDAP between two messages
    Flag(bool),
    Expire(usize),
    Delete(usize),
    Destroy(usize),
}

impl Req {
    fn json(&self) -> J {
        match self {
            Req::Bind { dn, pw, what } => json!({"bind": {"dn": dn, "pw": if pw.len() > 40 { format!("<{what}>") } else { pw.clone() }, "what": what}}),
            Req::Search { base, scope, filter, attrs, .. } => json!({"search": {"base": base, "scope": scope, "filter": filter.json(), "attrs": attrs}}),
            Req::Compare { dn, atype, val } => json!({"compare": {"dn": dn, "atype": atype, "val": val}}),
            Req::Other(o) => json!({"op": o}),
            Req::Flag(b) => json!({"outside": {"flag": b}}),
            Req::Expire(i) => json!({"outside": {"expire": i}}),
            Req::Delete(i) => json!({"outside": {"delete": i}}),
            Req::Destroy(i) => json!({"outside": {"destroy-token": i}}),
        }
    }
    fn is_update(&self) -> bool {
        matches!(self, Req::Other("modifyRequest" | "addRequest" | "delRequest" | "modifyDNRequest" | "extendedOther"))
    }
}

const OTHER_OPS: [&str; 18] = [
    "modifyRequest", "addRequest", "delRequest", "modifyDNRequest", "extendedOther", "modifyRequest", "addRequest",
    "delRequest", "bindSasl", "abandonRequest", "bindResponse", "searchResultEntry", "searchResultDone", "modifyResponse",
    "compareResult", "extendedResponse", "intermediateResponse", "searchResultReference",
];

fn wire(req: &Req, w: &World, msgid: i32) -> Option<LdapMsg> {
    let victim = format!("spn=c40p0@example.com,{}", w.basedn);
    let res = || LdapResult { code: LdapResultCode::Success, matcheddn: String::new(), message: String::new(), referral: vec![] };
    let op = match req {
        Req::Bind { dn, pw, .. } => LdapOp::BindRequest(LdapBindRequest { dn: dn.clone(), cred: LdapBindCred::Simple(pw.clone()) }),
        Req::Search { base, scope, filter, attrs, .. } => LdapOp::SearchRequest(LdapSearchRequest {
            base: base.clone(),
            scope: match scope {
                0 => LdapSearchScope::Base,
                1 => LdapSearchScope::OneLevel,
                2 => LdapSearchScope::Subtree,
                _ => LdapSearchScope::Children,
            },
            aliases: LdapDerefAliases::Never,
            sizelimit: 0,
            timelimit: 0,
            typesonly: false,
            filter: filter.ldap(),
            attrs: attrs.clone(),
        }),
        Req::Compare { dn, atype, val } => LdapOp::CompareRequest(LdapCompareRequest { dn: dn.clone(), atype: atype.clone(), val: val.as_bytes().to_vec() }),
        Req::Other(o) => match *o {
            "unbindRequest" => LdapOp::UnbindRequest,
            "extendedWhoami" => LdapOp::ExtendedRequest(LdapExtendedRequest { name: OID_WHOAMI.into(), value: None }),
            "modifyRequest" => LdapOp::ModifyRequest(LdapModifyRequest {
                dn: victim.clone(),
                changes: vec![LdapModify {
                    operation: LdapModifyType::Replace,
                    modification: LdapPartialAttribute { atype: "displayname".into(), vals: vec![b"pwned".to_vec()] },
                }],
            }),
            "addRequest" => LdapOp::AddRequest(LdapAddRequest {
                dn: format!("name=c40added,{}", w.basedn),
                attributes: vec![
                    LdapAttribute { atype: "class".into(), vals: vec![b"group".to_vec()] },
                    LdapAttribute { atype: "name".into(), vals: vec![b"c40added".to_vec()] },
                ],
            }),
            "delRequest" => LdapOp::DelRequest(victim.clone()),
            "modifyDNRequest" => LdapOp::ModifyDNRequest(LdapModifyDNRequest { dn: victim.clone(), newrdn: "name=c40renamed".into(), deleteoldrdn: true, new_superior: None }),
            // RFC 3062 password modify
            "extendedOther" => LdapOp::ExtendedRequest(LdapExtendedRequest { name: "1.3.6.1.4.1.4203.1.11.1".into(), value: Some(b"0\x00".to_vec()) }),
            "bindSasl" => LdapOp::BindRequest(LdapBindRequest { dn: "c40p0".into(), cred: LdapBindCred::SASL(SaslCredentials { mechanism: "PLAIN".into(), credentials: b"\0c40p0\0x".to_vec() }) }),
            "abandonRequest" => LdapOp::AbandonRequest(1),
            "bindResponse" => LdapOp::BindResponse(LdapBindResponse { res: res(), saslcreds: None }),
            "searchResultEntry" => LdapOp::SearchResultEntry(LdapSearchResultEntry { dn: victim.clone(), attributes: vec![] }),
            "searchResultDone" => LdapOp::SearchResultDone(res()),
            "searchResultReference" => LdapOp::SearchResultReference(LdapSearchResultReference { uris: vec!["ldap://x".into()] }),
            "modifyResponse" => LdapOp::ModifyResponse(res()),
            "compareResult" => LdapOp::CompareResult(res()),
            "extendedResponse" => LdapOp::ExtendedResponse(LdapExtendedResponse { res: res(), name: None, value: None }),
            "intermediateResponse" => LdapOp::IntermediateResponse(LdapIntermediateResponse::SyncInfoNewCookie { cookie: vec![1] }),
            other => panic!("unknown wire op {other}"),
        },
        _ => return None,
    };
    Some(LdapMsg { msgid, op, ctrl: vec![] })
}

fn gen_filter(r: &mut Rng, w: &World) -> (F, bool) {
    let names: Vec<String> = w.ps.iter().map(|p| p.name.clone()).collect();
    let leaf = |r: &mut Rng| -> F {
        match r.below(7) {
            0 => F::Eq("class".into(), r.pick(&["person", "group", "account", "person", "group", "service_account", "application", "posixaccount"]).to_string()),
            1 => F::Eq("name".into(), r.pick(&names).clone()),
            2 => F::Pres(r.pick(&["mail", "displayname", "gidnumber", "member", "memberof"]).to_string()),
            3 => F::Eq("memberof".into(), r.pick(&["c40g0", "c40g1", "c40readers"]).to_string()),
            4 => F::Eq("uuid".into(), w.ps[r.below(w.ps.len() as u64) as usize].uuid.to_string()),
            5 => F::Eq("class".into(), r.pick(&["classtype", "attributetype", "access_control_profile", "object"]).to_string()),
            _ => F::Eq("name".into(), r.pick(&["anonymous", "admin", "idm_admins", "domain_info"]).to_string()),
        }
    };
    if r.chance(1, 14) {
        // attribute the schema does not know
        return (F::Eq("c40nosuchattr".into(), "x".into()), true);
    }
    let f = match r.below(6) {
        0 | 1 => leaf(r),
        2 => F::Or(vec![leaf(r), leaf(r)]),
        3 => F::And(vec![leaf(r), leaf(r)]),
        4 => F::And(vec![leaf(r), F::Not(Box::new(leaf(r)))]),
        _ => F::Pres("class".into()),
    };
    (f, false)
}

fn gen_bind(r: &mut Rng, w: &World) -> Req {
    let base = w.basedn.clone();
    // who
    // mostly persons (the principals that can hold POSIX / application passwords)
    let persons: Vec<&Principal> = w.ps.iter().filter(|p| p.kind == Kind::Person).collect();
    let accounts: Vec<&Principal> = if r.chance(3, 4) && !persons.is_empty() { persons } else { w.ps.iter().collect() };
    let p = accounts[r.below(accounts.len() as u64) as usize].clone();
    let spn = format!("{}@example.com", p.name);
    let kind = r.below(20);
    if kind < 2 {
        return Req::Bind { dn: String::new(), pw: String::new(), what: "anonymous".into() };
    }
    if kind < 7 && !w.toks.is_empty() {
        let t = &w.toks[r.below(w.toks.len() as u64) as usize];
        let dn = match r.below(4) {
            0 => String::new(),
            1 | 2 => "dn=token".to_string(),
            // a token offered as the password of a named account
            _ => p.name.clone(),
        };
        let pw = if r.chance(1, 10) { format!("{}x", t.secret) } else { t.secret.clone() };
        return Req::Bind { dn, pw, what: format!("token:{}", t.label) };
    }
    if kind == 7 {
        let dn = r.pick(&[",,", "a=b=c", "=x", "name=", "name=c40p0,ou=people,dc=example,dc=com", "name=c40p0,,dc=example,dc=com", "c40p0,app=", "c40p0,app=c40app0,app=c40app1", "nosuchuser", "name=nosuchuser,dc=example,dc=com", "00000000-0000-4000-8000-00000000c400", "anonymous", "dn=token,dc=example,dc=com"]).to_string();
        let pw = r.pick(&["", "x", "anything"]).to_string();
        return Req::Bind { dn, pw, what: "malformed".into() };
    }
    let upper = r.chance(1, 8);
    let nm = if upper { p.name.to_uppercase() } else { p.name.clone() };
    let rdn = match r.below(7) {
        0 => nm.clone(),
        1 => spn.clone(),
        2 => p.uuid.to_string(),
        3 => format!("name={nm}"),
        4 => format!("spn={spn}"),
        5 => format!("uuid={}", p.uuid),
        _ => format!("cn={nm}"),
    };
    let app = if kind >= 14 {
        Some(if r.chance(1, 8) {
            "c40nosuchapp".to_string()
        } else if !p.app_pws.is_empty() && r.chance(2, 3) {
            // an application this person holds a password for (member of its group or not)
            let au = p.app_pws[r.below(p.app_pws.len() as u64) as usize].0;
            w.apps.iter().find(|a| a.uuid == au).map(|a| a.name.clone()).unwrap_or_else(|| "c40app0".into())
        } else {
            w.apps[r.below(w.apps.len() as u64) as usize].name.clone()
        })
    } else {
        None
    };
    let with_base = r.chance(1, 2);
    let mut dn = rdn;
    if let Some(a) = &app {
        dn = format!("{dn},app={a}");
    }
    if with_base {
        dn = format!("{dn},{}", if r.chance(1, 10) { "dc=wrong,dc=base".to_string() } else { base });
    }
    // secret
    let other = &w.ps[r.below(w.ps.len() as u64) as usize];
    let (pw, what) = match r.below(10) {
        0..=4 => match (&app, &p.unix_pw) {
            (Some(a), _) => {
                let au = w.apps.iter().find(|x| &x.name == a).map(|x| x.uuid);
                match p.app_pws.iter().find(|(x, _)| Some(*x) == au).or(p.app_pws.first()) {
                    Some((_, pw)) => (pw.clone(), "app-password".to_string()),
                    None => ("c40-no-app-password".to_string(), "app-none".to_string()),
                }
            }
            (None, Some(pw)) => (pw.clone(), "unix-right".to_string()),
            (None, None) => ("c40-no-unix-password".to_string(), "unix-none".to_string()),
        },
        5 => ("c40-wrong-password".to_string(), "wrong".to_string()),
        6 => (String::new(), "empty".to_string()),
        7 => (other.unix_pw.clone().unwrap_or_else(|| "c40-x".into()), "other-users-unix".to_string()),
        8 => (p.app_pws.first().map(|x| x.1.clone()).unwrap_or_else(|| "c40-y".into()), "own-app-password".to_string()),
        _ => (p.unix_pw.clone().unwrap_or_else(|| "c40-z".into()), "own-unix".to_string()),
    };
    Req::Bind { dn, pw, what }
}

fn gen_req(r: &mut Rng, w: &World, budget_bias: bool, bound: bool) -> Req {
    let base = w.basedn.clone();
    // a bound connection mostly reads
    let k = if bound && r.chance(2, 5) { 34 + r.below(40) } else { r.below(100) };
    if k < 34 {
        return gen_bind(r, w);
    }
    if k < 66 {
        let p = &w.ps[r.below(w.ps.len() as u64) as usize];
        let b = match r.below(12) {
            0..=5 => base.clone(),
            6 => String::new(),
            7 => format!("name={},{}", p.name, base),
            8 => format!("spn={}@example.com,{}", p.name, base),
            9 => format!("app=c40app0,{}", base),
            10 => format!("name={},app=c40app0,{}", p.name, base),
            _ => r.pick(&["dc=wrong,dc=base", "name=x,,", "ou=people,ou=more,dc=example,dc=com", "name=a=b,dc=example,dc=com"]).to_string(),
        };
        let scope = *r.pick(&[0u8, 1, 2, 2, 2, 3]);
        let (filter, bad) = gen_filter(r, w);
        let attrs: Vec<String> = match r.below(9) {
            0..=3 => vec![],
            4 => vec!["*".into()],
            5 => vec!["name".into(), "mail".into(), "class".into(), "uuid".into()],
            6 => vec!["1.1".into()],
            7 => vec!["displayname".into(), "memberof".into(), "gidnumber".into(), "spn".into()],
            _ => (0..r.range(46, 50)).map(|i| format!("attr{i}")).collect(),
        };
        return Req::Search { base: b, scope, filter, attrs, bad_filter: bad };
    }
    if k < 74 {
        let p = &w.ps[r.below(w.ps.len() as u64) as usize];
        let dn = match r.below(5) {
            0..=2 => format!("name={},{}", p.name, base),
            3 => base.clone(),
            _ => "name=x,dc=wrong".to_string(),
        };
        let (atype, val) = match r.below(3) {
            0 => ("class".to_string(), r.pick(&["person", "group", "account"]).to_string()),
            1 => ("name".to_string(), p.name.clone()),
            _ => ("displayname".to_string(), format!("C40 {}", p.name)),
        };
        return Req::Compare { dn, atype, val };
    }
    if k < 88 || (budget_bias && k < 92) {
        return Req::Other(OTHER_OPS[r.below(OTHER_OPS.len() as u64) as usize]);
    }
    if k < 92 {
        return Req::Other("extendedWhoami");
    }
    if k < 94 {
        return Req::Other("unbindRequest");
    }
    match r.below(5) {
        0 | 1 => Req::Flag(r.chance(1, 2)),
        2 => Req::Expire(r.below(w.ps.len() as u64) as usize),
        3 => Req::Delete(r.below(w.ps.len() as u64) as usize),
        _ => Req::Destroy(r.below(w.toks.len().max(1) as u64) as usize),
    }
}

// ------------------------------------------------------------------------------------------------
// the wire layer around the real LdapServer::do_op
// ------------------------------------------------------------------------------------------------

#[derive(Default)]
struct ConnState {
    session: Option<LdapBoundToken>,
    closed: bool,
}

type Row = (String, Vec<(String, Vec<Vec<u8>>)>);

struct RealOut {
    outcome: String,
    rows: Option<Vec<Row>>,
    cmp: Option<&'static str>,
    /// the token the request's handler used
    used: Option<LdapBoundToken>,
    bound: Option<LdapBoundToken>,
    success_answer: bool,
}

fn code_name(c: &LdapResultCode) -> String {
    let s = format!("{c:?}");
    let mut ch = s.chars();
    match ch.next() {
        Some(f) => format!("{}{}", f.to_lowercase(), ch.as_str()),
        None => s,
    }
}

fn err_name(msg: &str) -> String {
    let head: String = msg.chars().take_while(|c| c.is_alphanumeric()).collect();
    match head.as_str() {
        "" => "-".into(),
        "MissingClass" | "MissingAttribute" | "InvalidAccountState" | "InvalidEntryState" => "NotAnAccount".into(),
        h => h.to_string(),
    }
}

fn show_session(w: &mut World, s: &LdapSession) -> String {
    match s {
        LdapSession::UnixBind(u) => format!("unix({})", w.atom(*u)),
        LdapSession::UserAuthToken(t) => format!("uat({},{})", w.atom(t.uuid), w.atom(t.session_id)),
        LdapSession::ApiToken(t) => format!("apit({},{})", w.atom(t.account_id), w.atom(t.token_id)),
        LdapSession::ApplicationPasswordBind(a, u) => format!("app({},{})", w.atom(*a), w.atom(*u)),
    }
}

fn show_tok(w: &mut World, t: &Option<LdapBoundToken>) -> String {
    match t {
        None => "-".into(),
        Some(t) => {
            let owner = w.spn_of.get(&t.spn).copied();
            let o = match owner {
                Some(u) => w.atom(u).to_string(),
                None => format!("?{}", t.spn),
            };
            format!("{o}:{}", show_session(w, &t.effective_session))
        }
    }
}

/// `handle_ldaprequest` + one iteration of `client_process` (server/core), transcribed.
async fn real_request(w: &mut World, cs: &mut ConnState, msg: LdapMsg) -> RealOut {
    let before = cs.session.clone();
    let ip = std::net::IpAddr::V4(std::net::Ipv4Addr::new(127, 0, 0, 1));
    let eventid = Uuid::from_u128(0xC40);
    let state = match ServerOps::try_from(msg) {
        Ok(op) => match w.ldaps.do_op(&w.idms, op, before.clone(), ip, eventid).await {
            Ok(s) => s,
            Err(_) => LdapResponseState::Disconnect(ldap3_proto::simple::DisconnectionNotice::gen_response(LdapResultCode::Other, "Internal Server Error")),
        },
        Err(_) => LdapResponseState::Disconnect(ldap3_proto::simple::DisconnectionNotice::gen_response(LdapResultCode::ProtocolError, "Invalid Request")),
    };
    let mut out = RealOut { outcome: String::new(), rows: None, cmp: None, used: before.clone(), bound: None, success_answer: false };
    let multipart = |w: &mut World, out: &mut RealOut, msgs: Vec<LdapMsg>, imp: Option<LdapBoundToken>| {
        let imp_s = show_tok(w, &imp);
        let mut rows: Vec<Row> = vec![];
        let mut kind = "ok".to_string();
        for m in msgs {
            match m.op {
                LdapOp::SearchResultEntry(e) => {
                    if e.dn.is_empty() {
                        kind = "rootdse".into();
                    }
                    let mut attrs: Vec<(String, Vec<Vec<u8>>)> = e.attributes.into_iter().map(|a| (a.atype.to_lowercase(), a.vals)).collect();
                    attrs.sort();
                    rows.push((e.dn, attrs));
                }
                LdapOp::SearchResultDone(r) => {
                    if r.code == LdapResultCode::Success {
                        out.success_answer = true;
                    } else {
                        kind = format!("respond:{}:{}", code_name(&r.code), err_name(&r.message));
                    }
                }
                LdapOp::CompareResult(r) => {
                    out.cmp = Some(match r.code {
                        LdapResultCode::CompareTrue => "true",
                        LdapResultCode::CompareFalse => "false",
                        LdapResultCode::NoSuchObject => "nosuchobject",
                        _ => "error",
                    });
                    kind = "cmp".into();
                }
                other => kind = format!("unexpected:{other:?}"),
            }
        }
        rows.sort();
        if kind == "ok" || kind == "rootdse" {
            out.rows = Some(rows);
        }
        out.outcome = if kind.starts_with("respond") || kind.starts_with("unexpected") { kind } else { format!("{kind}:{imp_s}") };
    };
    match state {
        LdapResponseState::Unbind => {
            cs.closed = true;
            out.outcome = "unbind".into();
        }
        LdapResponseState::Disconnect(m) => {
            cs.closed = true;
            out.outcome = match m.op {
                LdapOp::ExtendedResponse(r) => format!("disconnect:{}", code_name(&r.res.code)),
                other => format!("disconnect:?{other:?}"),
            };
        }
        LdapResponseState::Bind(t, m) => {
            if let LdapOp::BindResponse(r) = &m.op {
                out.success_answer = r.res.code == LdapResultCode::Success;
            }
            cs.session = Some(t.clone());
            out.bound = Some(t.clone());
            out.outcome = format!("bound:{}", show_tok(w, &Some(t)));
        }
        LdapResponseState::Respond(m) => {
            out.outcome = match m.op {
                LdapOp::BindResponse(r) => {
                    let e = err_name(&r.res.message);
                    // `Account::try_from_entry_*` on something that is not an account fails in several ways
                    if e == "NotAnAccount" || e == "EmptyFilter" {
                        "respond:other:NotAnAccount".to_string()
                    } else {
                        format!("respond:{}:{}", code_name(&r.res.code), if r.res.code == LdapResultCode::InvalidCredentials { "-".to_string() } else { e })
                    }
                }
                LdapOp::SearchResultDone(r) | LdapOp::CompareResult(r) => {
                    format!("respond:{}:{}", code_name(&r.code), if r.code == LdapResultCode::InvalidCredentials { "-".to_string() } else { err_name(&r.message) })
                }
                LdapOp::ExtendedResponse(r) => {
                    if r.res.code == LdapResultCode::Success {
                        out.success_answer = true;
                        let v = String::from_utf8_lossy(&r.value.unwrap_or_default()).to_string();
                        let spn = v.strip_prefix("u: ").unwrap_or(&v).to_string();
                        match w.spn_of.get(&spn).copied() {
                            Some(u) => format!("whoami:{}", w.atom(u)),
                            None => format!("whoami:?{spn}"),
                        }
                    } else {
                        format!("respond:{}:-", code_name(&r.res.code))
                    }
                }
                other => format!("respond:?{other:?}"),
            };
        }
        LdapResponseState::MultiPartResponse(v) => multipart(w, &mut out, v, None),
        LdapResponseState::BindMultiPartResponse(t, v) => {
            cs.session = Some(t.clone());
            out.used = Some(t.clone());
            out.bound = Some(t.clone());
            multipart(w, &mut out, v, Some(t));
        }
    }
    out
}

// ------------------------------------------------------------------------------------------------
// model side
// ------------------------------------------------------------------------------------------------

fn opt(v: Option<u64>) -> String {
    v.map(|x| x.to_string()).unwrap_or_else(|| "-".into())
}

fn acct_line(w: &mut World, i: usize) -> String {
    let p = w.ps[i].clone();
    let u = w.atom(p.uuid);
    let up = match &p.unix_pw {
        Some(s) => w.secret(s).to_string(),
        None => "-".into(),
    };
    let mo: Vec<String> = p.member_of.iter().map(|g| w.atom(*g).to_string()).collect();
    let ap: Vec<String> = p.app_pws.iter().map(|(a, s)| format!("{}:{}", w.atom(*a), w.secret(s))).collect();
    format!(
        "acct {u} {} {} {} {up} {} {} {}",
        if p.kind == Kind::Group { 0 } else { 1 },
        opt(p.valid_from),
        opt(p.expire),
        if p.needs_upgrade { 1 } else { 0 },
        if mo.is_empty() { "-".into() } else { mo.join(",") },
        if ap.is_empty() { "-".into() } else { ap.join(",") }
    )
}

fn tok_lines(w: &mut World) -> Vec<String> {
    let mut lines = vec![];
    let toks = w.toks.clone();
    let mut apisess = vec![];
    let mut uatvalid = vec![];
    for t in &toks {
        let pw = w.secret(&t.secret);
        match &t.kind {
            TokKind::Uat { account, session, expiry, rw_until } => {
                let s = w.atom(*session);
                uatvalid.push(s.to_string());
                let pu = match rw_until {
                    None => "ro".to_string(),
                    Some(x) => format!("rw:{}", opt(*x)),
                };
                lines.push(format!("tok {pw} uat {} {s} {} {pu}", w.atom(*account), opt(*expiry)));
            }
            TokKind::Apit { account, token_id, issued_at, expiry, purpose, compact } => {
                let tid = w.atom(*token_id);
                if t.present {
                    apisess.push(tid.to_string());
                }
                if *compact && !t.present {
                    // a compact token is looked up by its session: gone ⇒ not a token any more
                    lines.push(format!("rmtok {pw}"));
                } else {
                    lines.push(format!("tok {pw} apit {} {tid} {issued_at} {} {purpose}", w.atom(*account), opt(*expiry)));
                }
            }
        }
    }
    lines.push(format!("apisess {}", if apisess.is_empty() { "-".into() } else { apisess.join(",") }));
    lines.push(format!("uatvalid {}", if uatvalid.is_empty() { "-".into() } else { uatvalid.join(",") }));
    lines
}

fn push_world(w: &mut World, drv: &mut Driver) {
    let mut lines = vec![format!("world {} {} 0 48 {}", now_secs(), if w.flag { 1 } else { 0 }, enc(&w.basedn))];
    lines.push("acct 0 1 - - - 0 - -".into());
    for n in ["anonymous", "anonymous@example.com", "00000000-0000-0000-0000-ffffffffffff"] {
        lines.push(format!("name {} 0", enc(n)));
    }
    let ghost = Uuid::from_u128(0x00000000_0000_4000_8000_00000000c400);
    let g = w.atom(ghost);
    lines.push(format!("name {} {g}", enc(&ghost.to_string())));
    for i in 0..w.ps.len() {
        let p = w.ps[i].clone();
        let u = w.atom(p.uuid);
        // a uuid-shaped string resolves to itself whether or not the entry exists
        lines.push(format!("name {} {u}", enc(&p.uuid.to_string())));
        if p.exists {
            lines.push(format!("name {} {u}", enc(&p.name)));
            lines.push(format!("name {} {u}", enc(&format!("{}@example.com", p.name))));
            lines.push(acct_line(w, i));
        }
    }
    for a in w.apps.clone() {
        if w.p(a.uuid).map(|p| p.exists).unwrap_or(false) {
            lines.push(format!("app {} {} {}", enc(&a.name), w.atom(a.uuid), w.atom(a.linked_group)));
        }
    }
    lines.extend(tok_lines(w));
    for (l, r) in lines.iter().zip(drv.ask_batch(&lines)) {
        assert_eq!(r, "ok", "driver refused `{l}`");
    }
}

/// The model's reply, coarsened to what the implementation's answer shows.
fn canon_model(reply: &str) -> String {
    let mut parts: Vec<String> = reply.split(' ').map(|s| s.to_string()).collect();
    if let Some(o) = parts.first_mut() {
        let f: Vec<&str> = o.split(':').collect();
        *o = match f[0] {
            "emptyok" => format!("ok:{}", f[1..].join(":")),
            "query" => format!("ok:{}", f[4..].join(":")),
            "compare" => format!("cmp:{}", f[3..].join(":")),
            "respond" if f[1] == "constraintViolation" => "respond:constraintViolation:-".into(),
            _ => o.clone(),
        };
    }
    parts.join(" ")
}

// ------------------------------------------------------------------------------------------------
// oracle helpers (from the property text; no model involved)
// ------------------------------------------------------------------------------------------------

#[derive(Clone, Debug, PartialEq)]
struct Expected {
    entry: Uuid,
    scope: &'static str,
}

fn valid_now(p: &Principal, now: u64) -> bool {
    p.exists && p.valid_from.map(|v| v <= now).unwrap_or(true) && p.expire.map(|e| now <= e).unwrap_or(true)
}

/// The identity the property prescribes for a session: anonymous / read-only for every password
/// bind, the token's own account and scope for a token bind (looked up in the harness's books by
/// token id, not read from the session).
fn prescribed(w: &World, s: &LdapSession, now: u64) -> Option<Expected> {
    match s {
        LdapSession::UnixBind(_) | LdapSession::ApplicationPasswordBind(_, _) => Some(Expected { entry: UUID_ANONYMOUS, scope: "ro" }),
        LdapSession::ApiToken(t) => w.toks.iter().find_map(|k| match &k.kind {
            TokKind::Apit { account, token_id, purpose, .. } if *token_id == t.token_id => Some(Expected { entry: *account, scope: purpose }),
            _ => None,
        }),
        LdapSession::UserAuthToken(t) => w.toks.iter().find_map(|k| match &k.kind {
            TokKind::Uat { account, session, rw_until, .. } if *session == t.session_id => Some(Expected {
                entry: *account,
                scope: match rw_until {
                    Some(Some(x)) if now < *x => "rw",
                    _ => "ro",
                },
            }),
            _ => None,
        }),
    }
}

fn scope_name(s: AccessScope) -> &'static str {
    match s {
        AccessScope::ReadOnly => "ro",
        AccessScope::ReadWrite => "rw",
        AccessScope::Synchronise => "sync",
    }
}

/// Was this accepted bind justified by the credentials presented?  (Property text: password binds
/// need the right POSIX password and the flag, application binds the application's password and
/// membership of its linked group, token binds a live token.)
fn bind_justified(w: &World, dn: &str, pw: &str, t: &LdapBoundToken, now: u64) -> Result<(), String> {
    match &t.effective_session {
        LdapSession::UnixBind(u) | LdapSession::ApplicationPasswordBind(_, u) => {
            if *u == UUID_ANONYMOUS {
                return Ok(());
            }
            let p = w.p(*u).ok_or_else(|| format!("bound as unknown entry {u}"))?;
            if !valid_now(p, now) {
                return Err(format!("{} is not a valid account now", p.name));
            }
            let app = dn.split(',').find_map(|seg| seg.strip_prefix("app="));
            match app {
                None => {
                    if !w.flag {
                        return Err("POSIX password bind accepted although the domain disables it".into());
                    }
                    if p.unix_pw.as_deref() != Some(pw) {
                        return Err(format!("secret is not {}'s POSIX password", p.name));
                    }
                    Ok(())
                }
                Some(an) => {
                    let a = w.apps.iter().find(|a| a.name == an).ok_or_else(|| format!("unknown application {an}"))?;
                    if !p.member_of.contains(&a.linked_group) {
                        return Err(format!("{} is not a member of {an}'s linked group", p.name));
                    }
                    if !p.app_pws.iter().any(|(x, s)| *x == a.uuid && s == pw) {
                        return Err(format!("secret is not an application password of {} for {an}", p.name));
                    }
                    Ok(())
                }
            }
        }
        LdapSession::ApiToken(a) => {
            let k = w.toks.iter().find(|k| k.secret == pw).ok_or("secret is not a token the harness issued")?;
            match &k.kind {
                TokKind::Apit { account, token_id, expiry, compact, .. } => {
                    if *account != a.account_id || *token_id != a.token_id {
                        return Err("session names another token than the one presented".into());
                    }
                    if expiry.map(|e| now >= e).unwrap_or(false) {
                        return Err("token is expired".into());
                    }
                    if *compact && !k.present {
                        return Err("token was destroyed".into());
                    }
                    Ok(())
                }
                _ => Err("a UAT produced an api token session".into()),
            }
        }
        LdapSession::UserAuthToken(u) => {
            let k = w.toks.iter().find(|k| k.secret == pw).ok_or("secret is not a token the harness issued")?;
            match &k.kind {
                TokKind::Uat { account, session, expiry, .. } => {
                    if *account != u.uuid || *session != u.session_id {
                        return Err("session names another token than the one presented".into());
                    }
                    if expiry.map(|e| e <= now).unwrap_or(false) {
                        return Err("token is expired".into());
                    }
                    Ok(())
                }
                _ => Err("an api token produced a UAT session".into()),
            }
        }
    }
}

type NRow = (Uuid, Vec<String>, BTreeMap<String, Vec<String>>);

/// Native search (`search_ext`) as `exp`, same filter, same requested attributes.
async fn native_rows(w: &World, exp: &Expected, f: &F, attrs: &Option<Vec<String>>) -> Result<Vec<NRow>, String> {
    let mut rd = w.idms.proxy_read().await.map_err(|e| format!("{e:?}"))?;
    let entry = rd.qs_read.internal_search_uuid(exp.entry).map_err(|e| format!("identity entry: {e:?}"))?;
    let ident = Identity::from_impersonate_entry_readwrite(entry).project_with_scope(match exp.scope {
        "rw" => AccessScope::ReadWrite,
        "sync" => AccessScope::Synchronise,
        _ => AccessScope::ReadOnly,
    });
    let finv = Filter::from_ro(&ident, &f.proto(), &mut rd.qs_read).map_err(|e| format!("from_ro {e:?}"))?;
    let se = SearchEvent::from_internal_message(ident, &finv, attrs.as_deref(), &mut rd.qs_read).map_err(|e| format!("event {e:?}"))?;
    let res: Vec<Entry<EntryReduced, EntryCommitted>> = rd.qs_read.search_ext(&se).map_err(|e| format!("search_ext {e:?}"))?;
    let mut out: Vec<NRow> = res
        .iter()
        .map(|e| {
            let mut names: Vec<String> = e.get_ava_names().map(|s| s.to_string()).collect();
            names.sort();
            let mut vals = BTreeMap::new();
            for a in [Attribute::Name, Attribute::DisplayName, Attribute::Uuid, Attribute::Spn, Attribute::Class] {
                if let Some(vs) = e.get_ava_set(&a) {
                    let mut v: Vec<String> = vs.to_proto_string_clone_iter().collect();
                    v.sort();
                    vals.insert(a.as_str().to_string(), v);
                }
            }
            (e.get_uuid(), names, vals)
        })
        .collect();
    out.sort();
    Ok(out)
}

// ------------------------------------------------------------------------------------------------
// running a connection
// ------------------------------------------------------------------------------------------------

struct Ctx<'a> {
    seed: u64,
    drv: &'a mut Driver,
    rep: &'a mut Report,
    oracle_failed: bool,
    model_fails: usize,
}

impl<'a> Ctx<'a> {
    fn fail(&mut self, kind: &str, class: &str, input: J, expected: String, observed: String) {
        if kind == "impl-vs-model" {
            self.model_fails += 1;
            if self.model_fails > 6 {
                self.rep.count("model-disagreements-not-recorded");
                return;
            }
        } else {
            self.oracle_failed = true;
        }
        self.rep.fail(Failure { kind: kind.into(), class: class.into(), input, expected, observed });
    }
}

async fn apply_outside(w: &mut World, req: &Req) -> bool {
    let now = now_secs();
    let ct = Duration::from_secs(now);
    match req {
        Req::Flag(b) => {
            let mut t = w.idms.proxy_write(ct).await.expect("write txn");
            let ml = ModifyList::new_purge_and_set(Attribute::LdapAllowUnixPwBind, Value::Bool(*b));
            t.qs_write.internal_modify_uuid(UUID_DOMAIN_INFO, &ml).expect("flag");
            t.commit().expect("commit flag");
            w.flag = *b;
            true
        }
        Req::Expire(i) => {
            let p = w.ps[*i].clone();
            if !p.exists || p.kind == Kind::Group {
                return false;
            }
            let mut t = w.idms.proxy_write(ct).await.expect("write txn");
            let ml = ModifyList::new_purge_and_set(Attribute::AccountExpire, Value::new_datetime_epoch(Duration::from_secs(now - 60)));
            if t.qs_write.internal_modify_uuid(p.uuid, &ml).is_err() {
                return false;
            }
            t.commit().expect("commit expire");
            w.ps[*i].expire = Some(now - 60);
            true
        }
        Req::Delete(i) => {
            let p = w.ps[*i].clone();
            if !p.exists || p.kind == Kind::Group || p.kind == Kind::App {
                return false;
            }
            let mut t = w.idms.proxy_write(ct).await.expect("write txn");
            if t.qs_write.internal_delete_uuid(p.uuid).is_err() {
                return false;
            }
            t.commit().expect("commit delete");
            w.ps[*i].exists = false;
            true
        }
        Req::Destroy(i) => {
            let Some(k) = w.toks.get(*i).cloned() else { return false };
            let TokKind::Apit { account, token_id, .. } = k.kind else { return false };
            if !k.present || !w.p(account).map(|p| p.exists).unwrap_or(false) {
                return false;
            }
            let mut t = w.idms.proxy_write(ct).await.expect("write txn");
            let ev = DestroyApiTokenEvent { ident: ident_internal(0).unwrap(), target: account, token_id };
            if t.service_account_destroy_api_token(&ev).is_err() {
                return false;
            }
            t.commit().expect("commit destroy");
            w.toks[*i].present = false;
            true
        }
        _ => false,
    }
}

fn is_virtual(a: &str) -> bool {
    matches!(a, "*" | "+" | "1.1")
}

/// One connection: `nmsg` requests generated from `(seed, world, conn)`; `upto` limits a replay.
async fn run_conn(w: &mut World, cx: &mut Ctx<'_>, wi: u64, ci: u64, nmsg: usize, upto: Option<usize>, bias: bool) {
    let mut r = Rng::for_case(cx.seed, wi * 1000 + ci);
    let mut cs = ConnState::default();
    push_world(w, cx.drv);
    assert_eq!(cx.drv.ask("conn"), "ok");
    let mut log: Vec<J> = vec![];
    let mut msgid = 1;
    for mi in 0..nmsg {
        if cs.closed || upto.map(|u| mi > u).unwrap_or(false) || cx.oracle_failed {
            break;
        }
        let req = gen_req(&mut r, w, bias, cs.session.is_some());
        log.push(req.json());
        let input = json!({"seed": cx.seed, "world": wi, "conn": ci, "upto": mi, "flag": w.flag, "basedn": w.basedn, "requests": log.clone()});
        let Some(msg) = wire(&req, w, msgid) else {
            if apply_outside(w, &req).await {
                cx.rep.count("outside-change");
                refresh_dns(w).await;
                push_world(w, cx.drv);
            }
            continue;
        };
        msgid += 1;
        let now = now_secs();
        let before_session = cs.session.clone();
        let (d0, n0) = digest(&w.idms).await;
        let out = real_request(w, &mut cs, msg).await;
        let (d1, n1) = digest(&w.idms).await;
        let delayed = drain(&mut w.delayed).await;

        // ---- oracle: the database is what it was
        if d0 != d1 || n0 != n1 {
            cx.fail("impl-vs-oracle", "c40:ldap-message-changed-database", input.clone(), format!("digest {d0:016x} over {n0} entries"), format!("digest {d1:016x} over {n1} entries after {}", out.outcome));
        }
        // ---- oracle: update operations are never answered with success
        if req.is_update() && (out.success_answer || !out.outcome.starts_with("disconnect")) {
            cx.fail("impl-vs-oracle", "c40:update-operation-not-refused", input.clone(), "refusal".into(), out.outcome.clone());
        }
        // ---- oracle: an accepted bind was justified
        if let Some(t) = &out.bound {
            let (dn, pw) = match &req {
                Req::Bind { dn, pw, .. } => (dn.clone(), pw.clone()),
                _ => (String::new(), String::new()), // implicit bind
            };
            if let Err(why) = bind_justified(w, &dn, &pw, t, now) {
                cx.fail("impl-vs-oracle", "c40:bind-accepted-without-valid-credentials", input.clone(), "refusal".into(), format!("{}: {why}", out.outcome));
            }
            if let (Req::Bind { .. }, LdapSession::UnixBind(u)) = (&req, &t.effective_session) {
                let u = *u;
                for p in w.ps.iter_mut().filter(|p| p.uuid == u) {
                    p.unix_failed = false;
                }
            }
        }
        // ---- oracle: delayed actions
        let mut delayed_s = vec![];
        for da in &delayed {
            match da {
                DelayedAction::UnixPwUpgrade(up) => {
                    let bound_ok = matches!(&out.bound, Some(t) if t.effective_session == LdapSession::UnixBind(up.target_uuid));
                    let pw_ok = matches!(&req, Req::Bind { pw, .. } if *pw == up.existing_password);
                    if !(bound_ok && pw_ok) {
                        cx.fail("impl-vs-oracle", "c40:delayed-action-not-from-successful-bind", input.clone(), "none".into(), format!("UnixPwUpgrade for {}", up.target_uuid));
                    }
                    cx.rep.count("delayed:UnixPwUpgrade");
                    let a = w.atom(up.target_uuid);
                    let s = w.secret(&up.existing_password);
                    delayed_s.push(format!("UnixPwUpgrade:{a}:{s}"));
                }
                other => {
                    cx.fail("impl-vs-oracle", "c40:unexpected-delayed-action", input.clone(), "none".into(), format!("{other:?}"));
                    delayed_s.push("Other:0:0".into());
                }
            }
        }
        // ---- the identity of the token in use (real), and the one the property prescribes
        let ident_real: String;
        let mut real_ok: Option<(Uuid, &'static str)> = None;
        match &cs.session.clone() {
            None => ident_real = "-".into(),
            Some(t) => {
                let mut rd = w.idms.proxy_read().await.expect("read txn");
                let res = rd.validate_ldap_session(&t.effective_session, Source::Internal, duration_from_epoch_now());
                drop(rd);
                match res {
                    Ok(id) => {
                        let sc = scope_name(id.access_scope());
                        real_ok = Some((id.get_uuid(), sc));
                        ident_real = format!("{}:{sc}", w.atom(id.get_uuid()));
                        match prescribed(w, &t.effective_session, now) {
                            Some(exp) => {
                                if exp.entry != id.get_uuid() || exp.scope != sc {
                                    cx.fail("impl-vs-oracle", "c40:identity-not-the-prescribed-one", input.clone(), format!("{exp:?}"), format!("{}:{sc}", id.get_uuid()));
                                }
                            }
                            None => cx.fail("impl-vs-oracle", "c40:session-of-unknown-token", input.clone(), "a token the harness issued".into(), format!("{:?}", t.effective_session)),
                        }
                    }
                    Err(e) => ident_real = format!("err:{}", err_name(&format!("{e:?}"))),
                }
            }
        }
        // ---- oracle: search results = native search as the prescribed identity
        if let (Req::Search { base, scope, filter, attrs, bad_filter }, Some(rows), Some(t)) = (&req, &out.rows, &out.used) {
            if !out.outcome.starts_with("rootdse") && !*bad_filter {
                if let Some(exp) = prescribed(w, &t.effective_session, now) {
                    search_oracle(w, cx, &input, &exp, base, *scope, filter, attrs, rows).await;
                }
            }
        }
        if let (Req::Compare { dn, atype, val }, Some("true"), Some(t)) = (&req, out.cmp, &out.used) {
            if let (Some(exp), Some(u)) = (prescribed(w, &t.effective_session, now), w.dn_of.get(dn).copied()) {
                let f = F::And(vec![F::Eq("uuid".into(), u.to_string()), F::Eq(atype.clone(), val.clone()), F::Pres("class".into())]);
                match native_rows(w, &exp, &f, &None).await {
                    Ok(v) if v.iter().any(|x| x.0 == u) => cx.rep.count("oracle:compare-true-justified"),
                    other => cx.fail("impl-vs-oracle", "c40:compare-true-not-visible-natively", input.clone(), "the entry through the native search".into(), format!("{other:?}")),
                }
            }
        }
        // ---- correspondence
        let sl = match (&req, out.outcome.as_str()) {
            (Req::Bind { pw, .. }, "respond:invalidCredentials:-") => w.ps.iter().any(|p| p.unix_failed && p.unix_pw.as_deref() == Some(pw.as_str())),
            _ => false,
        };
        if sl {
            cx.rep.count("softlock-assumed");
        }
        // a failure of the search itself (after the identity was built) is an input of the model
        let late: Option<String> = match (&req, out.outcome.strip_prefix("respond:")) {
            (Req::Search { .. } | Req::Compare { .. }, Some(rest)) => {
                let (code, err) = rest.split_once(':').unwrap_or((rest, "-"));
                let validation = ["SessionExpired", "NoMatchingEntries", "NotAuthenticated", "NotAnAccount", "ResourceLimit", "InvalidUuid", "-"];
                if code == "invalidAttributeSyntax" || code == "unwillingToPerform" || (code == "other" && !validation.contains(&err)) {
                    cx.rep.count(&format!("late-error:{code}:{err}"));
                    Some(code.to_string())
                } else {
                    None
                }
            }
            _ => None,
        };
        let late_s = late.clone().unwrap_or_else(|| "-".into());
        let line = match &req {
            Req::Bind { dn, pw, .. } => format!("bind {} {} {}", enc(dn), w.secret(pw), if sl { 1 } else { 0 }),
            Req::Search { base, scope, attrs, .. } => format!("search {} {} {} {late_s}", enc(base), ["base", "one", "sub", "children"][*scope as usize], attrs.len()),
            Req::Compare { dn, .. } => format!("compare {} {late_s}", enc(dn)),
            Req::Other(o) => format!("op {o}"),
            _ => unreachable!(),
        };
        assert_eq!(cx.drv.ask(&format!("ct {now}")), "ok");
        let model = canon_model(&cx.drv.ask(&line));
        let sess = show_tok(w, &cs.session);
        let outcome_shown = match &late {
            Some(code) => format!("respond:{code}:-"),
            None => out.outcome.clone(),
        };
        let real = format!(
            "{outcome_shown} sess={sess} closed={} ident={ident_real} delayed={}",
            if cs.closed { 1 } else { 0 },
            if delayed_s.is_empty() { "-".into() } else { delayed_s.join(",") }
        );
        if model != real {
            let class = if real.split(' ').next() != model.split(' ').next() { "c40:model-outcome" } else { "c40:model-state" };
            cx.fail("impl-vs-model", class, input.clone(), model.clone(), real.clone());
        }
        // a wrong POSIX password may arm the soft lock of the account the DN names
        if let Req::Bind { dn, pw, .. } = &req {
            if out.outcome == "respond:invalidCredentials:-" && !dn.contains("app=") && w.flag {
                let dl = dn.to_lowercase();
                for p in w.ps.iter_mut() {
                    if (dl.contains(&p.name) || dl.contains(&p.uuid.to_string())) && p.unix_pw.is_some() && p.unix_pw.as_deref() != Some(pw.as_str()) {
                        p.unix_failed = true;
                    }
                }
            }
        }
        // ---- bookkeeping
        let head = out.outcome.split(':').take(2).collect::<Vec<_>>().join(":");
        let rk = match &req {
            Req::Bind { what, dn, .. } => format!("bind/{}/{}{}", what.split(':').next().unwrap_or(""), if dn.contains("app=") { "app/" } else { "" }, if w.flag { "flag" } else { "noflag" }),
            Req::Search { scope, attrs, .. } => format!("search/{scope}/{}", attrs.first().map(|s| s.as_str()).unwrap_or("all")),
            Req::Compare { .. } => "compare".into(),
            Req::Other(o) => format!("op/{o}"),
            _ => unreachable!(),
        };
        let sk = match &before_session {
            None => "unbound",
            Some(t) => match t.effective_session {
                LdapSession::UnixBind(u) if u == UUID_ANONYMOUS => "anon",
                LdapSession::UnixBind(_) => "unix",
                LdapSession::ApiToken(_) => "apit",
                LdapSession::UserAuthToken(_) => "uat",
                LdapSession::ApplicationPasswordBind(..) => "app",
            },
        };
        cx.rep.count(&format!("outcome:{}", head.split(':').next().unwrap_or("")));
        if let Req::Bind { what, dn, .. } = &req {
            cx.rep.count(&format!("bind:{}{}:{}", what.split(':').next().unwrap_or(""), if dn.contains("app=") { "+app" } else { "" }, head.split(':').next().unwrap_or("")));
        }
        cx.rep.count(&format!("session:{sk}"));
        if let Some((_, sc)) = real_ok {
            cx.rep.count(&format!("ident-scope:{sc}"));
        }
        let rowsn = out.rows.as_ref().map(|r| if r.is_empty() { "0" } else { "n" }).unwrap_or("-");
        // non-trivial: the request reached a handler or was an update operation, on any session
        let nontrivial = !out.outcome.starts_with("disconnect") || req.is_update();
        cx.rep.case(if nontrivial { Some(format!("{rk}|{sk}|{head}|{rowsn}")) } else { None });
        if mi == 3 && ci == 0 {
            cx.rep.sample(json!({"request": req.json(), "real": real, "model": model}));
        }
    }
}

#[allow(clippy::too_many_arguments)]
async fn search_oracle(w: &mut World, cx: &mut Ctx<'_>, input: &J, exp: &Expected, base: &str, scope: u8, filter: &F, attrs: &[String], rows: &[Row]) {
    // the part of the request the gateway itself interprets: base / scope
    let rdn: Option<(String, String)> = if base == w.basedn {
        None
    } else {
        match base.strip_suffix(&format!(",{}", w.basedn)) {
            Some(head) => {
                let first = head.split(',').next().unwrap_or("");
                match first.split_once('=') {
                    Some(("app", _)) if !head.contains(',') => None,
                    Some((a, v)) => Some((a.to_string(), v.to_string())),
                    None => return,
                }
            }
            None => return,
        }
    };
    if rdn.is_some() && (scope == 1 || scope == 3) {
        if !rows.is_empty() {
            cx.fail("impl-vs-oracle", "c40:ldap-search-differs-from-native", input.clone(), "no entries below a leaf".into(), format!("{} rows", rows.len()));
        }
        return;
    }
    let f = match &rdn {
        Some((a, v)) => F::And(vec![filter.clone(), F::Eq(a.clone(), v.clone())]),
        None => filter.clone(),
    };
    let all = attrs.is_empty() || attrs.iter().any(|a| a == "*" || a == "+");
    let none = attrs.len() == 1 && attrs[0] == "1.1";
    let req_attrs: Option<Vec<String>> = if all || none { None } else { Some(attrs.iter().filter(|a| !is_virtual(a)).map(|a| a.to_lowercase()).collect()) };
    // entries the identity gets natively, and those among them whose class it may also read (the
    // gateway's schema / access-control exclusion is a filter on `class`)
    // none of the requested attributes exists: the native API refuses to build such a request
    // (EmptyRequest); the entries are then compared with an all-attributes native search and no
    // attribute may be released
    let mut search_attrs = req_attrs.clone();
    let native = match native_rows(w, exp, &f, &search_attrs).await {
        Ok(v) => v,
        Err(e) if e.contains("EmptyRequest") => {
            cx.rep.count("oracle:no-known-attribute-requested");
            search_attrs = None;
            match native_rows(w, exp, &f, &None).await {
                Ok(v) => v,
                Err(_) => return,
            }
        }
        Err(e) => {
            cx.rep.count(&format!("native-error:{}", e.split(' ').next().unwrap_or("")));
            if cx.rep.notes.len() < 6 {
                cx.rep.note(format!("native search failed: {e} for {}", filter.json()));
            }
            return;
        }
    };
    let with_class = F::And(vec![f.clone(), F::Pres("class".into())]);
    let classified: BTreeSet<Uuid> = match native_rows(w, exp, &with_class, &search_attrs).await {
        Ok(v) => v.into_iter().map(|x| x.0).collect(),
        Err(_) => return,
    };
    let dom = UUID_DOMAIN_INFO;
    let in_scope = |u: &Uuid| match (scope, &rdn) {
        (0, None) => *u == dom,
        (1, None) | (3, None) => *u != dom,
        _ => true,
    };
    let mut expected: Vec<&NRow> = vec![];
    for n in &native {
        if !in_scope(&n.0) {
            continue;
        }
        if w.hidden_class.contains(&n.0) {
            cx.rep.count("oracle:schema-or-acp-entry-hidden");
            continue;
        }
        if !classified.contains(&n.0) {
            cx.rep.count("oracle:entry-with-unreadable-class-hidden");
            continue;
        }
        expected.push(n);
    }
    let mut got: Vec<(Uuid, &Row)> = vec![];
    for r in rows {
        match w.dn_of.get(&r.0) {
            Some(u) => got.push((*u, r)),
            None => {
                cx.fail("impl-vs-oracle", "c40:ldap-search-differs-from-native", input.clone(), "a DN of a live entry".into(), r.0.clone());
                return;
            }
        }
    }
    got.sort_by_key(|g| g.0);
    let eu: Vec<Uuid> = expected.iter().map(|n| n.0).collect();
    let gu: Vec<Uuid> = got.iter().map(|g| g.0).collect();
    if eu != gu {
        let extra: Vec<String> = gu.iter().filter(|u| !eu.contains(u)).map(|u| u.to_string()).collect();
        let missing: Vec<String> = eu.iter().filter(|u| !gu.contains(u)).map(|u| u.to_string()).collect();
        let class = if !extra.is_empty() { "c40:ldap-search-discloses-more-than-native" } else { "c40:ldap-search-differs-from-native" };
        cx.fail("impl-vs-oracle", class, input.clone(), format!("{} entries as {exp:?}", eu.len()), format!("{} entries; extra {extra:?}; missing {missing:?}", gu.len()));
        return;
    }
    cx.rep.count(if eu.is_empty() { "oracle:search-equal-native(empty)" } else { "oracle:search-equal-native" });
    // attributes
    for (n, (_, r)) in expected.iter().zip(got.iter()) {
        let ldap_names: Vec<String> = r.1.iter().map(|a| a.0.clone()).collect();
        if none {
            if !ldap_names.is_empty() {
                cx.fail("impl-vs-oracle", "c40:ldap-search-discloses-more-than-native", input.clone(), "no attributes (1.1)".into(), format!("{ldap_names:?}"));
            }
            continue;
        }
        let mut want: Vec<String> = n.1.clone();
        if let Some(l) = &req_attrs {
            want.retain(|a| l.contains(a));
        }
        let mut have = ldap_names.clone();
        if attrs.iter().any(|a| a == "+") {
            // operational / virtual attributes are renderings of readable ones (C23 checks them)
            have.retain(|a| n.1.contains(a));
        }
        have.sort();
        have.dedup();
        want.sort();
        if have != want {
            let more: Vec<&String> = have.iter().filter(|a| !want.contains(a)).collect();
            let class = if !more.is_empty() { "c40:ldap-search-discloses-more-than-native" } else { "c40:ldap-search-differs-from-native" };
            cx.fail("impl-vs-oracle", class, input.clone(), format!("{} attrs {want:?}", n.0), format!("{have:?}"));
            return;
        }
        for (a, vals) in &n.2 {
            if let Some((_, lv)) = r.1.iter().find(|x| &x.0 == a) {
                let mut lv: Vec<String> = lv.iter().map(|b| String::from_utf8_lossy(b).to_string()).collect();
                lv.sort();
                if &lv != vals {
                    cx.fail("impl-vs-oracle", "c40:ldap-search-differs-from-native", input.clone(), format!("{a} = {vals:?}"), format!("{lv:?}"));
                    return;
                }
            }
        }
    }
}

/// A token that expires while its LDAP connection stays open: does the session outlive the token?
/// (Theorem `token_session_identity_eq_native_full_false` replayed on the implementation.)
async fn probe_expiry(w: &mut World, cx: &mut Ctx<'_>, strict: bool) {
    let now = now_secs();
    let s0 = match w.ps.iter().find(|p| p.name == "c40s0" && p.exists) {
        Some(p) => p.uuid,
        None => return,
    };
    let mut t = w.idms.proxy_write(Duration::from_secs(now)).await.expect("write txn");
    let gte = GenerateApiTokenEvent { ident: ident_internal(0).unwrap(), target: s0, label: "c40-short".into(), expiry: Some(odt(now + 2)), read_write: true, compact: false };
    let jws = t.service_account_generate_api_token(&gte, Duration::from_secs(now - 3600)).expect("short token");
    t.commit().expect("commit short token");
    let secret = jws.to_string();
    let mut cs = ConnState::default();
    let bind = LdapMsg { msgid: 1, op: LdapOp::BindRequest(LdapBindRequest { dn: "dn=token".into(), cred: LdapBindCred::Simple(secret.clone()) }), ctrl: vec![] };
    let out = real_request(w, &mut cs, bind).await;
    if out.bound.is_none() {
        cx.rep.count("expiry-probe:bind-refused");
        return;
    }
    tokio::time::sleep(Duration::from_millis(3200)).await;
    let tok = cs.session.clone().unwrap();
    let ct = duration_from_epoch_now();
    let mut rd = w.idms.proxy_read().await.expect("read txn");
    let ldap_id = rd.validate_ldap_session(&tok.effective_session, Source::Internal, ct).map(|i| (i.get_uuid(), scope_name(i.access_scope())));
    let cai = ClientAuthInfo::new(Source::Internal, None, JwsCompact::from_str(&secret).ok(), None);
    let native_id = rd.validate_client_auth_info_to_ident(cai, ct).map(|i| (i.get_uuid(), scope_name(i.access_scope())));
    drop(rd);
    let search = LdapMsg {
        msgid: 2,
        op: LdapOp::SearchRequest(LdapSearchRequest { base: w.basedn.clone(), scope: LdapSearchScope::Subtree, aliases: LdapDerefAliases::Never, sizelimit: 0, timelimit: 0, typesonly: false, filter: LdapFilter::Equality("class".into(), "person".into()), attrs: vec!["mail".into()] }),
        ctrl: vec![],
    };
    let sout = real_request(w, &mut cs, search).await;
    let _ = drain(&mut w.delayed).await;
    let nrows = sout.rows.as_ref().map(|r| r.len()).unwrap_or(0);
    let outlives = ldap_id.is_ok() && native_id.is_err();
    cx.rep.count(if outlives { "observation:token-session-outlives-token-expiry" } else { "expiry-probe:session-ends-with-token" });
    cx.rep.note(format!(
        "expiry probe: api token (rw, expires 2 s after the bind) — 3.2 s later validate_ldap_session = {ldap_id:?}, native bearer validation = {native_id:?}, LDAP search as that session: {} ({nrows} entries with mail)",
        sout.outcome
    ));
    if outlives && strict {
        // recorded finding D40: reported on every run, but the exploration goes on
        cx.rep.fail(Failure {
            kind: "impl-vs-oracle".into(),
            class: "c40:token-session-outlives-token-expiry".into(),
            input: json!({"probe": "expiry", "seed": cx.seed}),
            expected: format!("native {native_id:?}"),
            observed: format!("ldap {ldap_id:?}; search {} with {nrows} entries", sout.outcome),
        });
    }
    // the token is part of the world from now on (expired)
    if let Some(k) = decode_tok("s0-short", &secret, true) {
        w.toks.push(k);
    }
}

fn main() {
    let args = Args::parse();
    let mut rep = Report::new(
        "ldap-gateway",
        "one case = one LDAP message on a live connection of a random world; non-trivial = the message reached a handler \
         (bind / search / compare / whoami / unbind) or was an update operation; distinct = (request class, session kind, outcome class, rows?)",
    );
    let mut drv = Driver::spawn(&args.driver);
    let rt = tokio::runtime::Builder::new_multi_thread().worker_threads(2).enable_all().build().expect("runtime");
    let strict_expiry = args.extra.get("strict-expiry").map(|v| v == "1").unwrap_or(true);
    let t0 = std::time::Instant::now();
    rt.block_on(async {
        let mut cx = Ctx { seed: args.seed, drv: &mut drv, rep: &mut rep, oracle_failed: false, model_fails: 0 };
        if let Some(path) = &args.replay {
            let v: J = serde_json::from_str(&std::fs::read_to_string(path).expect("replay file")).expect("replay json");
            let inp = &v["input"];
            cx.seed = inp["seed"].as_u64().unwrap_or(args.seed);
            if inp.get("probe").is_some() {
                let mut w = build_world(cx.seed, 0).await;
                probe_expiry(&mut w, &mut cx, true).await;
                return;
            }
            let wi = inp["world"].as_u64().expect("world");
            let ci = inp["conn"].as_u64().expect("conn");
            let upto = inp["upto"].as_u64().expect("upto") as usize;
            let mut w = build_world(cx.seed, wi).await;
            // earlier connections of the world change it (outside changes, soft locks): re-run them
            for c in 0..=ci {
                let n = conn_len(cx.seed, wi, c);
                run_conn(&mut w, &mut cx, wi, c, n, if c == ci { Some(upto) } else { None }, false).await;
            }
            return;
        }
        let worlds = args.cases(22, 200);
        let bias = args.budget > 1;
        for wi in 0..worlds {
            if cx.oracle_failed {
                break;
            }
            let mut w = build_world(cx.seed, wi).await;
            for n in w.notes.drain(..).collect::<Vec<_>>() {
                cx.rep.count(&format!("world-note:{}", n.split(':').next().unwrap_or("")));
                if wi == 0 {
                    cx.rep.note(n);
                }
            }
            cx.rep.count(if w.flag { "world:flag-on" } else { "world:flag-off" });
            cx.rep.count(if w.basedn.starts_with("o=") { "world:custom-basedn" } else { "world:default-basedn" });
            for ci in 0..3 {
                let n = conn_len(cx.seed, wi, ci);
                run_conn(&mut w, &mut cx, wi, ci, n, None, bias).await;
            }
            if wi == 0 {
                probe_expiry(&mut w, &mut cx, strict_expiry).await;
            }
        }
    });
    rep.model_requests = drv.requests;
    rep.note(format!("run time {:.1} s", t0.elapsed().as_secs_f64()));
    rep.write(&args.out);
    println!(
        "c40: {} messages, {} distinct non-trivial, {} failures, {:.1} s",
        rep.evaluations,
        rep.nontrivial_keys.len(),
        rep.failures.len(),
        t0.elapsed().as_secs_f64()
    );
}

fn conn_len(seed: u64, wi: u64, ci: u64) -> usize {
    let mut r = Rng::for_case(seed ^ 0x1e9, wi * 1000 + ci);
    r.range(7, 16) as usize
}
