//! C07 — change identifiers strictly increase: correspondence + oracle on a real `QueryServer`.
//!
//! The real code (`QueryServer::new`, `::write(curtime)`, `commit()`, drop, `initialise_helper`)
//! is driven with explicit clock readings, including repeats and regressions, aborted
//! transactions and restarts; every transaction modifies one probe entry and reads back the
//! last-modified cid the server stamped on it (the property's `observe_at`).  The same op lines
//! go to the Lean model (`km_c07`); replies are compared line by line (impl-vs-model) and the
//! property's own statement is evaluated on the observed cids (impl-vs-oracle).
//!
//! Streams (one report, histogram keys say which part a case came from):
//!  * `exh`  — every well-formed event sequence of a fixed length over a small set of clock
//!             readings relative to the last committed cid, run back to back on one server
//!             (restart = new `QueryServer` over the same in-memory `Backend`);
//!  * `rand` — long random histories on in-memory and on file-backed servers (restart = the
//!             database file is closed and reopened by a fresh `Backend`), with occasional
//!             `initialise_helper` after a restart and ill-formed ops (commit without a
//!             transaction, begin while one is open);
//!  * `bnd`  — only in search mode (`--budget` > 1, i.e. a fingerprint changed or an obligation
//!             broke): directed histories around the situations the oracle turns on — commits on a
//!             repeated / regressed clock, aborted, failing (`fail ts`: an operation inside the
//!             transaction returns Err, the transaction is dropped) and crashed transactions,
//!             then a restart at an offset <= 0 relative to the last committed ts or to the last
//!             wall clock, then a begin at the same or a lower clock.
//!
//! Failure accounting: model disagreements and oracle failures are kept apart.  At most
//! `MAX_MODEL` model disagreements are recorded (shrunk); after a disagreement the rest of that
//! history is still executed on the implementation and judged by the oracle (the oracle only reads
//! the implementation's outputs), and once `MAX_MODEL` are recorded the model is no longer asked
//! at all.  The run stops early only when an ORACLE failure has been found and shrunk.
//!
//! `--selftest persist-curtime` (never used by `./check`): harness-side sabotage that, at every
//! restart, overwrites the durable ts_max with the wall clock of the last committed transaction
//! (what `set_db_ts_max(curtime)` instead of `set_db_ts_max(cid.ts)` in `commit()` would have
//! stored) through the public `Backend::write().set_db_ts_max()`.  The search must then report an
//! impl-vs-oracle failure; see notes/C07.md.
use hlib::*;
use kanidm_proto::internal::FsType;
use kanidmd_lib::be::{Backend, BackendConfig};
use kanidmd_lib::entry::Entry;
use kanidmd_lib::prelude::*;
use kanidmd_lib::schema::Schema;
use serde_json::json;
use std::path::PathBuf;

/// Clock origin: `write()` refuses clocks below CHANGELOG_MAX_AGE (7 days), so all readings
/// are offsets from 10^6 s, in nanoseconds.
const BASE: u64 = 1_000_000_000_000_000;
const PROBE: Uuid = Uuid::from_u128(0xc07c07c0_0000_4000_8000_000000000001);

type Txn = QueryServerWriteTransaction<'static>;

/// The system under test: a real QueryServer over an in-memory or file-backed backend.
struct Sut {
    rt: tokio::runtime::Runtime,
    // order matters: txn borrows qs (lifetime erased), so it is always dropped first
    txn: Option<Txn>,
    qs: Option<Box<QueryServer>>,
    keep: Option<Backend>,
    path: Option<PathBuf>,
    probe_committed: bool,
    probe_in_txn: bool,
    counter: u64,
    uuids: Vec<Uuid>,
    /// cid observed on the probe inside the open transaction
    open_cid: Option<Cid>,
    /// selftest only: wall clock of the open / of the last committed transaction
    sabotage: bool,
    open_clock: Option<u64>,
    last_commit_clock: Option<u64>,
}

/// How a session is run.
#[derive(Clone, Copy)]
struct Opts {
    /// ask the Lean model and compare replies
    model: bool,
    /// `--selftest persist-curtime`
    sabotage: bool,
}

fn mk_backend(path: Option<&std::path::Path>) -> (Backend, Schema) {
    let schema = Schema::new().expect("schema");
    let idxmeta = {
        let s = schema.write();
        s.reload_idxmeta()
    };
    let be = Backend::new(BackendConfig::new(path, 1, FsType::Generic, Some(2048)), idxmeta, false)
        .expect("backend");
    (be, schema)
}

fn dur(ns: u64) -> Duration {
    Duration::from_nanos(ns)
}

impl Sut {
    fn boot(file: Option<PathBuf>, ts: u64, sabotage: bool) -> Sut {
        let rt = tokio::runtime::Builder::new_current_thread().enable_all().build().unwrap();
        if let Some(p) = &file {
            let _ = std::fs::remove_file(p);
        }
        let (be, schema) = mk_backend(file.as_deref());
        let keep = if file.is_none() { Some(be.clone()) } else { None };
        let qs = QueryServer::new(be, schema, "example.com".to_string(), dur(ts)).expect("QueryServer::new");
        Sut {
            rt,
            txn: None,
            qs: Some(Box::new(qs)),
            keep,
            path: file,
            probe_committed: false,
            probe_in_txn: false,
            counter: 0,
            uuids: vec![],
            open_cid: None,
            sabotage,
            open_clock: None,
            last_commit_clock: None,
        }
    }

    fn uidx(&mut self, u: Uuid) -> usize {
        match self.uuids.iter().position(|x| *x == u) {
            Some(i) => i,
            None => {
                self.uuids.push(u);
                self.uuids.len() - 1
            }
        }
    }

    fn probe_cid(txn: &mut Txn) -> Result<Cid, String> {
        let e = txn.internal_search_uuid(PROBE).map_err(|e| format!("search:{e:?}"))?;
        e.get_ava_set(Attribute::LastModifiedCid)
            .and_then(|vs| vs.to_cid_single())
            .ok_or_else(|| "no-last-modified-cid".to_string())
    }

    /// cid on the committed probe entry, through a read transaction
    fn committed_probe_cid(&mut self) -> Result<Cid, String> {
        let qs: &QueryServer = self.qs.as_ref().unwrap();
        self.rt.block_on(async {
            let mut r = qs.read().await.map_err(|e| format!("read:{e:?}"))?;
            let e = r.internal_search_uuid(PROBE).map_err(|e| format!("search:{e:?}"))?;
            e.get_ava_set(Attribute::LastModifiedCid)
                .and_then(|vs| vs.to_cid_single())
                .ok_or_else(|| "no-last-modified-cid".to_string())
        })
    }

    fn exec(&mut self, op: &str) -> String {
        let t: Vec<&str> = op.split(' ').collect();
        match t.as_slice() {
            [k @ ("begin" | "fail"), ts] => {
                if self.txn.is_some() {
                    return "busy".into();
                }
                let ts: u64 = ts.parse().unwrap();
                // SAFETY: the transaction is stored next to the boxed server it borrows and is
                // always dropped (commit / abort / restart / Drop) before that box is.
                let qs: &'static QueryServer = unsafe { &*(self.qs.as_ref().unwrap().as_ref() as *const QueryServer) };
                let mut txn: Txn = match self.rt.block_on(qs.write(dur(ts))) {
                    Ok(t) => t,
                    Err(e) => return format!("err:write:{e:?}"),
                };
                self.counter += 1;
                let r = if self.probe_committed {
                    txn.internal_modify_uuid(
                        PROBE,
                        &ModifyList::new_purge_and_set(Attribute::Description, Value::new_utf8s(&format!("d{}", self.counter))),
                    )
                } else {
                    let mut e = Entry::new();
                    e.add_ava(Attribute::Class, EntryClass::Object.to_value());
                    e.add_ava(Attribute::Class, EntryClass::ExtensibleObject.to_value());
                    e.add_ava(Attribute::Name, Value::new_iname("c07probe"));
                    e.add_ava(Attribute::Uuid, Value::Uuid(PROBE));
                    if *k == "begin" {
                        self.probe_in_txn = true;
                    }
                    txn.internal_create(vec![e])
                };
                if let Err(e) = r {
                    return format!("err:probe-write:{e:?}");
                }
                let c = match Self::probe_cid(&mut txn) {
                    Ok(c) => c,
                    Err(e) => return format!("err:{e}"),
                };
                let reply = format!("cid {} {}", c.ts.as_nanos(), self.uidx(c.s_uuid));
                if *k == "fail" {
                    // a transaction in which an operation fails (second entry with the probe's
                    // uuid) and which its caller therefore drops: stamped, never committed
                    let mut e = Entry::new();
                    e.add_ava(Attribute::Class, EntryClass::Object.to_value());
                    e.add_ava(Attribute::Class, EntryClass::ExtensibleObject.to_value());
                    e.add_ava(Attribute::Name, Value::new_iname("c07probe_dup"));
                    e.add_ava(Attribute::Uuid, Value::Uuid(PROBE));
                    let r = txn.internal_create(vec![e]);
                    self.open_cid = Some(c);
                    drop(txn);
                    return match r {
                        Err(_) => format!("{reply} failed"),
                        Ok(()) => "err:fail-op-succeeded".into(),
                    };
                }
                self.txn = Some(txn);
                self.open_cid = Some(c);
                self.open_clock = Some(ts);
                reply
            }
            ["commit"] => match self.txn.take() {
                None => "notxn".into(),
                Some(txn) => match txn.commit() {
                    Ok(()) => {
                        if self.probe_in_txn {
                            self.probe_committed = true;
                        }
                        self.probe_in_txn = false;
                        self.last_commit_clock = self.open_clock.take();
                        "ok".into()
                    }
                    Err(e) => {
                        self.probe_in_txn = false;
                        format!("err:{e:?}")
                    }
                },
            },
            ["abort"] => match self.txn.take() {
                None => "notxn".into(),
                Some(txn) => {
                    drop(txn);
                    self.probe_in_txn = false;
                    self.open_cid = None;
                    "ok".into()
                }
            },
            ["restart", ts] => {
                let ts: u64 = ts.parse().unwrap();
                self.txn = None;
                self.probe_in_txn = false;
                self.open_cid = None;
                self.qs = None; // drops the server (and, file-backed, the only Backend → closes the db)
                let (be, schema) = match (&self.keep, &self.path) {
                    (Some(be), _) => (be.clone(), Schema::new().expect("schema")),
                    (None, Some(p)) => mk_backend(Some(p.as_path())),
                    _ => unreachable!(),
                };
                if let (true, Some(c)) = (self.sabotage, self.last_commit_clock) {
                    // selftest: what a commit() persisting `curtime` would have left behind
                    let mut w = be.write().expect("be.write");
                    w.set_db_ts_max(dur(c)).expect("set_db_ts_max");
                    w.commit().expect("be commit");
                }
                match QueryServer::new(be, schema, "example.com".to_string(), dur(ts)) {
                    Ok(qs) => {
                        self.qs = Some(Box::new(qs));
                        "ok".into()
                    }
                    Err(e) => format!("err:new:{e:?}"),
                }
            }
            ["init", ts] => {
                if self.txn.is_some() {
                    return "busy".into();
                }
                let ts: u64 = ts.parse().unwrap();
                let qs: &QueryServer = self.qs.as_ref().unwrap();
                match self.rt.block_on(qs.initialise_helper(dur(ts), DOMAIN_TGT_LEVEL)) {
                    Ok(()) => {
                        self.last_commit_clock = Some(ts);
                        "ok".into()
                    }
                    Err(e) => format!("err:init:{e:?}"),
                }
            }
            _ => panic!("bad op {op}"),
        }
    }
}

impl Drop for Sut {
    fn drop(&mut self) {
        self.txn = None;
        self.qs = None;
        self.keep = None;
        if let Some(p) = &self.path {
            let _ = std::fs::remove_file(p);
            let _ = std::fs::remove_file(format!("{}-wal", p.display()));
            let _ = std::fs::remove_file(format!("{}-shm", p.display()));
        }
    }
}

/// One server + one model instance + the oracle's memory, fed the same op lines.
struct Session {
    sut: Sut,
    /// the Lean model; `None` when the run no longer compares with it
    drv: Option<Driver>,
    /// a model disagreement happened in this session: the model is not asked any more (its state
    /// no longer matches), the implementation and the oracle carry on
    diverged: bool,
    opts: Opts,
    file: bool,
    log: Vec<String>,
    /// oracle: cids of committed transactions as observed on the probe entry, (ts, uuid)
    committed: Vec<(u128, Uuid)>,
    committed_max: Option<(u128, Uuid)>,
    open: Option<(u128, Uuid)>,
    /// first model disagreement / first oracle failure of this session (kept apart)
    model_fail: Option<Failure>,
    oracle_fail: Option<Failure>,
}

const BOOT: u64 = BASE;

impl Session {
    fn new(driver: &str, file: Option<PathBuf>, opts: Opts) -> Session {
        let is_file = file.is_some();
        let mut s = Session {
            sut: Sut::boot(file, BOOT, opts.sabotage),
            drv: if opts.model { Some(Driver::spawn(driver)) } else { None },
            diverged: false,
            opts,
            file: is_file,
            log: vec![],
            committed: vec![],
            committed_max: None,
            open: None,
            model_fail: None,
            oracle_fail: None,
        };
        if let Some(d) = s.drv.as_mut() {
            let r = d.ask(&format!("boot 0 {BOOT}"));
            assert_eq!(r, "ok");
        }
        // bring the database up (schema, builtin entries) and create the probe entry; these are
        // ordinary ops, seen by the model and the oracle alike
        for op in [format!("init {}", BOOT + 10), format!("begin {}", BOOT + 5), "commit".to_string()] {
            s.apply(&op, &mut None);
        }
        s
    }

    fn requests(&self) -> u64 {
        self.drv.as_ref().map(|d| d.requests).unwrap_or(0)
    }

    fn input(&self) -> serde_json::Value {
        let mut v = json!({"backend": if self.file { "file" } else { "mem" }, "ops": self.log});
        if self.opts.sabotage {
            v["selftest"] = json!("persist-curtime");
        }
        v
    }

    fn failure(&mut self, kind: &str, class: &str, expected: String, observed: String) {
        let f = Failure {
            kind: kind.into(),
            class: class.into(),
            input: self.input(),
            expected,
            observed,
        };
        let slot = if kind == "impl-vs-oracle" { &mut self.oracle_fail } else { &mut self.model_fail };
        if slot.is_none() {
            *slot = Some(f);
        }
    }

    /// The model's reply to one op line (`fail ts` is `begin ts` followed by `abort` there).
    fn ask_model(d: &mut Driver, op: &str) -> String {
        if let Some(ts) = op.strip_prefix("fail ") {
            let m1 = d.ask(&format!("begin {ts}"));
            if !m1.starts_with("cid ") {
                return m1;
            }
            let m2 = d.ask("abort");
            return if m2 == "ok" { format!("{m1} failed") } else { format!("{m1} {m2}") };
        }
        d.ask(op)
    }

    /// Send one op to implementation and model; compare; evaluate the oracle.
    fn apply(&mut self, op: &str, rep: &mut Option<&mut Report>) -> String {
        self.log.push(op.to_string());
        let got = self.sut.exec(op);
        if let Some(rep) = rep {
            rep.count(&format!("op:{}", op.split(' ').next().unwrap()));
        }
        if !self.diverged {
            if let Some(d) = self.drv.as_mut() {
                let model = Self::ask_model(d, op);
                if got != model {
                    self.failure("impl-vs-model", "unclassified", model, got.clone());
                    self.diverged = true;
                }
            }
        }
        // ---- oracle: the property statement on what the implementation showed -----------
        // (reads only `got` and the cids observed on the implementation, never the model)
        let kind = op.split(' ').next().unwrap();
        match kind {
            "begin" | "fail" if got.starts_with("cid ") => {
                let c = self.sut.open_cid.clone().unwrap();
                let me = (c.ts.as_nanos(), c.s_uuid);
                if let Some(rep) = rep {
                    let req: u128 = op[kind.len() + 1..].parse().unwrap();
                    rep.count(if me.0 == req { "lamport:clock-kept" } else { "lamport:bumped-past-max" });
                    if let Some(m) = self.committed_max {
                        rep.count(if req < m.0 {
                            "clock:regressed"
                        } else if req == m.0 {
                            "clock:repeated"
                        } else {
                            "clock:advanced"
                        });
                    }
                }
                if let Some(m) = self.committed_max {
                    if !(me > m) {
                        self.failure(
                            "impl-vs-oracle",
                            "stamped-not-above-committed",
                            format!("cid strictly greater than the committed {}:{}", m.0, m.1),
                            format!("transaction stamped {}:{}", me.0, me.1),
                        );
                    }
                }
                // a failed transaction was stamped but is already gone
                self.open = if kind == "begin" { Some(me) } else { None };
            }
            "commit" if got == "ok" => {
                if let Some(me) = self.open.take() {
                    // every earlier committed one must be strictly smaller
                    if let Some(m) = self.committed_max {
                        if !(me > m) {
                            self.failure(
                                "impl-vs-oracle",
                                "committed-not-increasing",
                                format!("cid strictly greater than the committed {}:{}", m.0, m.1),
                                format!("committed {}:{}", me.0, me.1),
                            );
                        }
                    }
                    self.committed.push(me);
                    self.committed_max = Some(self.committed_max.map(|m| m.max(me)).unwrap_or(me));
                    // what the committed entry carries is the cid we saw inside the transaction
                    match self.sut.committed_probe_cid() {
                        Ok(c) if (c.ts.as_nanos(), c.s_uuid) == me => {}
                        other => self.failure(
                            "impl-vs-oracle",
                            "committed-entry-cid-differs",
                            format!("probe entry carries {}:{}", me.0, me.1),
                            format!("{other:?}"),
                        ),
                    }
                }
            }
            "commit" | "abort" => {
                self.open = None;
            }
            "restart" => {
                self.open = None;
                // what was committed before the restart is still there, with its cid
                if let Some(last) = self.committed.last().cloned() {
                    match self.sut.committed_probe_cid() {
                        Ok(c) if (c.ts.as_nanos(), c.s_uuid) == last => {}
                        other => self.failure(
                            "impl-vs-oracle",
                            "restart-lost-committed-cid",
                            format!("probe entry carries {}:{}", last.0, last.1),
                            format!("{other:?}"),
                        ),
                    }
                }
            }
            _ => {}
        }
        got
    }

    /// Model's committed history = the oracle's record of what the implementation committed.
    /// (`init` transactions touch no probe: the model lists them, the observation cannot.)
    fn check_hist(&mut self, init_cids: usize) {
        if self.diverged {
            return;
        }
        let Some(d) = self.drv.as_mut() else { return };
        let h = d.ask("hist");
        let n_model = if h == "-" { 0 } else { h.split(',').count() };
        if n_model != self.committed.len() + init_cids {
            self.failure(
                "impl-vs-model",
                "unclassified",
                format!("{} committed transactions in the model", n_model),
                format!("{} observed + {} init", self.committed.len(), init_cids),
            );
        }
    }

    fn last_committed_ts(&self) -> u64 {
        self.committed_max.map(|m| m.0 as u64).unwrap_or(BOOT)
    }
}

/// All well-formed sequences of exactly `len` events over clock offsets `deltas`
/// (closed: begin d | restart d; open: commit | abort | restart d).
fn enumerate(len: usize, deltas: &[i64]) -> Vec<Vec<(char, i64)>> {
    fn go(len: usize, deltas: &[i64], open: bool, cur: &mut Vec<(char, i64)>, out: &mut Vec<Vec<(char, i64)>>) {
        if cur.len() == len {
            out.push(cur.clone());
            return;
        }
        if open {
            for (k, o) in [('c', false), ('a', false)] {
                cur.push((k, 0));
                go(len, deltas, o, cur, out);
                cur.pop();
            }
        } else {
            for d in deltas {
                cur.push(('b', *d));
                go(len, deltas, true, cur, out);
                cur.pop();
            }
        }
        for d in deltas {
            cur.push(('r', *d));
            go(len, deltas, false, cur, out);
            cur.pop();
        }
    }
    let mut out = vec![];
    go(len, deltas, false, &mut vec![], &mut out);
    out
}

fn op_line(k: char, base: u64, d: i64) -> String {
    let ts = (base as i64 + d) as u64;
    match k {
        'b' => format!("begin {ts}"),
        'r' => format!("restart {ts}"),
        'i' => format!("init {ts}"),
        'f' => format!("fail {ts}"),
        'c' => "commit".into(),
        'a' => "abort".into(),
        _ => unreachable!(),
    }
}

fn tmp_db(tag: &str) -> PathBuf {
    std::fs::create_dir_all("/tmp/c07").unwrap();
    PathBuf::from(format!("/tmp/c07/{}-{}.db", std::process::id(), tag))
}

/// Re-run an op list on a fresh server; returns (first model disagreement, first oracle failure).
/// Stops at the first oracle failure, and at the first model disagreement when `stop_on_model`.
fn replay_ops(
    driver: &str,
    file: bool,
    ops: &[String],
    opts: Opts,
    stop_on_model: bool,
) -> (Option<Failure>, Option<Failure>) {
    let mut s = Session::new(driver, if file { Some(tmp_db("replay")) } else { None }, opts);
    // the session's own setup ops are the first three of every log
    for op in ops.iter().skip(3) {
        s.apply(op, &mut None);
        if s.oracle_fail.is_some() || (stop_on_model && s.model_fail.is_some()) {
            break;
        }
    }
    (s.model_fail.take(), s.oracle_fail.take())
}

/// Minimise a failure: shortest reproducing suffix of the history first (histories are long, the
/// cause is recent), then delta debugging.  Oracle failures are re-run without the model and must
/// keep their class; model disagreements must stay model disagreements.
fn shrink_failure(driver: &str, file: bool, f: Failure, sabotage: bool) -> Failure {
    let ops: Vec<String> =
        f.input["ops"].as_array().unwrap().iter().map(|v| v.as_str().unwrap().to_string()).collect();
    if ops.len() < 3 {
        return f;
    }
    let want_oracle = f.kind == "impl-vs-oracle";
    let opts = Opts { model: !want_oracle, sabotage };
    let class = f.class.clone();
    let setup: Vec<String> = ops[..3].to_vec();
    // replays are the cost (one server boot each): a fixed number per failure, the final
    // confirming replay included
    let mut budget: u32 = if want_oracle { 60 } else { 30 };
    let mut hit = |cand: &[String]| -> Option<Failure> {
        if budget == 0 {
            return None;
        }
        budget -= 1;
        let mut all = setup.clone();
        all.extend_from_slice(cand);
        let (m, o) = replay_ops(driver, file, &all, opts, !want_oracle);
        if want_oracle {
            o.filter(|g| g.class == class)
        } else {
            m
        }
    };
    let body: Vec<String> = ops[3..].to_vec();
    let mut cur = body.clone();
    let mut best: Option<Failure> = None;
    for k in [1usize, 2, 3, 4, 6, 8, 12, 16, 24, 32, 48, 64, 96, 128, 192, 256] {
        if k >= body.len() {
            break;
        }
        let cand = &body[body.len() - k..];
        if let Some(g) = hit(cand) {
            cur = cand.to_vec();
            best = Some(g);
            break;
        }
    }
    // every accepted candidate's own replay result is kept, so no confirming replay is needed
    let mut last: Option<Failure> = None;
    let _ = shrink_list(cur, |cand| match hit(cand) {
        Some(g) => {
            last = Some(g);
            true
        }
        None => false,
    });
    last.or(best).unwrap_or(f)
}

/// At most this many model disagreements are recorded; then the model is no longer asked.
const MAX_MODEL: usize = 4;

/// What the run has found so far, model disagreements and oracle failures apart.
struct Found {
    driver: String,
    sabotage: bool,
    model: Vec<Failure>,
    oracle: Vec<Failure>,
    /// cases (sequences / histories) that ran, wholly or in part, without the model
    oracle_only_cases: u64,
}

impl Found {
    fn opts(&self) -> Opts {
        Opts { model: self.model.len() < MAX_MODEL, sabotage: self.sabotage }
    }
    /// stop early only once the property itself has a concrete failing input
    fn done(&self) -> bool {
        !self.oracle.is_empty()
    }
    /// a case (sequence / history) ended: was it judged, wholly or partly, by the oracle alone?
    fn case_done(&mut self, sess: &Session) {
        if sess.diverged || sess.drv.is_none() {
            self.oracle_only_cases += 1;
        }
    }
    fn collect(&mut self, sess: &mut Session) {
        if let Some(f) = sess.oracle_fail.take() {
            let f = shrink_failure(&self.driver, sess.file, f, self.sabotage);
            self.oracle.push(f);
        }
        if let Some(f) = sess.model_fail.take() {
            if self.model.len() < MAX_MODEL {
                let f = shrink_failure(&self.driver, sess.file, f, self.sabotage);
                self.model.push(f);
            }
        }
    }
}

/// One op of a directed (`bnd`) history.
fn go(sess: &mut Session, rep: &mut Report, rel: &mut String, k: char, ts: i64) -> String {
    let ts = ts.max(BASE as i64 - 1_000_000_000_000) as u64;
    rel.push(k);
    sess.apply(&op_line(k, ts, 0), &mut Some(rep))
}

fn main() {
    let args = Args::parse();
    let mut rep = Report::new(
        "cid-histories",
        "exh: all well-formed event sequences of fixed length over clock offsets relative to the last committed cid; \
         rand: random histories (in-memory and file-backed, with restarts, init and ill-formed ops); \
         bnd (search mode only): directed histories (commits on repeated/regressed clocks, aborted/failing/crashed \
         transactions, restart at or below the last committed ts or the last wall clock, begin at or below the restart clock); \
         non-trivial = the case commits at least one transaction AND starts at least one transaction at a clock \
         reading not above the current maximum (repeat or regression, the lamport bump branch); distinct = distinct \
         relative event sequence",
    );
    let sabotage = match args.extra.get("selftest").map(|s| s.as_str()) {
        None => false,
        Some("persist-curtime") => true,
        Some(x) => panic!("unknown --selftest {x}"),
    };
    if sabotage {
        rep.note("SELFTEST persist-curtime: the durable ts_max is overwritten by the harness at every restart; failures are expected");
    }
    if let Some(path) = &args.replay {
        let v: serde_json::Value = serde_json::from_str(&std::fs::read_to_string(path).unwrap()).unwrap();
        let inp = &v["input"];
        let ops: Vec<String> =
            inp["ops"].as_array().unwrap().iter().map(|x| x.as_str().unwrap().to_string()).collect();
        let file = inp["backend"].as_str() == Some("file");
        let sabotage = sabotage || inp["selftest"].as_str() == Some("persist-curtime");
        rep.case(Some(ops.join(";")));
        // the whole history runs on the implementation; the model is compared up to its first
        // disagreement, the oracle judges every op
        let (m, o) = replay_ops(&args.driver, file, &ops, Opts { model: true, sabotage }, false);
        for f in o.into_iter().chain(m) {
            rep.fail(f);
        }
        rep.write(&args.out);
        println!("c07: replay, {} failures", rep.failures.len());
        return;
    }
    // `--only exh|bnd|rand` (testing aid, never passed by ./check): run a single part
    let only = args.extra.get("only").cloned();
    let part = |p: &str| only.as_deref().map(|o| o == p).unwrap_or(true);
    let mut model_requests = 0;
    let mut found = Found {
        driver: args.driver.clone(),
        sabotage,
        model: vec![],
        oracle: vec![],
        oracle_only_cases: 0,
    };

    // ---- exhaustive part -----------------------------------------------------------------
    // quick: length 4 over 5 clock offsets; thorough: length 5 over 4 offsets and length 6 over 3
    let plans: Vec<(usize, Vec<i64>)> = if !part("exh") {
        vec![]
    } else if args.thorough() {
        vec![(5, vec![-1, 0, 1, 3]), (6, vec![-1, 0, 2])]
    } else {
        vec![(4, vec![-1, 0, 1, 2, 3])]
    };
    let t0 = std::time::Instant::now();
    let mut exh_complete = true;
    for (len, deltas) in &plans {
        if found.done() {
            exh_complete = false;
            break;
        }
        let seqs = enumerate(*len, deltas);
        rep.note(format!(
            "exhaustive: {} well-formed sequences of length {} over clock offsets {:?}",
            seqs.len(),
            len,
            deltas
        ));
        let mut sess = Session::new(&args.driver, None, found.opts());
        let mut since_boot = 0usize;
        for seq in &seqs {
            // bound the op log a replay has to re-run
            if since_boot >= 2000 {
                sess.check_hist(1);
                found.collect(&mut sess);
                model_requests += sess.requests();
                sess = Session::new(&args.driver, None, found.opts());
                since_boot = 0;
            }
            since_boot += 1;
            // every sequence starts with no open transaction
            if sess.sut.txn.is_some() {
                sess.apply("abort", &mut Some(&mut rep));
            }
            let base = sess.last_committed_ts();
            let mut commits = 0;
            let mut bumps = 0;
            for (k, d) in seq {
                let line = op_line(*k, base, *d);
                let got = sess.apply(&line, &mut Some(&mut rep));
                if *k == 'c' && got == "ok" {
                    commits += 1;
                }
                if *k == 'b' && got.starts_with("cid ") && !got.starts_with(&format!("cid {} ", (base as i64 + d) as u64)) {
                    bumps += 1;
                }
            }
            let key: String = seq.iter().map(|(k, d)| format!("{k}{d}")).collect::<Vec<_>>().join(",");
            rep.count(&format!("exh:len{}", len));
            let nontrivial = commits >= 1 && bumps >= 1;
            rep.case(if nontrivial { Some(format!("exh{len}/{}:{key}", deltas.len())) } else { None });
            if rep.evaluations % 1499 == 1 {
                rep.sample(json!({"stream": "exh", "relative": key, "last_ops": sess.log[sess.log.len() - seq.len()..].to_vec()}));
            }
            found.case_done(&sess);
            if sess.oracle_fail.is_some() {
                // the property itself failed on the implementation: minimise, then stop
                found.collect(&mut sess);
                exh_complete = false;
                break;
            }
            if sess.model_fail.is_some() {
                // record (a few), then carry on: with a fresh server and model while disagreements
                // are still being recorded, afterwards on the same server judged by the oracle only
                found.collect(&mut sess);
                if found.opts().model {
                    model_requests += sess.requests();
                    sess = Session::new(&args.driver, None, found.opts());
                    since_boot = 0;
                }
            }
        }
        sess.check_hist(1);
        found.collect(&mut sess);
        model_requests += sess.requests();
    }
    rep.exhaustive = exh_complete && part("exh");
    rep.note(format!("exhaustive part: {:.1}s", t0.elapsed().as_secs_f64()));

    // ---- directed boundary histories (search mode only) -------------------------------------
    let nbnd = if args.budget > 1 && part("bnd") { 4 * args.budget } else { 0 };
    let t1 = std::time::Instant::now();
    for i in 0..nbnd {
        if found.done() {
            break;
        }
        let mut r = Rng::for_case(args.seed, 1_000_000_000 + i);
        let file = r.chance(1, 2);
        let mut sess =
            Session::new(&args.driver, if file { Some(tmp_db(&format!("b{i}"))) } else { None }, found.opts());
        let rounds = r.range(4, 9);
        let mut rel = String::new();
        let mut inits = 1usize;
        let mut commits = 0;
        let mut boundary = 0;
        let mut wall: i64 = (BOOT + 5) as i64; // wall clock of the last committed transaction
        'hist: for _ in 0..rounds {
            macro_rules! op {
                ($k:expr, $ts:expr) => {{
                    let got = go(&mut sess, &mut rep, &mut rel, $k, $ts);
                    if sess.oracle_fail.is_some() {
                        break 'hist;
                    }
                    got
                }};
            }
            // A: commits on a repeated / regressed clock, with aborted, failing, ill-formed noise
            let m = sess.last_committed_ts() as i64;
            let mut clock: i64 = match r.below(5) {
                0 => m + r.range(1, 1000) as i64,
                1 => m,
                2 => m - r.range(1, 5) as i64,
                3 => m + 1,
                _ => m - r.range(1_000, 10_000_000_000) as i64,
            };
            for _ in 0..r.range(1, 4) {
                match r.below(10) {
                    0 => {
                        op!('b', clock);
                        op!('a', 0);
                    }
                    1 => {
                        op!('f', clock);
                    }
                    2 => {
                        op!('c', 0); // no transaction
                    }
                    3 => {
                        op!('b', clock);
                        op!('b', clock); // busy
                        op!('a', 0);
                    }
                    _ => {}
                }
                op!('b', clock);
                if op!('c', 0) == "ok" {
                    commits += 1;
                    wall = clock;
                }
                clock += match r.below(10) {
                    0..=4 => 0,
                    5 | 6 => -1,
                    7 => -(r.range(2, 40) as i64),
                    8 => 1,
                    _ => r.range(2, 40) as i64,
                };
            }
            // B: an aborted / failing / crashed transaction right before the restart
            match r.below(8) {
                0 => {
                    op!('b', clock); // left open: the restart is a crash
                    rep.count("restart:with-open-txn");
                }
                1 => {
                    op!('f', clock);
                }
                2 => {
                    op!('b', clock);
                    op!('a', 0);
                }
                _ => {}
            }
            // restart at an offset <= 0 (mostly) from the last committed ts / the last wall clock
            let m = sess.last_committed_ts() as i64;
            let rc = match r.below(10) {
                0 => m,
                1 => m - 1,
                2 => m - 2,
                3 => m - r.range(3, 10) as i64,
                4 => m + 1,
                5 => wall,
                6 => wall - 1,
                7 => wall + 1,
                8 => m.min(wall) - r.range(1_000, 10_000_000_000) as i64,
                _ => wall.min(m) + r.below(((m - wall).unsigned_abs()) + 1) as i64,
            };
            op!('r', rc);
            rep.count(if rc <= m { "bnd:restart-at-or-below-max" } else { "bnd:restart-above-max" });
            if r.chance(1, 8) {
                op!('r', rc - r.below(3) as i64); // restart twice in a row
            }
            if r.chance(1, 16) && op!('i', rc) == "ok" {
                inits += 1;
            }
            // C: begin at the same or a lower clock
            let bc = rc - *r.pick(&[0i64, 0, 0, 1, 1, 2, -1]);
            let m = sess.last_committed_ts() as i64;
            if rc <= m && bc <= rc {
                boundary += 1;
                rep.count("bnd:begin-at-or-below-restart-clock-below-max");
            }
            op!('b', bc);
            match r.below(8) {
                0 => {
                    op!('a', 0);
                }
                1 => {
                    // crash with the transaction open, come back at the same clock
                    rep.count("restart:with-open-txn");
                    op!('r', rc);
                    op!('b', bc);
                    if op!('c', 0) == "ok" {
                        commits += 1;
                        wall = bc;
                    }
                }
                _ => {
                    if op!('c', 0) == "ok" {
                        commits += 1;
                        wall = bc;
                    }
                }
            }
        }
        if sess.sut.txn.is_some() && sess.oracle_fail.is_none() {
            sess.apply("abort", &mut Some(&mut rep));
        }
        sess.check_hist(inits);
        rep.count(if file { "bnd:file-backed" } else { "bnd:in-memory" });
        rep.count_n("bnd:events", rel.len() as u64);
        let nontrivial = commits >= 1 && boundary >= 1;
        rep.case(if nontrivial { Some(format!("bnd/{i}/{rel}")) } else { None });
        if i < 1 {
            rep.sample(json!({"stream": "bnd", "backend": if file {"file"} else {"mem"},
                "first_ops": sess.log.iter().skip(3).take(16).collect::<Vec<_>>()}));
        }
        model_requests += sess.requests();
        found.case_done(&sess);
        found.collect(&mut sess);
    }
    if nbnd > 0 {
        rep.note(format!("directed boundary part (search mode, budget x{}): {:.1}s", args.budget, t1.elapsed().as_secs_f64()));
    }

    // ---- random histories ----------------------------------------------------------------
    let ncases = if part("rand") { args.cases(16, 120) } else { 0 };
    for i in 0..ncases {
        if found.done() {
            break;
        }
        let mut r = Rng::for_case(args.seed, i);
        let file = r.chance(1, 2);
        let mut sess =
            Session::new(&args.driver, if file { Some(tmp_db(&format!("r{i}"))) } else { None }, found.opts());
        let nev = r.range(40, 160);
        let mut clock: i64 = (BOOT + 20) as i64;
        let mut inits = 1usize;
        let mut commits = 0;
        let mut bumps = 0;
        let mut rel = String::new();
        for _ in 0..nev {
            // clock walk: repeats, small steps either way, occasional big jumps either way
            let step: i64 = match r.below(10) {
                0 | 1 => 0,
                2 | 3 => 1,
                4 => -1,
                5 => r.range(2, 40) as i64,
                6 => -(r.range(2, 40) as i64),
                7 => r.range(1_000, 5_000_000_000) as i64,
                8 => -(r.range(1_000, 5_000_000_000) as i64),
                _ => {
                    // exactly at / next to the current maximum
                    let m = sess.last_committed_ts() as i64;
                    m + r.range(0, 2) as i64 - 1 - clock
                }
            };
            clock = (clock + step).max(BASE as i64 - 1_000_000_000_000);
            let open = sess.sut.txn.is_some();
            let k = if r.chance(1, 20) {
                // ill-formed for the current state
                if open {
                    'b'
                } else {
                    *r.pick(&['c', 'a'])
                }
            } else if open {
                match r.below(10) {
                    0..=5 => 'c',
                    6..=8 => 'a',
                    _ => 'r',
                }
            } else {
                match r.below(12) {
                    0..=8 => 'b',
                    9 | 10 => 'r',
                    _ => {
                        if r.chance(1, 6) {
                            'i'
                        } else {
                            'r'
                        }
                    }
                }
            };
            let line = op_line(k, clock as u64, 0);
            let before_max = sess.last_committed_ts();
            let got = sess.apply(&line, &mut Some(&mut rep));
            rel.push(k);
            if k == 'i' && got == "ok" {
                inits += 1;
            }
            if k == 'c' && got == "ok" {
                commits += 1;
            }
            if k == 'b' && got.starts_with("cid ") && (clock as u64) <= before_max {
                bumps += 1;
            }
            if k == 'r' && open {
                rep.count("restart:with-open-txn");
            }
            // a model disagreement does not end the history: the implementation keeps running
            // and the oracle keeps judging; only a failing input of the property ends it
            if sess.oracle_fail.is_some() {
                break;
            }
        }
        sess.check_hist(inits);
        rep.count(if file { "rand:file-backed" } else { "rand:in-memory" });
        rep.count_n("rand:events", rel.len() as u64);
        let nontrivial = commits >= 1 && bumps >= 1;
        rep.case(if nontrivial { Some(format!("rand/{i}/{rel}")) } else { None });
        if i < 2 {
            rep.sample(json!({"stream": "rand", "backend": if file {"file"} else {"mem"},
                "first_ops": sess.log.iter().take(14).collect::<Vec<_>>(),
                "committed": sess.committed.iter().take(6).map(|c| format!("{}:{}", c.0, c.1)).collect::<Vec<_>>()}));
        }
        model_requests += sess.requests();
        found.case_done(&sess);
        found.collect(&mut sess);
    }

    if !found.model.is_empty() {
        rep.note(format!(
            "{} model disagreement(s) recorded (at most {MAX_MODEL}; then the model is no longer asked); {} case(s) ran \
             wholly or partly on the implementation + oracle only",
            found.model.len(),
            found.oracle_only_cases
        ));
    }
    if found.done() {
        rep.note("stopped early: a failing input of the property was found on the implementation and minimised");
    }
    let (no, nm) = (found.oracle.len(), found.model.len());
    // oracle failures first: they are the property's own verdict
    for f in found.oracle.into_iter().chain(found.model) {
        rep.fail(f);
    }
    rep.model_requests = model_requests;
    rep.write(&args.out);
    println!("c07: {} cases, {} failures ({} impl-vs-oracle, {} impl-vs-model)", rep.evaluations, no + nm, no, nm);
}
