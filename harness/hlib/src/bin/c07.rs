//! C07 — change identifiers strictly increase: correspondence + oracle on a real `QueryServer`.
//!
//! The real code (`QueryServer::new`, `::write(curtime)`, `commit()`, drop, `initialise_helper`)
//! is driven with explicit clock readings, including repeats and regressions, aborted
//! transactions and restarts; every transaction modifies one probe entry and reads back the
//! last-modified cid the server stamped on it (the property's `observe_at`).  The same op lines
//! go to the Lean model (`km_c07`); replies are compared line by line (impl-vs-model) and the
//! property's own statement is evaluated on the observed cids (impl-vs-oracle).
//!
//! Streams (one report, histogram keys say which part a case came from):
//!  * `exh`  — every well-formed event sequence of a fixed length over a small set of clock
//!             readings relative to the last committed cid, run back to back on one server
//!             (restart = new `QueryServer` over the same in-memory `Backend`);
//!  * `rand` — long random histories on in-memory and on file-backed servers (restart = the
//!             database file is closed and reopened by a fresh `Backend`), with occasional
//!             `initialise_helper` after a restart and ill-formed ops (commit without a
//!             transaction, begin while one is open).
use hlib::*;
use kanidm_proto::internal::FsType;
use kanidmd_lib::be::{Backend, BackendConfig};
use kanidmd_lib::entry::Entry;
use kanidmd_lib::prelude::*;
use kanidmd_lib::schema::Schema;
use serde_json::json;
use std::path::PathBuf;

/// Clock origin: `write()` refuses clocks below CHANGELOG_MAX_AGE (7 days), so all readings
/// are offsets from 10^6 s, in nanoseconds.
const BASE: u64 = 1_000_000_000_000_000;
const PROBE: Uuid = Uuid::from_u128(0xc07c07c0_0000_4000_8000_000000000001);

type Txn = QueryServerWriteTransaction<'static>;

/// The system under test: a real QueryServer over an in-memory or file-backed backend.
struct Sut {
    rt: tokio::runtime::Runtime,
    // order matters: txn borrows qs (lifetime erased), so it is always dropped first
    txn: Option<Txn>,
    qs: Option<Box<QueryServer>>,
    keep: Option<Backend>,
    path: Option<PathBuf>,
    probe_committed: bool,
    probe_in_txn: bool,
    counter: u64,
    uuids: Vec<Uuid>,
    /// cid observed on the probe inside the open transaction
    open_cid: Option<Cid>,
}

fn mk_backend(path: Option<&std::path::Path>) -> (Backend, Schema) {
    let schema = Schema::new().expect("schema");
    let idxmeta = {
        let s = schema.write();
        s.reload_idxmeta()
    };
    let be = Backend::new(BackendConfig::new(path, 1, FsType::Generic, Some(2048)), idxmeta, false)
        .expect("backend");
    (be, schema)
}

fn dur(ns: u64) -> Duration {
    Duration::from_nanos(ns)
}

impl Sut {
    fn boot(file: Option<PathBuf>, ts: u64) -> Sut {
        let rt = tokio::runtime::Builder::new_current_thread().enable_all().build().unwrap();
        if let Some(p) = &file {
            let _ = std::fs::remove_file(p);
        }
        let (be, schema) = mk_backend(file.as_deref());
        let keep = if file.is_none() { Some(be.clone()) } else { None };
        let qs = QueryServer::new(be, schema, "example.com".to_string(), dur(ts)).expect("QueryServer::new");
        Sut {
            rt,
            txn: None,
            qs: Some(Box::new(qs)),
            keep,
            path: file,
            probe_committed: false,
            probe_in_txn: false,
            counter: 0,
            uuids: vec![],
            open_cid: None,
        }
    }

    fn uidx(&mut self, u: Uuid) -> usize {
        match self.uuids.iter().position(|x| *x == u) {
            Some(i) => i,
            None => {
                self.uuids.push(u);
                self.uuids.len() - 1
            }
        }
    }

    fn probe_cid(txn: &mut Txn) -> Result<Cid, String> {
        let e = txn.internal_search_uuid(PROBE).map_err(|e| format!("search:{e:?}"))?;
        e.get_ava_set(Attribute::LastModifiedCid)
            .and_then(|vs| vs.to_cid_single())
            .ok_or_else(|| "no-last-modified-cid".to_string())
    }

    /// cid on the committed probe entry, through a read transaction
    fn committed_probe_cid(&mut self) -> Result<Cid, String> {
        let qs: &QueryServer = self.qs.as_ref().unwrap();
        self.rt.block_on(async {
            let mut r = qs.read().await.map_err(|e| format!("read:{e:?}"))?;
            let e = r.internal_search_uuid(PROBE).map_err(|e| format!("search:{e:?}"))?;
            e.get_ava_set(Attribute::LastModifiedCid)
                .and_then(|vs| vs.to_cid_single())
                .ok_or_else(|| "no-last-modified-cid".to_string())
        })
    }

    fn exec(&mut self, op: &str) -> String {
        let t: Vec<&str> = op.split(' ').collect();
        match t.as_slice() {
            ["begin", ts] => {
                if self.txn.is_some() {
                    return "busy".into();
                }
                let ts: u64 = ts.parse().unwrap();
                // SAFETY: the transaction is stored next to the boxed server it borrows and is
                // always dropped (commit / abort / restart / Drop) before that box is.
                let qs: &'static QueryServer = unsafe { &*(self.qs.as_ref().unwrap().as_ref() as *const QueryServer) };
                let mut txn: Txn = match self.rt.block_on(qs.write(dur(ts))) {
                    Ok(t) => t,
                    Err(e) => return format!("err:write:{e:?}"),
                };
                self.counter += 1;
                let r = if self.probe_committed {
                    txn.internal_modify_uuid(
                        PROBE,
                        &ModifyList::new_purge_and_set(Attribute::Description, Value::new_utf8s(&format!("d{}", self.counter))),
                    )
                } else {
                    let mut e = Entry::new();
                    e.add_ava(Attribute::Class, EntryClass::Object.to_value());
                    e.add_ava(Attribute::Class, EntryClass::ExtensibleObject.to_value());
                    e.add_ava(Attribute::Name, Value::new_iname("c07probe"));
                    e.add_ava(Attribute::Uuid, Value::Uuid(PROBE));
                    self.probe_in_txn = true;
                    txn.internal_create(vec![e])
                };
                if let Err(e) = r {
                    return format!("err:probe-write:{e:?}");
                }
                let c = match Self::probe_cid(&mut txn) {
                    Ok(c) => c,
                    Err(e) => return format!("err:{e}"),
                };
                self.txn = Some(txn);
                let reply = format!("cid {} {}", c.ts.as_nanos(), self.uidx(c.s_uuid));
                self.open_cid = Some(c);
                reply
            }
            ["commit"] => match self.txn.take() {
                None => "notxn".into(),
                Some(txn) => match txn.commit() {
                    Ok(()) => {
                        if self.probe_in_txn {
                            self.probe_committed = true;
                        }
                        self.probe_in_txn = false;
                        "ok".into()
                    }
                    Err(e) => {
                        self.probe_in_txn = false;
                        format!("err:{e:?}")
                    }
                },
            },
            ["abort"] => match self.txn.take() {
                None => "notxn".into(),
                Some(txn) => {
                    drop(txn);
                    self.probe_in_txn = false;
                    self.open_cid = None;
                    "ok".into()
                }
            },
            ["restart", ts] => {
                let ts: u64 = ts.parse().unwrap();
                self.txn = None;
                self.probe_in_txn = false;
                self.open_cid = None;
                self.qs = None; // drops the server (and, file-backed, the only Backend → closes the db)
                let (be, schema) = match (&self.keep, &self.path) {
                    (Some(be), _) => (be.clone(), Schema::new().expect("schema")),
                    (None, Some(p)) => mk_backend(Some(p.as_path())),
                    _ => unreachable!(),
                };
                match QueryServer::new(be, schema, "example.com".to_string(), dur(ts)) {
                    Ok(qs) => {
                        self.qs = Some(Box::new(qs));
                        "ok".into()
                    }
                    Err(e) => format!("err:new:{e:?}"),
                }
            }
            ["init", ts] => {
                if self.txn.is_some() {
                    return "busy".into();
                }
                let ts: u64 = ts.parse().unwrap();
                let qs: &QueryServer = self.qs.as_ref().unwrap();
                match self.rt.block_on(qs.initialise_helper(dur(ts), DOMAIN_TGT_LEVEL)) {
                    Ok(()) => "ok".into(),
                    Err(e) => format!("err:init:{e:?}"),
                }
            }
            _ => panic!("bad op {op}"),
        }
    }
}

impl Drop for Sut {
    fn drop(&mut self) {
        self.txn = None;
        self.qs = None;
        self.keep = None;
        if let Some(p) = &self.path {
            let _ = std::fs::remove_file(p);
            let _ = std::fs::remove_file(format!("{}-wal", p.display()));
            let _ = std::fs::remove_file(format!("{}-shm", p.display()));
        }
    }
}

/// One server + one model instance + the oracle's memory, fed the same op lines.
struct Session {
    sut: Sut,
    drv: Driver,
    file: bool,
    log: Vec<String>,
    /// oracle: cids of committed transactions as observed on the probe entry, (ts, uuid)
    committed: Vec<(u128, Uuid)>,
    committed_max: Option<(u128, Uuid)>,
    open: Option<(u128, Uuid)>,
    fail: Option<Failure>,
}

const BOOT: u64 = BASE;

impl Session {
    fn new(driver: &str, file: Option<PathBuf>) -> Session {
        let is_file = file.is_some();
        let mut s = Session {
            sut: Sut::boot(file, BOOT),
            drv: Driver::spawn(driver),
            file: is_file,
            log: vec![],
            committed: vec![],
            committed_max: None,
            open: None,
            fail: None,
        };
        let r = s.drv.ask(&format!("boot 0 {BOOT}"));
        assert_eq!(r, "ok");
        // bring the database up (schema, builtin entries) and create the probe entry; these are
        // ordinary ops, seen by the model and the oracle alike
        for op in [format!("init {}", BOOT + 10), format!("begin {}", BOOT + 5), "commit".to_string()] {
            s.apply(&op, &mut None);
        }
        s
    }

    fn input(&self) -> serde_json::Value {
        json!({"backend": if self.file { "file" } else { "mem" }, "ops": self.log})
    }

    fn failure(&mut self, kind: &str, class: &str, expected: String, observed: String) {
        if self.fail.is_none() {
            self.fail = Some(Failure {
                kind: kind.into(),
                class: class.into(),
                input: self.input(),
                expected,
                observed,
            });
        }
    }

    /// Send one op to implementation and model; compare; evaluate the oracle.
    fn apply(&mut self, op: &str, rep: &mut Option<&mut Report>) -> String {
        self.log.push(op.to_string());
        let got = self.sut.exec(op);
        let model = self.drv.ask(op);
        if let Some(rep) = rep {
            rep.count(&format!("op:{}", op.split(' ').next().unwrap()));
        }
        if got != model {
            self.failure("impl-vs-model", "unclassified", model.clone(), got.clone());
        }
        // ---- oracle: the property statement on what the implementation showed -----------
        let kind = op.split(' ').next().unwrap();
        match kind {
            "begin" if got.starts_with("cid ") => {
                let c = self.sut.open_cid.clone().unwrap();
                let me = (c.ts.as_nanos(), c.s_uuid);
                if let Some(rep) = rep {
                    let req: u128 = op[6..].parse().unwrap();
                    rep.count(if me.0 == req { "lamport:clock-kept" } else { "lamport:bumped-past-max" });
                    if let Some(m) = self.committed_max {
                        rep.count(if req < m.0 {
                            "clock:regressed"
                        } else if req == m.0 {
                            "clock:repeated"
                        } else {
                            "clock:advanced"
                        });
                    }
                }
                if let Some(m) = self.committed_max {
                    if !(me > m) {
                        self.failure(
                            "impl-vs-oracle",
                            "stamped-not-above-committed",
                            format!("cid strictly greater than the committed {}:{}", m.0, m.1),
                            format!("transaction stamped {}:{}", me.0, me.1),
                        );
                    }
                }
                self.open = Some(me);
            }
            "commit" if got == "ok" => {
                if let Some(me) = self.open.take() {
                    // every earlier committed one must be strictly smaller
                    if let Some(m) = self.committed_max {
                        if !(me > m) {
                            self.failure(
                                "impl-vs-oracle",
                                "committed-not-increasing",
                                format!("cid strictly greater than the committed {}:{}", m.0, m.1),
                                format!("committed {}:{}", me.0, me.1),
                            );
                        }
                    }
                    self.committed.push(me);
                    self.committed_max = Some(self.committed_max.map(|m| m.max(me)).unwrap_or(me));
                    // what the committed entry carries is the cid we saw inside the transaction
                    match self.sut.committed_probe_cid() {
                        Ok(c) if (c.ts.as_nanos(), c.s_uuid) == me => {}
                        other => self.failure(
                            "impl-vs-oracle",
                            "committed-entry-cid-differs",
                            format!("probe entry carries {}:{}", me.0, me.1),
                            format!("{other:?}"),
                        ),
                    }
                }
            }
            "commit" | "abort" => {
                self.open = None;
            }
            "restart" => {
                self.open = None;
                // what was committed before the restart is still there, with its cid
                if let Some(last) = self.committed.last().cloned() {
                    match self.sut.committed_probe_cid() {
                        Ok(c) if (c.ts.as_nanos(), c.s_uuid) == last => {}
                        other => self.failure(
                            "impl-vs-oracle",
                            "restart-lost-committed-cid",
                            format!("probe entry carries {}:{}", last.0, last.1),
                            format!("{other:?}"),
                        ),
                    }
                }
            }
            _ => {}
        }
        got
    }

    /// Model's committed history = the oracle's record of what the implementation committed.
    /// (`init` transactions touch no probe: the model lists them, the observation cannot.)
    fn check_hist(&mut self, init_cids: usize) {
        let h = self.drv.ask("hist");
        let n_model = if h == "-" { 0 } else { h.split(',').count() };
        if n_model != self.committed.len() + init_cids {
            self.failure(
                "impl-vs-model",
                "unclassified",
                format!("{} committed transactions in the model", n_model),
                format!("{} observed + {} init", self.committed.len(), init_cids),
            );
        }
    }

    fn last_committed_ts(&self) -> u64 {
        self.committed_max.map(|m| m.0 as u64).unwrap_or(BOOT)
    }
}

/// All well-formed sequences of exactly `len` events over clock offsets `deltas`
/// (closed: begin d | restart d; open: commit | abort | restart d).
fn enumerate(len: usize, deltas: &[i64]) -> Vec<Vec<(char, i64)>> {
    fn go(len: usize, deltas: &[i64], open: bool, cur: &mut Vec<(char, i64)>, out: &mut Vec<Vec<(char, i64)>>) {
        if cur.len() == len {
            out.push(cur.clone());
            return;
        }
        if open {
            for (k, o) in [('c', false), ('a', false)] {
                cur.push((k, 0));
                go(len, deltas, o, cur, out);
                cur.pop();
            }
        } else {
            for d in deltas {
                cur.push(('b', *d));
                go(len, deltas, true, cur, out);
                cur.pop();
            }
        }
        for d in deltas {
            cur.push(('r', *d));
            go(len, deltas, false, cur, out);
            cur.pop();
        }
    }
    let mut out = vec![];
    go(len, deltas, false, &mut vec![], &mut out);
    out
}

fn op_line(k: char, base: u64, d: i64) -> String {
    let ts = (base as i64 + d) as u64;
    match k {
        'b' => format!("begin {ts}"),
        'r' => format!("restart {ts}"),
        'i' => format!("init {ts}"),
        'c' => "commit".into(),
        'a' => "abort".into(),
        _ => unreachable!(),
    }
}

fn tmp_db(tag: &str) -> PathBuf {
    std::fs::create_dir_all("/tmp/c07").unwrap();
    PathBuf::from(format!("/tmp/c07/{}-{}.db", std::process::id(), tag))
}

/// Re-run an op list on a fresh server; returns the first failure.
fn replay_ops(driver: &str, file: bool, ops: &[String]) -> Option<Failure> {
    let mut s = Session::new(driver, if file { Some(tmp_db("replay")) } else { None });
    // the session's own setup ops are the first three of every log
    for op in ops.iter().skip(3) {
        s.apply(op, &mut None);
        if s.fail.is_some() {
            break;
        }
    }
    s.fail.take()
}

fn shrink_failure(driver: &str, file: bool, f: Failure) -> Failure {
    let ops: Vec<String> =
        f.input["ops"].as_array().unwrap().iter().map(|v| v.as_str().unwrap().to_string()).collect();
    if ops.len() < 3 {
        return f;
    }
    let setup: Vec<String> = ops[..3].to_vec();
    let mut budget = 20;
    let kind = f.kind.clone();
    let small = shrink_list(ops[3..].to_vec(), |cand| {
        if budget == 0 {
            return false;
        }
        budget -= 1;
        let mut all = setup.clone();
        all.extend_from_slice(cand);
        matches!(replay_ops(driver, file, &all), Some(g) if g.kind == kind)
    });
    let mut all = setup;
    all.extend(small);
    match replay_ops(driver, file, &all) {
        Some(g) if g.kind == kind => g,
        _ => f,
    }
}

fn main() {
    let args = Args::parse();
    let mut rep = Report::new(
        "cid-histories",
        "exh: all well-formed event sequences of fixed length over clock offsets relative to the last committed cid; \
         rand: random histories (in-memory and file-backed, with restarts, init and ill-formed ops); \
         non-trivial = the case commits at least one transaction AND starts at least one transaction at a clock \
         reading not above the current maximum (repeat or regression, the lamport bump branch); distinct = distinct \
         relative event sequence",
    );
    if let Some(path) = &args.replay {
        let v: serde_json::Value = serde_json::from_str(&std::fs::read_to_string(path).unwrap()).unwrap();
        let inp = &v["input"];
        let ops: Vec<String> =
            inp["ops"].as_array().unwrap().iter().map(|x| x.as_str().unwrap().to_string()).collect();
        let file = inp["backend"].as_str() == Some("file");
        rep.case(Some(ops.join(";")));
        if let Some(f) = replay_ops(&args.driver, file, &ops) {
            rep.fail(f);
        }
        rep.write(&args.out);
        println!("c07: replay, {} failures", rep.failures.len());
        return;
    }
    let mut model_requests = 0;
    let mut failures: Vec<(bool, Failure)> = vec![];

    // ---- exhaustive part -----------------------------------------------------------------
    // quick: length 4 over 5 clock offsets; thorough: length 5 over 4 offsets and length 6 over 3
    let plans: Vec<(usize, Vec<i64>)> = if args.thorough() {
        vec![(5, vec![-1, 0, 1, 3]), (6, vec![-1, 0, 2])]
    } else {
        vec![(4, vec![-1, 0, 1, 2, 3])]
    };
    let t0 = std::time::Instant::now();
    for (len, deltas) in &plans {
        let seqs = enumerate(*len, deltas);
        rep.note(format!(
            "exhaustive: {} well-formed sequences of length {} over clock offsets {:?}",
            seqs.len(),
            len,
            deltas
        ));
        let mut sess = Session::new(&args.driver, None);
        let mut since_boot = 0usize;
        for seq in &seqs {
            // bound the op log a replay has to re-run
            if since_boot >= 2000 {
                sess.check_hist(1);
                if let Some(f) = sess.fail.take() {
                    failures.push((false, f));
                }
                model_requests += sess.drv.requests;
                sess = Session::new(&args.driver, None);
                since_boot = 0;
            }
            since_boot += 1;
            // every sequence starts with no open transaction
            if sess.sut.txn.is_some() {
                sess.apply("abort", &mut Some(&mut rep));
            }
            let base = sess.last_committed_ts();
            let mut commits = 0;
            let mut bumps = 0;
            for (k, d) in seq {
                let line = op_line(*k, base, *d);
                let got = sess.apply(&line, &mut Some(&mut rep));
                if *k == 'c' && got == "ok" {
                    commits += 1;
                }
                if *k == 'b' && got.starts_with("cid ") && !got.starts_with(&format!("cid {} ", (base as i64 + d) as u64)) {
                    bumps += 1;
                }
            }
            let key: String = seq.iter().map(|(k, d)| format!("{k}{d}")).collect::<Vec<_>>().join(",");
            rep.count(&format!("exh:len{}", len));
            let nontrivial = commits >= 1 && bumps >= 1;
            rep.case(if nontrivial { Some(format!("exh{len}/{}:{key}", deltas.len())) } else { None });
            if rep.evaluations % 1499 == 1 {
                rep.sample(json!({"stream": "exh", "relative": key, "last_ops": sess.log[sess.log.len() - seq.len()..].to_vec()}));
            }
            if let Some(f) = sess.fail.take() {
                failures.push((false, f));
                model_requests += sess.drv.requests;
                sess = Session::new(&args.driver, None);
                since_boot = 0;
                if failures.len() >= 3 {
                    break;
                }
            }
        }
        sess.check_hist(1);
        if let Some(f) = sess.fail.take() {
            failures.push((false, f));
        }
        model_requests += sess.drv.requests;
    }
    rep.exhaustive = true;
    rep.note(format!("exhaustive part: {:.1}s", t0.elapsed().as_secs_f64()));

    // ---- random histories ----------------------------------------------------------------
    let ncases = args.cases(16, 120);
    for i in 0..ncases {
        if failures.len() >= 3 {
            break;
        }
        let mut r = Rng::for_case(args.seed, i);
        let file = r.chance(1, 2);
        let mut sess = Session::new(&args.driver, if file { Some(tmp_db(&format!("r{i}"))) } else { None });
        let nev = r.range(40, 160);
        let mut clock: i64 = (BOOT + 20) as i64;
        let mut inits = 1usize;
        let mut commits = 0;
        let mut bumps = 0;
        let mut rel = String::new();
        for _ in 0..nev {
            // clock walk: repeats, small steps either way, occasional big jumps either way
            let step: i64 = match r.below(10) {
                0 | 1 => 0,
                2 | 3 => 1,
                4 => -1,
                5 => r.range(2, 40) as i64,
                6 => -(r.range(2, 40) as i64),
                7 => r.range(1_000, 5_000_000_000) as i64,
                8 => -(r.range(1_000, 5_000_000_000) as i64),
                _ => {
                    // exactly at / next to the current maximum
                    let m = sess.last_committed_ts() as i64;
                    m + r.range(0, 2) as i64 - 1 - clock
                }
            };
            clock = (clock + step).max(BASE as i64 - 1_000_000_000_000);
            let open = sess.sut.txn.is_some();
            let k = if r.chance(1, 20) {
                // ill-formed for the current state
                if open {
                    'b'
                } else {
                    *r.pick(&['c', 'a'])
                }
            } else if open {
                match r.below(10) {
                    0..=5 => 'c',
                    6..=8 => 'a',
                    _ => 'r',
                }
            } else {
                match r.below(12) {
                    0..=8 => 'b',
                    9 | 10 => 'r',
                    _ => {
                        if r.chance(1, 6) {
                            'i'
                        } else {
                            'r'
                        }
                    }
                }
            };
            let line = op_line(k, clock as u64, 0);
            let before_max = sess.last_committed_ts();
            let got = sess.apply(&line, &mut Some(&mut rep));
            rel.push(k);
            if k == 'i' && got == "ok" {
                inits += 1;
            }
            if k == 'c' && got == "ok" {
                commits += 1;
            }
            if k == 'b' && got.starts_with("cid ") && (clock as u64) <= before_max {
                bumps += 1;
            }
            if k == 'r' && open {
                rep.count("restart:with-open-txn");
            }
            if sess.fail.is_some() {
                break;
            }
        }
        sess.check_hist(inits);
        rep.count(if file { "rand:file-backed" } else { "rand:in-memory" });
        rep.count_n("rand:events", rel.len() as u64);
        let nontrivial = commits >= 1 && bumps >= 1;
        rep.case(if nontrivial { Some(format!("rand/{i}/{rel}")) } else { None });
        if i < 2 {
            rep.sample(json!({"stream": "rand", "backend": if file {"file"} else {"mem"},
                "first_ops": sess.log.iter().take(14).collect::<Vec<_>>(),
                "committed": sess.committed.iter().take(6).map(|c| format!("{}:{}", c.0, c.1)).collect::<Vec<_>>()}));
        }
        model_requests += sess.drv.requests;
        if let Some(f) = sess.fail.take() {
            failures.push((file, f));
        }
    }

    for (file, f) in failures {
        let f = shrink_failure(&args.driver, file, f);
        rep.fail(f);
    }
    rep.model_requests = model_requests;
    rep.write(&args.out);
    println!("c07: {} cases, {} failures", rep.evaluations, rep.failures.len());
}
