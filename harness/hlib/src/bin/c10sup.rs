//! C10 (second stream) — the REAL supplier path: `QueryServerReadTransaction::supplier_provide_changes`.
//!
//! Three real in-memory servers (A, B: `setup_pair_test`; C: `setup_test`) are joined into one
//! topology with the public replication API (`supplier_provide_refresh` / `consumer_apply_refresh`,
//! `consumer_get_state` / `supplier_provide_changes` / `consumer_apply_changes`) and written to,
//! so that A's RUV knows 2 servers (phase `pair`), 3 servers (phase `trio`), and finally 3 servers
//! of which one has gone silent for 30 days and is filtered out of A's view by `trim_cid` (phase
//! `stale`), and last A's RUV after the periodic purge trimmed it (phase `trimmed`).  In each phase A is the supplier: its real ranges are read back with
//! `consumer_get_state()`, consumer ranges are crafted per server relative to A's real windows
//! (equal / behind / ahead / touching either end / inside / one-short / superset / missing / an
//! unknown extra server; all combinations + random point pairs + malformed windows + foreign
//! domain) and the real `supplier_provide_changes(ReplRuvRange::V1 { .. })` is called.
//!
//! Its reply (`V1 { ranges }` / NoChangesAvailable / RefreshRequired / UnwillingToSupply /
//! DomainMismatch) is compared with
//!  (a) the Lean driver's `supplierProvide` on the same maps, raw nanoseconds (impl-vs-model);
//!  (b) an oracle written from the property sentence only (impl-vs-oracle).
use hlib::*;
use kanidmd_lib::entry::{Entry, EntryInit, EntryNew};
use kanidmd_lib::prelude::*;
use kanidmd_lib::repl::proto::{ConsumerState, ReplCidRange, ReplIncrementalContext, ReplRuvRange};
use kanidmd_lib::testkit::{setup_pair_test, setup_test, TestConfiguration};
use serde_json::{json, Value as J};
use std::collections::{BTreeMap, BTreeSet};

type Win = (Duration, Duration);
type Map = BTreeMap<Uuid, Win>;

const ROLES: [&str; 4] = ["A", "B", "C", "X"];
/// Points relative to a reference window [m, M] (nanosecond steps around both ends).
const POINTS: [&str; 9] = ["m-2", "m-1", "m", "m+1", "mid", "M-1", "M", "M+1", "M+2"];
/// Named consumer windows (pmin, pmax) relative to the supplier's window of the same server.
const OPTIONS: [(&str, &str, &str); 9] = [
    ("eq", "m", "M"),
    ("behind", "m-2", "m-1"),     // consumer.max < supplier.min
    ("touch-lo", "m-1", "m"),     // consumer.max == supplier.min: not behind
    ("inside", "m", "mid"),       // consumer.max strictly inside
    ("short", "m", "M-1"),        // consumer.max one tick before supplier.max
    ("ahead", "M+1", "M+2"),      // supplier.max < consumer.min
    ("touch-hi", "M", "M+1"),     // consumer.min == supplier.max: not ahead
    ("super", "m-1", "M+1"),
    ("late", "mid", "M+2"),
];

struct World {
    rt: tokio::runtime::Runtime,
    qs: Vec<QueryServer>, // A, B, C
    ct: Duration,
    seq: u32,
}

impl World {
    fn new() -> World {
        let rt = tokio::runtime::Builder::new_current_thread().enable_all().build().unwrap();
        let (a, b) = rt.block_on(setup_pair_test(TestConfiguration::default()));
        let c = rt.block_on(setup_test(TestConfiguration::default()));
        let ct = duration_from_epoch_now() + Duration::from_secs(5);
        World { rt, qs: vec![a, b, c], ct, seq: 0 }
    }
    fn tick(&mut self) -> Duration {
        self.ct += Duration::from_secs(1);
        self.ct
    }
    /// One committed write on server `i` (a new group).
    fn write(&mut self, i: usize) {
        let ct = self.tick();
        self.seq += 1;
        let mut w = self.rt.block_on(self.qs[i].write(ct)).expect("write txn");
        let mut e: Entry<EntryInit, EntryNew> = Entry::new();
        e.add_ava(Attribute::Class, EntryClass::Object.to_value());
        e.add_ava(Attribute::Class, EntryClass::Group.to_value());
        e.add_ava(Attribute::Name, Value::new_iname(&format!("c10g{}s{}", self.seq, i)));
        e.add_ava(Attribute::Uuid, Value::Uuid(nat_uuid(0xC100_0000 + self.seq as u64)));
        w.internal_create(vec![e]).expect("create");
        w.commit().expect("commit");
    }
    /// `to` becomes a replica of `from`.
    fn refresh(&mut self, from: usize, to: usize) {
        let ct = self.tick();
        let mut r = self.rt.block_on(self.qs[from].read()).expect("read");
        let mut w = self.rt.block_on(self.qs[to].write(ct)).expect("write");
        let ctx = r.supplier_provide_refresh().expect("refresh ctx");
        w.consumer_apply_refresh(ctx).expect("apply refresh");
        w.commit().expect("commit refresh");
    }
    /// Incremental replication from → to.
    fn repl(&mut self, from: usize, to: usize) {
        let ct = self.tick();
        let mut r = self.rt.block_on(self.qs[from].read()).expect("read");
        let mut w = self.rt.block_on(self.qs[to].write(ct)).expect("write");
        let state = w.consumer_get_state().expect("state");
        let changes = r.supplier_provide_changes(state).expect("changes");
        match w.consumer_apply_changes(changes).expect("apply") {
            ConsumerState::Ok => w.commit().expect("commit"),
            ConsumerState::RefreshRequired => panic!("setup replication {from}->{to} demanded a refresh"),
        }
    }
    /// The periodic tombstone purge, which also trims the RUV below the changelog age.
    fn purge(&mut self, i: usize) {
        let ct = self.tick();
        let mut w = self.rt.block_on(self.qs[i].write(ct)).expect("write txn");
        w.purge_tombstones().expect("purge");
        w.commit().expect("commit");
    }
    fn server_id(&mut self, i: usize) -> Uuid {
        // the server's own id = the only new key its RUV gains by a local write; read it from the
        // RUV difference instead of a crate-private accessor
        let before = self.ruv(i).1;
        self.write(i);
        let after = self.ruv(i).1;
        let grown: Vec<Uuid> = after
            .iter()
            .filter(|(k, w)| before.get(*k).map(|b| b.1 != w.1).unwrap_or(true))
            .map(|(k, _)| *k)
            .collect();
        assert_eq!(grown.len(), 1, "a local write must advance exactly one RUV window");
        grown[0]
    }
    /// (domain uuid, complete RUV ranges) of server `i`, via the public `consumer_get_state`.
    fn ruv(&mut self, i: usize) -> (Uuid, Map) {
        let mut r = self.rt.block_on(self.qs[i].read()).expect("read");
        match r.consumer_get_state().expect("state") {
            ReplRuvRange::V1 { domain_uuid, ranges } => {
                (domain_uuid, ranges.into_iter().map(|(k, v)| (k, (v.ts_min, v.ts_max))).collect())
            }
        }
    }
    fn provide(&mut self, i: usize, domain_uuid: Uuid, consumer: &Map) -> Obs {
        let mut r = self.rt.block_on(self.qs[i].read()).expect("read");
        let ranges = consumer.iter().map(|(k, (a, b))| (*k, ReplCidRange { ts_min: *a, ts_max: *b })).collect();
        match r.supplier_provide_changes(ReplRuvRange::V1 { domain_uuid, ranges }) {
            Ok(ReplIncrementalContext::DomainMismatch) => Obs::Unit("domainmismatch"),
            Ok(ReplIncrementalContext::NoChangesAvailable) => Obs::Unit("nochanges"),
            Ok(ReplIncrementalContext::RefreshRequired) => Obs::Unit("refresh"),
            Ok(ReplIncrementalContext::UnwillingToSupply) => Obs::Unit("unwilling"),
            Ok(ReplIncrementalContext::V1 { ranges, .. }) => {
                Obs::Supply(ranges.into_iter().map(|(k, v)| (k, (v.ts_min, v.ts_max))).collect())
            }
            Err(e) => Obs::Error(format!("{e:?}")),
        }
    }
}

#[derive(Debug, Clone, PartialEq, Eq)]
enum Obs {
    Unit(&'static str),
    Supply(Map),
    Error(String),
}

/// One phase of the topology with A as supplier.
struct Phase {
    name: &'static str,
    domain: Uuid,
    /// role → server uuid (A, B, C as far as they are in A's RUV; X = a uuid A never saw)
    ids: BTreeMap<&'static str, Uuid>,
    /// role → reference window (A's complete RUV; X borrows A's)
    refw: BTreeMap<&'static str, Win>,
    /// what A as supplier compares against: its RUV minus servers silent for longer than the changelog age
    view: Map,
}

fn point(w: Win, p: &str) -> Duration {
    let ns = Duration::from_nanos;
    let (m, mx) = w;
    match p {
        // a window may start at the epoch (the first server's bootstrap does): nothing is older
        "m-2" => m.saturating_sub(ns(2)),
        "m-1" => m.saturating_sub(ns(1)),
        "m" => m,
        "m+1" => m + ns(1),
        "mid" => m + (mx - m) / 2,
        "M-1" => mx - ns(1),
        "M" => mx,
        "M+1" => mx + ns(1),
        "M+2" => mx + ns(2),
        _ => panic!("bad point {p}"),
    }
}

/// A case: per role an optional (pmin, pmax) pair of point names, and whether the domain matches.
#[derive(Clone, Debug)]
struct Case {
    same_domain: bool,
    wins: Vec<(&'static str, &'static str, &'static str)>,
}

fn intern(s: &str, table: &[&'static str]) -> &'static str {
    table.iter().find(|t| **t == s).copied().unwrap_or_else(|| panic!("unknown token {s}"))
}

impl Case {
    fn key(&self, phase: &str) -> String {
        let w: Vec<String> = self.wins.iter().map(|(r, a, b)| format!("{r}:{a}:{b}")).collect();
        format!("{phase}|d{}|{}", self.same_domain as u8, if w.is_empty() { "-".into() } else { w.join(",") })
    }
    fn to_json(&self, phase: &str) -> J {
        json!({"stream": "supplier", "phase": phase, "same_domain": self.same_domain,
               "consumer": self.wins.iter().map(|(r, a, b)| json!([r, a, b])).collect::<Vec<_>>()})
    }
    fn from_json(v: &J) -> Case {
        Case {
            same_domain: v["same_domain"].as_bool().unwrap_or(true),
            wins: v["consumer"]
                .as_array()
                .map(|a| {
                    a.iter()
                        .map(|t| {
                            (
                                intern(t[0].as_str().unwrap(), &ROLES),
                                intern(t[1].as_str().unwrap(), &POINTS),
                                intern(t[2].as_str().unwrap(), &POINTS),
                            )
                        })
                        .collect()
                })
                .unwrap_or_default(),
        }
    }
    fn consumer(&self, ph: &Phase) -> Map {
        self.wins
            .iter()
            .filter(|(r, _, _)| ph.ids.contains_key(r))
            .map(|(r, a, b)| (ph.ids[r], (point(ph.refw[r], a), point(ph.refw[r], b))))
            .collect()
    }
}

/// The property sentence, and nothing else.  `None` = the sentence does not speak about this input.
/// Returns the demanded reply kind and, for "supply", the exact windows.
fn oracle(c: &Map, s: &Map) -> Option<(&'static str, Map)> {
    if c.values().any(|(a, b)| a > b) || s.values().any(|(a, b)| a > b) {
        return None; // not windows
    }
    let shared: Vec<&Uuid> = s.keys().filter(|k| c.contains_key(*k)).collect();
    if shared.is_empty() {
        return Some(("unwilling", Map::new())); // "share no server at all": refuses
    }
    let behind = shared.iter().any(|k| c[*k].1 < s[*k].0);
    let ahead = shared.iter().any(|k| s[*k].1 < c[*k].0);
    match (behind, ahead) {
        (true, false) => Some(("refresh", Map::new())),
        (false, true) | (true, true) => Some(("unwilling", Map::new())),
        (false, false) => {
            let mut d = Map::new();
            for (k, (_, smax)) in s {
                match c.get(k) {
                    // from the consumer's newest change to the supplier's newest
                    Some((_, cmax)) if cmax < smax => {
                        d.insert(*k, (*cmax, *smax));
                    }
                    Some(_) => {}
                    // never seen: all changes
                    None => {
                        d.insert(*k, (Duration::ZERO, *smax));
                    }
                }
            }
            Some(("supply", d))
        }
    }
}

struct Ctx {
    drv: Driver,
    rep: Report,
}

fn show_raw(m: &Map, rank: &BTreeMap<Uuid, usize>) -> String {
    if m.is_empty() {
        return "-".into();
    }
    m.iter().map(|(k, (a, b))| format!("{}:{}:{}", rank[k], a.as_nanos(), b.as_nanos())).collect::<Vec<_>>().join(",")
}

/// Human-readable form: server roles and time ranks (order-preserving, 0 = the epoch).
fn show_pretty(m: &Map, ph: &Phase, times: &BTreeMap<Duration, usize>) -> String {
    if m.is_empty() {
        return "-".into();
    }
    let role = |u: &Uuid| ph.ids.iter().find(|(_, v)| *v == u).map(|(r, _)| r.to_string()).unwrap_or_else(|| "?".into());
    let t = |d: &Duration| times.get(d).map(|r| format!("t{r}")).unwrap_or_else(|| format!("?{}", d.as_nanos()));
    // sorted by role so that the text does not depend on this run's random server uuids
    let mut v: Vec<String> = m.iter().map(|(k, (a, b))| format!("{}:{}:{}", role(k), t(a), t(b))).collect();
    v.sort();
    v.join(",")
}

fn run_case(w: &mut World, ctx: &mut Ctx, ph: &Phase, case: &Case) {
    let consumer = case.consumer(ph);
    let domain = if case.same_domain { ph.domain } else { nat_uuid(0xC10D_0000) };
    let obs = w.provide(0, domain, &consumer);

    // ids for the model: rank in Uuid order over both maps = BTreeMap iteration order of the real code
    let all: BTreeSet<Uuid> = consumer.keys().chain(ph.view.keys()).cloned().collect();
    let rank: BTreeMap<Uuid, usize> = all.iter().enumerate().map(|(i, u)| (*u, i + 1)).collect();
    let mut tset: BTreeSet<Duration> = BTreeSet::new();
    tset.insert(Duration::ZERO);
    for (a, b) in consumer.values().chain(ph.view.values()) {
        tset.insert(*a);
        tset.insert(*b);
    }
    let times: BTreeMap<Duration, usize> = tset.iter().enumerate().map(|(i, d)| (*d, i)).collect();

    let line = format!("sp {} {} {}", case.same_domain as u8, show_raw(&consumer, &rank), show_raw(&ph.view, &rank));
    let model = ctx.drv.ask(&line);
    let got = match &obs {
        Obs::Unit(s) => s.to_string(),
        Obs::Supply(m) => {
            if m.keys().all(|k| rank.contains_key(k)) {
                format!("supply {}", show_raw(m, &rank))
            } else {
                format!("supply with unknown server ids {m:?}")
            }
        }
        Obs::Error(e) => format!("error {e}"),
    };
    let pretty = |o: &Obs| match o {
        Obs::Unit(s) => s.to_string(),
        Obs::Supply(m) => format!("supply {}", show_pretty(m, ph, &times)),
        Obs::Error(e) => format!("error {e}"),
    };
    let kind = got.split(' ').next().unwrap().to_string();
    let input = {
        let mut j = case.to_json(ph.name);
        j["consumer_windows"] = json!(show_pretty(&consumer, ph, &times));
        j["supplier_windows"] = json!(show_pretty(&ph.view, ph, &times));
        j["request"] = json!(line);
        j
    };

    let shared = ph.view.keys().filter(|k| consumer.contains_key(*k)).count();
    let wellformed = consumer.values().all(|(a, b)| a <= b);
    ctx.rep.count(&format!("reply:{kind}"));
    ctx.rep.count(&format!("phase:{}", ph.name));
    ctx.rep.count(&format!("shared:{shared}"));
    if !wellformed {
        ctx.rep.count("malformed-window");
    }
    if !case.same_domain {
        ctx.rep.count("foreign-domain");
    }
    // non-trivial: the reply is decided by the comparison of at least two servers' windows, or it is
    // a refusal / refresh / supply that depends on a shared server
    let nontrivial = case.same_domain && shared >= 1 && (consumer.len() >= 2 || kind != "nochanges");
    ctx.rep.case(if nontrivial { Some(case.key(ph.name)) } else { None });
    if ctx.rep.evaluations % 97 == 1 {
        ctx.rep.sample(json!({"case": case.key(ph.name), "consumer": show_pretty(&consumer, ph, &times),
            "supplier": show_pretty(&ph.view, ph, &times), "impl": pretty(&obs), "model": model}));
    }

    // (b) oracle: the property sentence
    if case.same_domain {
        match oracle(&consumer, &ph.view) {
            None => ctx.rep.count("oracle-n/a"),
            Some((okind, need)) => {
                // why the sentence demands this reply (for the coverage histogram)
                let sh: Vec<&Uuid> = ph.view.keys().filter(|k| consumer.contains_key(*k)).collect();
                let behind = sh.iter().any(|k| consumer[*k].1 < ph.view[*k].0);
                let ahead = sh.iter().any(|k| ph.view[*k].1 < consumer[*k].0);
                ctx.rep.count(match (sh.is_empty(), behind, ahead) {
                    (true, _, _) => "cause:no-shared-server",
                    (_, true, true) => "cause:behind-and-ahead",
                    (_, true, false) => "cause:behind",
                    (_, false, true) => "cause:ahead",
                    _ if need.is_empty() => "cause:overlap-nothing-needed",
                    _ => "cause:overlap-supply",
                });
                let ok = match (&obs, okind) {
                    (Obs::Unit("refresh"), "refresh") => true,
                    (Obs::Unit("unwilling"), "unwilling") => true,
                    // nothing is needed: "no changes" (or an empty supply) both send exactly nothing
                    (Obs::Unit("nochanges"), "supply") => need.is_empty(),
                    (Obs::Supply(m), "supply") => *m == need,
                    _ => false,
                };
                if !ok {
                    let expected = if okind == "supply" {
                        if need.is_empty() { "nochanges".to_string() } else { format!("supply {}", show_pretty(&need, ph, &times)) }
                    } else {
                        okind.to_string()
                    };
                    ctx.rep.fail(Failure {
                        kind: "impl-vs-oracle".into(),
                        class: "unclassified".into(),
                        input: input.clone(),
                        expected,
                        observed: pretty(&obs),
                    });
                }
            }
        }
    }
    // (a) model
    if model != got {
        ctx.rep.fail(Failure {
            kind: "impl-vs-model".into(),
            class: "unclassified".into(),
            input,
            expected: model,
            observed: got,
        });
    }
}

/// All combinations of named options over the given known roles (+ X present / absent).
fn combos(roles: &[&'static str]) -> Vec<Case> {
    let n = OPTIONS.len() + 1; // + missing
    let mut out = vec![];
    let total = n.pow(roles.len() as u32) * 2;
    for mut idx in 0..total {
        let x = idx % 2 == 1;
        idx /= 2;
        let mut wins = vec![];
        for r in roles {
            let o = idx % n;
            idx /= n;
            if o > 0 {
                let (_, a, b) = OPTIONS[o - 1];
                wins.push((*r, a, b));
            }
        }
        if x {
            wins.push(("X", "m", "M"));
        }
        out.push(Case { same_domain: true, wins });
    }
    out
}

fn random_case(r: &mut Rng, roles: &[&'static str]) -> Case {
    let mut wins = vec![];
    let malformed = r.chance(1, 12);
    for role in roles.iter().chain(["X"].iter()) {
        if !r.chance(3, 4) {
            continue;
        }
        let i = r.below(POINTS.len() as u64) as usize;
        let j = r.below(POINTS.len() as u64) as usize;
        let (lo, hi) = (i.min(j), i.max(j));
        if malformed && lo != hi && r.chance(1, 2) {
            wins.push((*role, POINTS[hi], POINTS[lo]));
        } else {
            wins.push((*role, POINTS[lo], POINTS[hi]));
        }
    }
    Case { same_domain: !r.chance(1, 25), wins }
}

/// Build the phase description with A (server 0) as supplier.
fn phase(w: &mut World, name: &'static str, ids: &BTreeMap<&'static str, Uuid>, expect_view: &[&'static str]) -> Phase {
    let (domain, full) = w.ruv(0);
    // A's own view: servers whose newest change is not older than (A's newest change anywhere − changelog age)
    let newest = full.values().map(|w| w.1).max().expect("non-empty RUV");
    let threshold = newest.checked_sub(Duration::from_secs(CHANGELOG_MAX_AGE)).unwrap_or(Duration::ZERO);
    let day = Duration::from_secs(86400);
    let mut view = Map::new();
    for (k, win) in &full {
        // the harness only builds topologies where "silent for too long" is unambiguous
        assert!(
            win.1 >= threshold + day || win.1 + day <= threshold,
            "server window too close to the trim threshold for a clear expectation"
        );
        if win.1 >= threshold {
            view.insert(*k, *win);
        }
    }
    let mut refw = BTreeMap::new();
    let mut pids = BTreeMap::new();
    for (r, u) in ids {
        if let Some(win) = full.get(u) {
            assert!(win.1 - win.0 >= Duration::from_nanos(10), "window of {r} too narrow for distinct points");
            refw.insert(*r, *win);
            pids.insert(*r, *u);
        }
    }
    let x = nat_uuid(0xC10E_0000);
    assert!(!full.contains_key(&x));
    pids.insert("X", x);
    refw.insert("X", refw["A"]);
    // the topology is what the phase says it is
    let known: BTreeSet<Uuid> = expect_view.iter().map(|r| ids[r]).collect();
    assert_eq!(view.keys().cloned().collect::<BTreeSet<_>>(), known, "phase {name}: supplier view is not {expect_view:?}");
    if std::env::var("C10SUP_DEBUG").is_ok() {
        eprintln!("c10sup phase {name}: full RUV {full:?} view {:?}", view.keys().collect::<Vec<_>>());
    }
    Phase { name, domain, ids: pids, refw, view }
}

fn main() {
    let args = Args::parse();
    let rule = "real supplier_provide_changes on server A of a 3-server topology (phases: 2 servers in A's RUV, 3 servers, \
                3 servers of which one is filtered from A's view by the changelog age, RUV after the purge trimmed it); consumer windows crafted per server relative to A's real \
                windows (all combinations of 9 named windows/missing per server x unknown extra server; random point pairs; \
                malformed; foreign domain); non-trivial = same domain, at least one shared server and (two or more consumer \
                servers or a reply other than no-changes); distinct = distinct (phase, per-server point pairs)";
    let mut ctx = Ctx { drv: Driver::spawn(&args.driver), rep: Report::new("supplier-provide-changes", rule) };

    // replay of a single stored case (files of the other C10 stream carry no "phase")
    let replay: Option<(String, Case)> = args.replay.as_ref().and_then(|p| {
        let v: J = serde_json::from_str(&std::fs::read_to_string(p).unwrap()).unwrap();
        let inp = &v["input"];
        inp["phase"].as_str().map(|ph| (ph.to_string(), Case::from_json(inp)))
    });
    if args.replay.is_some() && replay.is_none() {
        ctx.rep.note("replay file belongs to the range-diff stream: nothing to do");
        ctx.rep.write(&args.out);
        println!("c10sup: 0 cases (replay of another stream)");
        return;
    }

    let mut w = World::new();
    // B and C join A's topology
    w.refresh(0, 1);
    w.refresh(0, 2);
    let mut ids: BTreeMap<&'static str, Uuid> = BTreeMap::new();
    ids.insert("A", w.server_id(0));
    ids.insert("B", w.server_id(1));
    ids.insert("C", w.server_id(2));
    assert_eq!(ids.values().collect::<BTreeSet<_>>().len(), 3);
    if args.extra.contains_key("debug") {
        eprintln!("c10sup ids {ids:?}");
        for i in 0..3 {
            eprintln!("c10sup ruv[{i}] {:?}", w.ruv(i).1);
        }
    }

    let mut seed_i = 0u64;
    let mut run_phase = |w: &mut World, ctx: &mut Ctx, name: &'static str, roles: &[&'static str], view: &[&'static str], exhaustive: bool, nrand: u64, nsample: u64| {
        let ph = phase(w, name, &ids, view);
        if let Some((rp, case)) = &replay {
            if rp == name {
                run_case(w, ctx, &ph, case);
            }
            return;
        }
        let all = combos(roles);
        if exhaustive {
            for c in &all {
                run_case(w, ctx, &ph, c);
            }
            ctx.rep.note(format!("phase {name}: all {} combinations of named windows", all.len()));
        } else {
            for _ in 0..nsample {
                let mut r = Rng::for_case(args.seed, seed_i);
                seed_i += 1;
                let c = &all[r.below(all.len() as u64) as usize];
                run_case(w, ctx, &ph, c);
            }
            ctx.rep.note(format!("phase {name}: {nsample} of {} combinations of named windows (sampled)", all.len()));
        }
        for _ in 0..nrand {
            let mut r = Rng::for_case(args.seed, seed_i);
            seed_i += 1;
            let c = random_case(&mut r, roles);
            run_case(w, ctx, &ph, &c);
        }
    };
    let th = args.thorough();
    let nrand = args.cases(150, 4000);
    let nsample = args.cases(250, 0);

    // phase pair: A and B write and replicate both ways; C's changes never reach A
    w.write(0);
    w.write(1);
    w.repl(1, 0);
    w.repl(0, 1);
    run_phase(&mut w, &mut ctx, "pair", &["A", "B"], &["A", "B"], true, nrand, 0);

    // phase trio: C's writes reach A
    w.write(2);
    w.repl(2, 0);
    w.write(0);
    w.repl(0, 1);
    run_phase(&mut w, &mut ctx, "trio", &["A", "B", "C"], &["A", "B", "C"], th, nrand, nsample);

    // phase stale: 30 days later A and B are still active, C has been silent; A's RUV still lists C,
    // but as a supplier A must not take C into account (trimmed view)
    w.ct += Duration::from_secs(30 * 86400);
    w.write(0);
    w.write(1);
    w.repl(1, 0);
    w.write(0);
    run_phase(&mut w, &mut ctx, "stale", &["A", "B", "C"], &["A", "B"], th, nrand, nsample);

    // phase trimmed: A's periodic purge trims its RUV: C is gone, and the windows of A and B now start
    // at their first change younger than the changelog age (so "behind" exists for both)
    w.write(1);
    w.repl(1, 0);
    w.purge(0);
    w.write(0);
    run_phase(&mut w, &mut ctx, "trimmed", &["A", "B"], &["A", "B"], true, nrand, 0);

    ctx.rep.exhaustive = replay.is_none();
    ctx.rep.model_requests = ctx.drv.requests;
    ctx.rep.write(&args.out);
    println!("c10sup: {} cases, {} failures", ctx.rep.evaluations, ctx.rep.failures.len());
}
