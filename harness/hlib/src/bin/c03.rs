//! C03 — indexes and name lookups always mirror the stored entries (backend level).
//!
//! Drives the real `Backend` (in-memory SQLite; file-backed and re-opened in the thorough tier) with
//! histories of committed write operations — create / refresh, modify batches (renames, spn / gid /
//! external-id changes, multi-valued edits of class / mail / claim maps / members, recycle, revive,
//! tombstone, uuid change), reap_tombstones, update_idxmeta with and without reindex, reindex,
//! upgrade_reindex — over a small population of entries built through the production path
//! (`assign_cid -> validate -> seal`, `invalidate -> set_ava -> validate -> seal`). After every commit:
//!
//!   model  : the same operation goes to the Lean driver (`km_c03`, `KanidmModel/IndexMaint.lean`); every
//!            index table (raw `list_index_content` dump through hook `c01::dump_indexes`) and the four
//!            name tables (looked up over the universe of every name / uuid the history ever used, in a
//!            fresh read transaction) must equal the model's tables, row by row  (impl-vs-model);
//!   oracle : written from the property text — the stored entries are read back by an unindexed scan and
//!            every table is rebuilt from them by harness code that knows nothing of `Entry::idx_*`
//!            (equality = the values, presence = has a value, substring = every 1..3-character slice of
//!            the lower-cased text, names = spn / name / gidnumber of the entries that are neither
//!            recycled nor tombstones, …); the real tables must equal the rebuild exactly and the
//!            backend's own `verify()` / `verify_indexes()` must be empty  (impl-vs-oracle).
//!
//! Known findings (D35 `C03-F1:dup-eq-keys-merge`, D36 `C03-F2:batch-name-handoff`): recognised on the
//! minimised history only if its last operation has the shape (a modify whose pre entry carries a
//! duplicate equality key / a batch that hands a name over) AND the meaning-preserving rewrite that
//! removes the shape (attribute purged then re-set in two transactions / names released in a first
//! transaction) makes the implementation agree with the oracle.
#![allow(dead_code)]
use hlib::*;
use kanidmd_lib::be::{Backend, BackendTransaction, Limits};
use kanidmd_lib::entry::{Entry, EntryCommitted, EntryInit, EntryNew, EntrySealed};
use kanidmd_lib::filter::FilterValidResolved;
use kanidmd_lib::prelude::*;
use kanidmd_lib::schema::SchemaTransaction;
use kanidmd_lib::testkit::{setup_test, TestConfiguration};
use kanidmd_lib::verif_hooks::{c01, c03, c23};
use serde_json::{json, Value as Json};
use std::collections::{BTreeMap, BTreeSet};
use std::sync::Arc;

type Stored = Arc<Entry<EntrySealed, EntryCommitted>>;

// ---------------------------------------------------------------------------------------------
// attributes (numbers fixed by the model: KanidmModel/IndexMaint.lean `aClass` … `aExtId`)

const A_CLASS: usize = 0;
const A_UUID: usize = 1;
const A_NAME: usize = 2;
const A_SPN: usize = 3;
const A_GID: usize = 4;
const A_EXTID: usize = 5;
const A_DESC: usize = 6;
const A_DN: usize = 7;
const A_MAIL: usize = 8;
const A_CLAIM: usize = 9;
const A_MEMBER: usize = 10;
const NATTR: usize = 11;

#[derive(Clone, Copy, PartialEq, Eq, Debug)]
enum Kind {
    Iutf8,
    Uuid,
    Iname,
    Spn,
    U32,
    Utf8,
    Email,
    Claim,
    Refer,
}

fn kind(a: usize) -> Kind {
    match a {
        A_CLASS | A_EXTID => Kind::Iutf8,
        A_UUID => Kind::Uuid,
        A_NAME => Kind::Iname,
        A_SPN => Kind::Spn,
        A_GID => Kind::U32,
        A_DESC | A_DN => Kind::Utf8,
        A_MAIL => Kind::Email,
        A_CLAIM => Kind::Claim,
        A_MEMBER => Kind::Refer,
        _ => panic!("attr {a}"),
    }
}

fn attr(a: usize) -> Attribute {
    match a {
        A_CLASS => Attribute::Class,
        A_UUID => Attribute::Uuid,
        A_NAME => Attribute::Name,
        A_SPN => Attribute::Spn,
        A_GID => Attribute::GidNumber,
        A_EXTID => Attribute::SyncExternalId,
        A_DESC => Attribute::Description,
        A_DN => Attribute::DisplayName,
        A_MAIL => Attribute::Mail,
        A_CLAIM => Attribute::OAuth2RsClaimMap,
        A_MEMBER => Attribute::Member,
        _ => panic!("attr {a}"),
    }
}

fn atom(x: &Attribute) -> Option<usize> {
    (0..NATTR).find(|a| &attr(*a) == x)
}

/// does the syntax produce substring keys (`generate_idx_sub_keys`)?  Spn and claim maps are kept out
/// of substring layouts: the model's text for them is a string although the syntax has no substrings.
fn sub_capable(a: usize) -> bool {
    !matches!(kind(a), Kind::Spn | Kind::Claim)
}
fn has_substrings(a: usize) -> bool {
    matches!(kind(a), Kind::Iutf8 | Kind::Iname | Kind::Utf8 | Kind::Email)
}

fn nat_uuid(n: u64) -> Uuid {
    Uuid::from_u128(0x1000_0000_0000_0000_0000_0000_0000_0000u128 + n as u128)
}
fn uuid_nat(u: Uuid) -> Option<u64> {
    let x = u.as_u128();
    let base = 0x1000_0000_0000_0000_0000_0000_0000_0000u128;
    if x >= base && x < base + 1_000_000 {
        Some((x - base) as u64)
    } else {
        None
    }
}
fn cid(t: u64) -> Cid {
    Cid::new_lamport(uuid::uuid!("00000000-0000-0000-0000-00000000c003"), Duration::from_secs(t), &Duration::ZERO)
}

// ---------------------------------------------------------------------------------------------
// plain entries (the harness' own notion of an entry)

#[derive(Clone, Debug, PartialEq, Eq, PartialOrd, Ord)]
enum PV {
    S(String),
    N(u64),
    /// claim name -> group
    C(String, u64),
}

#[derive(Clone, Debug, PartialEq, Eq)]
struct Plain {
    uuid: u64,
    /// attribute -> value set (sorted, duplicate-free); the uuid attribute is implied
    attrs: BTreeMap<usize, Vec<PV>>,
}

impl Plain {
    fn norm(mut self) -> Plain {
        self.attrs.remove(&A_UUID);
        for v in self.attrs.values_mut() {
            v.sort();
            v.dedup();
        }
        self.attrs.retain(|_, v| !v.is_empty());
        self
    }
    fn vals(&self, a: usize) -> Vec<PV> {
        if a == A_UUID {
            vec![PV::N(self.uuid)]
        } else {
            self.attrs.get(&a).cloned().unwrap_or_default()
        }
    }
    fn strs(&self, a: usize) -> Vec<String> {
        self.vals(a)
            .into_iter()
            .map(|v| match v {
                PV::S(s) => s,
                PV::N(n) => n.to_string(),
                PV::C(c, _) => c,
            })
            .collect()
    }
    fn has_class(&self, c: &str) -> bool {
        self.vals(A_CLASS).contains(&PV::S(c.into()))
    }
    fn masked(&self) -> bool {
        self.has_class("tombstone") || self.has_class("recycled")
    }
    /// the strings an entry can be looked up by: spn, name, gidnumber
    fn names(&self) -> BTreeSet<String> {
        [A_SPN, A_NAME, A_GID].iter().flat_map(|a| self.strs(*a)).collect()
    }
    fn extid(&self) -> Option<String> {
        let v = self.strs(A_EXTID);
        if v.len() == 1 {
            Some(v[0].clone())
        } else {
            None
        }
    }
    /// which attribute supplies `uuid2spn`: 2 = spn, 1 = name, 0 = the uuid
    fn spn_rank(&self) -> u8 {
        if self.strs(A_SPN).len() == 1 {
            2
        } else if self.strs(A_NAME).len() == 1 {
            1
        } else {
            0
        }
    }
    /// a group mapped by two claims: `generate_idx_eq_keys` then repeats the group key
    fn dup_keys(&self) -> bool {
        let groups: Vec<u64> = self.vals(A_CLAIM).iter().filter_map(|v| if let PV::C(_, g) = v { Some(*g) } else { None }).collect();
        let set: BTreeSet<u64> = groups.iter().cloned().collect();
        set.len() != groups.len()
    }
    fn to_json(&self) -> Json {
        let mut m = serde_json::Map::new();
        for (a, vs) in &self.attrs {
            m.insert(
                a.to_string(),
                Json::Array(
                    vs.iter()
                        .map(|v| match v {
                            PV::S(s) => json!(s),
                            PV::N(n) => json!(n),
                            PV::C(c, g) => json!([c, g]),
                        })
                        .collect(),
                ),
            );
        }
        json!({"uuid": self.uuid, "attrs": m})
    }
    fn from_json(j: &Json) -> Plain {
        let mut attrs = BTreeMap::new();
        for (a, vs) in j["attrs"].as_object().unwrap() {
            attrs.insert(
                a.parse().unwrap(),
                vs.as_array()
                    .unwrap()
                    .iter()
                    .map(|v| {
                        if let Some(s) = v.as_str() {
                            PV::S(s.into())
                        } else if let Some(n) = v.as_u64() {
                            PV::N(n)
                        } else {
                            PV::C(v[0].as_str().unwrap().into(), v[1].as_u64().unwrap())
                        }
                    })
                    .collect(),
            );
        }
        Plain { uuid: j["uuid"].as_u64().unwrap(), attrs }.norm()
    }
}

fn bytes_text(s: &str) -> String {
    format!("s{}", s.bytes().map(|b| b.to_string()).collect::<Vec<_>>().join("."))
}

/// the model's view of one attribute: the list `generate_idx_eq_keys` returns, as model values
fn model_vals(p: &Plain, a: usize) -> Vec<String> {
    let vs = p.vals(a);
    if kind(a) == Kind::Claim {
        // claim names (BTreeMap keys), then per claim its groups (BTreeMap keys) — with repeats
        let names: BTreeSet<&String> = vs.iter().filter_map(|v| if let PV::C(c, _) = v { Some(c) } else { None }).collect();
        let mut out: Vec<String> = names.iter().map(|c| bytes_text(c)).collect();
        for c in names {
            for v in &vs {
                if let PV::C(c2, g) = v {
                    if c2 == c {
                        out.push(format!("n{g}"));
                    }
                }
            }
        }
        out
    } else {
        vs.iter()
            .map(|v| match v {
                PV::S(s) => bytes_text(s),
                PV::N(n) => format!("n{n}"),
                PV::C(..) => unreachable!(),
            })
            .collect()
    }
}

fn model_assoc(p: &Plain) -> String {
    let mut parts = vec![];
    for a in 0..NATTR {
        let vs = model_vals(p, a);
        if !vs.is_empty() {
            parts.push(format!("{a}={}", vs.join("+")));
        }
    }
    if parts.is_empty() {
        "-".into()
    } else {
        parts.join(",")
    }
}

fn real_values(a: usize, vs: &[PV]) -> Vec<Value> {
    vs.iter()
        .enumerate()
        .map(|(i, v)| match (kind(a), v) {
            (Kind::Iutf8, PV::S(s)) => Value::new_iutf8(s),
            (Kind::Iname, PV::S(s)) => Value::new_iname(s),
            (Kind::Utf8, PV::S(s)) => Value::new_utf8s(s),
            (Kind::Spn, PV::S(s)) => {
                let (n, d) = s.split_once('@').expect("spn");
                Value::new_spn_str(n, d)
            }
            (Kind::U32, PV::N(n)) => Value::Uint32(*n as u32),
            (Kind::Uuid, PV::N(n)) => Value::Uuid(nat_uuid(*n)),
            (Kind::Refer, PV::N(n)) => Value::Refer(nat_uuid(*n)),
            (Kind::Email, PV::S(s)) => Value::EmailAddress(s.clone(), i == 0),
            (Kind::Claim, PV::C(c, g)) => Value::OauthClaimValue(c.clone(), nat_uuid(*g), BTreeSet::from(["v".to_string()])),
            _ => panic!("ill-typed value {a} {v:?}"),
        })
        .collect()
}

fn real_new(p: &Plain) -> Entry<EntryInit, EntryNew> {
    let mut e: Entry<EntryInit, EntryNew> = Entry::new();
    for a in 0..NATTR {
        for v in real_values(a, &p.vals(a)) {
            e.add_ava(attr(a), v);
        }
    }
    e
}

/// read a stored entry back into a plain entry through public getters only
fn scan_plain(e: &Stored) -> Result<Plain, String> {
    let mut attrs = BTreeMap::new();
    for a in 0..NATTR {
        if a == A_UUID {
            continue;
        }
        let Some(vs) = e.get_ava_set(attr(a)) else { continue };
        let strs: Vec<String> = vs.to_proto_string_clone_iter().collect();
        let mut out = vec![];
        for s in strs {
            out.push(match kind(a) {
                Kind::Iutf8 | Kind::Iname | Kind::Utf8 | Kind::Spn | Kind::Email => PV::S(s),
                Kind::U32 => PV::N(s.parse().map_err(|_| format!("u32 {s}"))?),
                Kind::Uuid | Kind::Refer => PV::N(Uuid::parse_str(&s).ok().and_then(uuid_nat).ok_or(format!("uuid {s}"))?),
                Kind::Claim => {
                    // `{name}: {uuid} "{values}"`
                    let (c, rest) = s.split_once(": ").ok_or(format!("claim {s}"))?;
                    let u = rest.split(' ').next().unwrap_or("");
                    PV::C(c.to_string(), Uuid::parse_str(u).ok().and_then(uuid_nat).ok_or(format!("claim uuid {s}"))?)
                }
            });
        }
        attrs.insert(a, out);
    }
    let uuid = uuid_nat(e.get_uuid()).ok_or("entry uuid outside the population")?;
    Ok(Plain { uuid, attrs }.norm())
}

// ---------------------------------------------------------------------------------------------
// operations

type Layout = Vec<(usize, char)>;

#[derive(Clone, Debug, PartialEq)]
enum Post {
    /// all attributes replaced by this plain entry (its uuid may differ: uuid-changing conflict)
    Set(Plain),
    Recycle,
    Revive,
    Tombstone,
}

#[derive(Clone, Debug, PartialEq)]
enum Op {
    Create(Vec<Plain>, bool),
    /// (uuid of the stored entry, what it becomes), in batch order
    Modify(Vec<(u64, Post)>),
    Reap,
    SetMeta(Layout, bool),
    Reindex,
    Upgrade(i64),
}

fn layout_text(l: &Layout) -> String {
    if l.is_empty() {
        "-".into()
    } else {
        l.iter().map(|(a, c)| format!("{a}:{c}")).collect::<Vec<_>>().join(",")
    }
}
fn layout_json(l: &Layout) -> Json {
    Json::Array(l.iter().map(|(a, c)| json!(format!("{a}:{c}"))).collect())
}
fn layout_from(j: &Json) -> Layout {
    j.as_array()
        .unwrap()
        .iter()
        .map(|x| {
            let (a, c) = x.as_str().unwrap().split_once(':').unwrap();
            (a.parse().unwrap(), c.chars().next().unwrap())
        })
        .collect()
}
fn real_layout(l: &Layout) -> Vec<(Attribute, IndexType)> {
    l.iter()
        .map(|(a, c)| {
            (
                attr(*a),
                match c {
                    'e' => IndexType::Equality,
                    's' => IndexType::SubString,
                    'p' => IndexType::Presence,
                    _ => IndexType::Ordering,
                },
            )
        })
        .collect()
}

impl Op {
    fn to_json(&self) -> Json {
        match self {
            Op::Create(ps, r) => json!({"op": if *r {"refresh"} else {"create"}, "entries": ps.iter().map(|p| p.to_json()).collect::<Vec<_>>()}),
            Op::Modify(ms) => json!({"op": "modify", "batch": ms.iter().map(|(u, p)| match p {
                Post::Set(pl) => json!({"uuid": u, "set": pl.to_json()}),
                Post::Recycle => json!({"uuid": u, "to": "recycled"}),
                Post::Revive => json!({"uuid": u, "to": "revived"}),
                Post::Tombstone => json!({"uuid": u, "to": "tombstone"}),
            }).collect::<Vec<_>>()}),
            Op::Reap => json!({"op": "reap"}),
            Op::SetMeta(l, r) => json!({"op": "setmeta", "layout": layout_json(l), "reindex": r}),
            Op::Reindex => json!({"op": "reindex"}),
            Op::Upgrade(v) => json!({"op": "upgrade", "v": v}),
        }
    }
    fn from_json(j: &Json) -> Op {
        match j["op"].as_str().unwrap() {
            "create" | "refresh" => Op::Create(j["entries"].as_array().unwrap().iter().map(Plain::from_json).collect(), j["op"] == "refresh"),
            "modify" => Op::Modify(
                j["batch"]
                    .as_array()
                    .unwrap()
                    .iter()
                    .map(|m| {
                        let u = m["uuid"].as_u64().unwrap();
                        let p = if !m["set"].is_null() {
                            Post::Set(Plain::from_json(&m["set"]))
                        } else {
                            match m["to"].as_str().unwrap() {
                                "recycled" => Post::Recycle,
                                "revived" => Post::Revive,
                                _ => Post::Tombstone,
                            }
                        };
                        (u, p)
                    })
                    .collect(),
            ),
            "reap" => Op::Reap,
            "setmeta" => Op::SetMeta(layout_from(&j["layout"]), j["reindex"].as_bool().unwrap()),
            "reindex" => Op::Reindex,
            _ => Op::Upgrade(j["v"].as_i64().unwrap()),
        }
    }
}

#[derive(Clone, Debug)]
struct History {
    layout0: Layout,
    file: bool,
    ops: Vec<Op>,
}
impl History {
    fn to_json(&self) -> Json {
        json!({"layout0": layout_json(&self.layout0), "file": self.file, "ops": self.ops.iter().map(|o| o.to_json()).collect::<Vec<_>>()})
    }
    fn from_json(j: &Json) -> History {
        History { layout0: layout_from(&j["layout0"]), file: j["file"].as_bool().unwrap_or(false), ops: j["ops"].as_array().unwrap().iter().map(Op::from_json).collect() }
    }
}

/// what the harness expects a stored entry to look like after `post` (written from the operation's meaning)
fn apply_post(pre: &Plain, post: &Post) -> Plain {
    match post {
        Post::Set(p) => p.clone(),
        Post::Recycle => {
            let mut p = pre.clone();
            p.attrs.entry(A_CLASS).or_default().push(PV::S("recycled".into()));
            p.norm()
        }
        Post::Revive => {
            let mut p = pre.clone();
            if let Some(c) = p.attrs.get_mut(&A_CLASS) {
                c.retain(|v| *v != PV::S("recycled".into()) && *v != PV::S("conflict".into()));
            }
            p.norm()
        }
        Post::Tombstone => Plain { uuid: pre.uuid, attrs: BTreeMap::from([(A_CLASS, vec![PV::S("object".into()), PV::S("tombstone".into())])]) }.norm(),
    }
}

// ---------------------------------------------------------------------------------------------
// canonical table text (the same format as `dumpText` of Driver/C03.lean)

#[derive(Clone, Debug, Default, PartialEq)]
struct Dump {
    /// table -> row strings `K=i.i.i` (rows with an empty id set omitted)
    tables: BTreeMap<String, BTreeSet<String>>,
    n2u: BTreeSet<String>,
    e2u: BTreeSet<String>,
    u2s: BTreeSet<String>,
    u2r: BTreeSet<String>,
}

fn join(s: &BTreeSet<String>, sep: &str) -> String {
    s.iter().cloned().collect::<Vec<_>>().join(sep)
}

impl Dump {
    fn text(&self) -> String {
        let tabs: Vec<String> = self.tables.iter().map(|(t, rows)| format!("{t}[{}]", join(rows, ";"))).collect();
        format!("T {} | N {} | X {} | S {} | R {}", tabs.join(","), join(&self.n2u, ";"), join(&self.e2u, ";"), join(&self.u2s, ";"), join(&self.u2r, ";"))
    }
    fn parse(s: &str) -> Option<Dump> {
        let parts: Vec<&str> = s.split(" | ").collect();
        if parts.len() != 5 {
            return None;
        }
        let body = |p: &str, tag: &str| -> Option<String> { p.trim_end().strip_prefix(tag).map(|x| x.trim().to_string()) };
        let mut d = Dump::default();
        let t = body(parts[0], "T")?;
        if !t.is_empty() {
            for tab in t.split(',') {
                let (name, rest) = tab.split_once('[')?;
                let rows = rest.strip_suffix(']')?;
                d.tables.insert(name.to_string(), rows.split(';').filter(|x| !x.is_empty()).map(|x| x.to_string()).collect());
            }
        }
        let set = |p: &str, tag: &str| -> Option<BTreeSet<String>> { Some(body(p, tag)?.split(';').filter(|x| !x.is_empty()).map(|x| x.to_string()).collect()) };
        d.n2u = set(parts[1], "N")?;
        d.e2u = set(parts[2], "X")?;
        d.u2s = set(parts[3], "S")?;
        d.u2r = set(parts[4], "R")?;
        Some(d)
    }
    /// first difference, restricted to the tables in `only` (None = all tables)
    fn diff(&self, other: &Dump, only: Option<&BTreeSet<String>>) -> Option<(String, String, String)> {
        let names: BTreeSet<&String> = self.tables.keys().chain(other.tables.keys()).collect();
        for t in names {
            if let Some(o) = only {
                if !o.contains(t) {
                    continue;
                }
            }
            let a = self.tables.get(t);
            let b = other.tables.get(t);
            if a != b {
                let fmt = |x: Option<&BTreeSet<String>>| x.map(|r| format!("[{}]", join(r, ";"))).unwrap_or("<no table>".into());
                return Some((format!("T:{t}"), fmt(a), fmt(b)));
            }
        }
        for (tag, a, b) in [("N", &self.n2u, &other.n2u), ("X", &self.e2u, &other.e2u), ("S", &self.u2s, &other.u2s), ("R", &self.u2r, &other.u2r)] {
            if a != b {
                return Some((tag.to_string(), join(a, ";"), join(b, ";")));
            }
        }
        None
    }
}

fn ids_text(ids: &BTreeSet<u64>) -> String {
    ids.iter().map(|x| x.to_string()).collect::<Vec<_>>().join(".")
}

/// key text of a dumped index row -> model value text
fn key_text(a: usize, c: char, k: &str) -> Result<String, String> {
    if c != 'e' {
        return Ok(bytes_text(k));
    }
    Ok(match kind(a) {
        Kind::U32 => format!("n{}", k.parse::<u64>().map_err(|_| format!("numeric key {k}"))?),
        Kind::Uuid | Kind::Refer => format!("n{}", Uuid::parse_str(k).ok().and_then(uuid_nat).ok_or(format!("uuid key {k}"))?),
        Kind::Claim => match Uuid::parse_str(k).ok().and_then(uuid_nat) {
            Some(n) => format!("n{n}"),
            None => bytes_text(k),
        },
        _ => bytes_text(k),
    })
}

fn table_of(name: &str) -> Result<(usize, char), String> {
    for (p, c) in [("idx_eq_", 'e'), ("idx_sub_", 's'), ("idx_pres_", 'p'), ("idx_ord_", 'o')] {
        if let Some(a) = name.strip_prefix(p) {
            let at = atom(&Attribute::from(a)).ok_or(format!("table {name}: attribute outside the population"))?;
            return Ok((at, c));
        }
    }
    Err(format!("table {name}"))
}

fn name_v_of_value(v: &Value) -> String {
    match v {
        Value::Spn(n, d) => format!("spn:{}", bytes_text(&format!("{n}@{d}"))),
        Value::Iname(s) => format!("name:{}", bytes_text(s)),
        Value::Uuid(u) => format!("uuid:{}", uuid_nat(*u).map(|n| n.to_string()).unwrap_or(format!("?{u}"))),
        other => format!("?{other:?}"),
    }
}
fn name_v_of_rdn(s: &str) -> String {
    if let Some(x) = s.strip_prefix("spn=") {
        format!("spn:{}", bytes_text(x))
    } else if let Some(x) = s.strip_prefix("name=") {
        format!("name:{}", bytes_text(x))
    } else if let Some(x) = s.strip_prefix("uuid=") {
        format!("uuid:{}", Uuid::parse_str(x).ok().and_then(uuid_nat).map(|n| n.to_string()).unwrap_or(format!("?{x}")))
    } else {
        format!("?{s}")
    }
}

struct Universe {
    names: BTreeSet<String>,
    uuids: BTreeSet<u64>,
}

fn universe(h: &History) -> Universe {
    let mut u = Universe { names: BTreeSet::from(["zzz".to_string(), "0".to_string()]), uuids: BTreeSet::from([999]) };
    let mut add = |p: &Plain| {
        u.uuids.insert(p.uuid);
        for a in [A_SPN, A_NAME, A_GID, A_EXTID] {
            for s in p.strs(a) {
                u.names.insert(s);
            }
        }
    };
    for op in &h.ops {
        match op {
            Op::Create(ps, _) => ps.iter().for_each(&mut add),
            Op::Modify(ms) => {
                for (uu, p) in ms {
                    if let Post::Set(p) = p {
                        add(p);
                    }
                    let _ = uu;
                }
            }
            _ => {}
        }
    }
    for op in &h.ops {
        if let Op::Modify(ms) = op {
            for (uu, _) in ms {
                u.uuids.insert(*uu);
            }
        }
    }
    u
}

/// the implementation's tables: raw dump of every index table, name tables by lookup over the universe
fn real_dump(be: &Backend, uni: &Universe) -> Result<Dump, String> {
    let mut rd = be.read().map_err(|e| format!("{e:?}"))?;
    let mut d = Dump::default();
    for (name, rows) in c01::dump_indexes(&mut rd).map_err(|e| format!("{e:?}"))? {
        let (a, c) = table_of(&name)?;
        let mut set = BTreeSet::new();
        for (k, ids) in rows {
            if ids.is_empty() {
                continue;
            }
            let ids: BTreeSet<u64> = ids.into_iter().collect();
            set.insert(format!("{}={}", key_text(a, c, &k)?, ids_text(&ids)));
        }
        d.tables.insert(format!("{a}:{c}"), set);
    }
    for n in &uni.names {
        if let Some(u) = rd.name2uuid(n).map_err(|e| format!("{e:?}"))? {
            d.n2u.insert(format!("{}={}", bytes_text(n), uuid_nat(u).map(|x| x.to_string()).unwrap_or(format!("?{u}"))));
        }
        if let Some(u) = rd.externalid2uuid(n).map_err(|e| format!("{e:?}"))? {
            d.e2u.insert(format!("{}={}", bytes_text(n), uuid_nat(u).map(|x| x.to_string()).unwrap_or(format!("?{u}"))));
        }
    }
    for u in &uni.uuids {
        if let Some(v) = rd.uuid2spn(nat_uuid(*u)).map_err(|e| format!("{e:?}"))? {
            d.u2s.insert(format!("{u}={}", name_v_of_value(&v)));
        }
        if let Some(s) = rd.uuid2rdn(nat_uuid(*u)).map_err(|e| format!("{e:?}"))? {
            d.u2r.insert(format!("{u}={}", name_v_of_rdn(&s)));
        }
    }
    Ok(d)
}

/// ORACLE: every table rebuilt from a full scan of the stored entries, from the property text.
fn oracle_dump(stored: &[(u64, Plain)], tables: &BTreeSet<(usize, char)>) -> Dump {
    let mut d = Dump::default();
    for (a, c) in tables {
        let mut rows: BTreeMap<String, BTreeSet<u64>> = BTreeMap::new();
        for (id, p) in stored {
            let vs = p.vals(*a);
            if vs.is_empty() {
                continue;
            }
            match c {
                'e' => {
                    for v in &vs {
                        match v {
                            PV::S(s) => {
                                rows.entry(bytes_text(s)).or_default().insert(*id);
                            }
                            PV::N(n) => {
                                rows.entry(format!("n{n}")).or_default().insert(*id);
                            }
                            PV::C(cl, g) => {
                                // an entry is found under the claim name and under every group it maps
                                rows.entry(bytes_text(cl)).or_default().insert(*id);
                                rows.entry(format!("n{g}")).or_default().insert(*id);
                            }
                        }
                    }
                }
                'p' => {
                    rows.entry("s95".into()).or_default().insert(*id);
                }
                's' => {
                    if has_substrings(*a) {
                        for v in &vs {
                            if let PV::S(s) = v {
                                let chars: Vec<char> = s.to_lowercase().chars().collect();
                                for w in 1..=3usize {
                                    if chars.len() >= w {
                                        for i in 0..=chars.len() - w {
                                            let piece: String = chars[i..i + w].iter().collect();
                                            rows.entry(bytes_text(&piece)).or_default().insert(*id);
                                        }
                                    }
                                }
                            }
                        }
                    }
                }
                _ => {}
            }
        }
        d.tables.insert(format!("{a}:{c}"), rows.into_iter().map(|(k, ids)| format!("{k}={}", ids_text(&ids))).collect());
    }
    for (_, p) in stored {
        if p.masked() {
            continue;
        }
        for n in p.names() {
            d.n2u.insert(format!("{}={}", bytes_text(&n), p.uuid));
        }
        if let Some(x) = p.extid() {
            d.e2u.insert(format!("{}={}", bytes_text(&x), p.uuid));
        }
        let spn = p.strs(A_SPN);
        let name = p.strs(A_NAME);
        let v = if spn.len() == 1 {
            format!("spn:{}", bytes_text(&spn[0]))
        } else if name.len() == 1 {
            format!("name:{}", bytes_text(&name[0]))
        } else {
            format!("uuid:{}", p.uuid)
        };
        d.u2s.insert(format!("{}={v}", p.uuid));
        d.u2r.insert(format!("{}={v}", p.uuid));
    }
    d
}

// ---------------------------------------------------------------------------------------------
// running a history

struct Env<'a> {
    schema: &'a dyn SchemaTransaction,
    all: Filter<FilterValidResolved>,
    drv: Driver,
    tmp: std::path::PathBuf,
    serial: u64,
}

#[derive(Debug, Clone)]
struct Fail {
    kind: &'static str,
    /// section tag of the first difference (`T:a:t`, `N`, `X`, `S`, `R`, `verify`, `entries`, `reply`)
    what: String,
    at: usize,
    expected: String,
    observed: String,
}

#[derive(Default, Clone, Debug)]
struct Stats {
    commits: u64,
    failed_ops: u64,
    itypes: BTreeSet<char>,
    renames: u64,
    revives: u64,
    multi_edits: u64,
    batches: u64,
    reaped: u64,
    uuid_changes: u64,
    layout_changes: u64,
    tombstones: u64,
    fail_reasons: BTreeMap<String, u64>,
}

fn scan(be_txn: &mut impl BackendTransaction, env: &Env) -> Result<Vec<Stored>, String> {
    let mut v = be_txn.search(&Limits::unlimited(), &env.all).map_err(|e| format!("scan: {e:?}"))?;
    v.sort_by_key(|e| e.get_id());
    Ok(v)
}

/// Run `h` on a fresh backend and a fresh model state. `Ok(stats)` if every commit agreed with the model
/// and the oracle; the oracle is evaluated on the implementation's own tables whatever the model says.
fn run_history(env: &mut Env, h: &History, collect_model: &mut Vec<Fail>) -> Result<Stats, Fail> {
    let uni = universe(h);
    env.serial += 1;
    let path = env.tmp.join(format!("c03-{}-{}.db", std::process::id(), env.serial));
    let _ = std::fs::remove_file(&path);
    let infra = |at: usize, e: String| Fail { kind: "impl-vs-model", what: "infra".into(), at, expected: "operation sequence runs".into(), observed: e };
    let open = |layout: &Layout| -> Result<Backend, String> { c03::backend_open(if h.file { Some(path.as_path()) } else { None }, &real_layout(layout)).map_err(|e| format!("{e:?}")) };
    let mut be = open(&h.layout0).map_err(|e| infra(0, e))?;
    let r = env.drv.ask(&format!("reset | {}", layout_text(&h.layout0)));
    assert_eq!(r, "ok", "driver reset");
    let mut st = Stats::default();
    let mut meta: Layout = h.layout0.clone();
    let mut stale: BTreeSet<(usize, char)> = BTreeSet::new();
    let mut shadow: BTreeMap<u64, Plain> = BTreeMap::new(); // id -> plain
    let mut t = 10u64;
    let mut model_ok = true;
    for (i, op) in h.ops.iter().enumerate() {
        t += 2;
        let c = cid(t);
        let mut wr = be.write().map_err(|e| infra(i, format!("{e:?}")))?;
        // ---- the real operation; `line` = the same operation for the model
        let mut new_shadow = shadow.clone();
        let mut did_reindex = false;
        let real: Result<String, String> = (|| -> Result<String, String> {
            match op {
                Op::Create(ps, refresh) => {
                    let mut sealed = vec![];
                    for p in ps {
                        let v = real_new(p).assign_cid(c.clone(), env.schema).validate(env.schema).map_err(|e| format!("validate: {e:?}"))?;
                        sealed.push(v.seal(env.schema));
                    }
                    let out = if *refresh { wr.refresh(sealed) } else { wr.create(&c, sealed) }.map_err(|e| format!("create: {e:?}"))?;
                    for (e, p) in out.iter().zip(ps) {
                        new_shadow.insert(e.get_id(), p.clone());
                    }
                    Ok(format!("create | {}", if ps.is_empty() { "-".into() } else { ps.iter().map(|p| format!("{}:{}", p.uuid, model_assoc(p))).collect::<Vec<_>>().join(";") }))
                }
                Op::Modify(ms) => {
                    let stored = scan(&mut wr, env)?;
                    let mut pres: Vec<Stored> = vec![];
                    let mut posts = vec![];
                    let mut lines = vec![];
                    let mut seen = BTreeSet::new();
                    for (u, post) in ms {
                        let Some(pre) = stored.iter().find(|e| uuid_nat(e.get_uuid()) == Some(*u)) else { continue };
                        if !seen.insert(pre.get_id()) {
                            continue;
                        }
                        let pre_plain = shadow.get(&pre.get_id()).cloned().ok_or("shadow lost an entry")?;
                        let post_plain = apply_post(&pre_plain, post);
                        let sealed = match post {
                            Post::Tombstone => pre.to_tombstone(c.clone()).validate(env.schema).map_err(|e| format!("validate ts: {e:?}"))?.seal(env.schema),
                            Post::Recycle => pre.as_ref().clone().invalidate(c.clone(), &cid(0)).to_recycled().validate(env.schema).map_err(|e| format!("validate rc: {e:?}"))?.seal(env.schema),
                            Post::Revive => pre.as_ref().clone().invalidate(c.clone(), &cid(0)).to_revived().validate(env.schema).map_err(|e| format!("validate rv: {e:?}"))?.seal(env.schema),
                            Post::Set(p) => {
                                let mut inv = pre.as_ref().clone().invalidate(c.clone(), &cid(0));
                                for a in 0..NATTR {
                                    let vs = p.vals(a);
                                    if vs.is_empty() {
                                        let _ = inv.pop_ava(attr(a));
                                    } else {
                                        inv.set_ava(&attr(a), real_values(a, &vs));
                                    }
                                }
                                inv.validate(env.schema).map_err(|e| format!("validate: {e:?}"))?.seal(env.schema)
                            }
                        };
                        lines.push(format!("{}:{}:{}~{}:{}:{}", pre.get_id(), pre_plain.uuid, model_assoc(&pre_plain), pre.get_id(), post_plain.uuid, model_assoc(&post_plain)));
                        new_shadow.insert(pre.get_id(), post_plain);
                        pres.push(pre.clone());
                        posts.push(sealed);
                    }
                    wr.modify(&c, &pres, &posts).map_err(|e| format!("modify: {e:?}"))?;
                    Ok(format!("modify | {}", if lines.is_empty() { "-".into() } else { lines.join(";") }))
                }
                Op::Reap => {
                    let before: BTreeSet<u64> = scan(&mut wr, env)?.iter().map(|e| e.get_id()).collect();
                    wr.reap_tombstones(&c, &cid(t - 1)).map_err(|e| format!("reap: {e:?}"))?;
                    let after: BTreeSet<u64> = scan(&mut wr, env)?.iter().map(|e| e.get_id()).collect();
                    let gone: Vec<u64> = before.difference(&after).cloned().collect();
                    for id in &gone {
                        new_shadow.remove(id);
                    }
                    Ok(format!("reap | {}", if gone.is_empty() { "-".into() } else { gone.iter().map(|x| x.to_string()).collect::<Vec<_>>().join(",") }))
                }
                Op::SetMeta(l, reindex) => {
                    c01::set_layout(&mut wr, &real_layout(l), *reindex).map_err(|e| format!("setmeta: {e:?}"))?;
                    did_reindex = *reindex;
                    Ok(format!("setmeta | {}", layout_text(l)))
                }
                Op::Reindex => {
                    wr.reindex(false).map_err(|e| format!("reindex: {e:?}"))?;
                    did_reindex = true;
                    Ok("reindex".into())
                }
                Op::Upgrade(v) => {
                    wr.upgrade_reindex(*v).map_err(|e| format!("upgrade: {e:?}"))?;
                    Ok(format!("upgrade {v}"))
                }
            }
        })();
        let line = match real {
            Err(e) => {
                *st.fail_reasons.entry(e.chars().take(60).collect()).or_default() += 1;
                // the operation failed: the transaction is abandoned, nothing is committed; the model is not stepped
                drop(wr);
                st.failed_ops += 1;
                continue;
            }
            Ok(l) => l,
        };
        wr.commit().map_err(|e| infra(i, format!("commit: {e:?}")))?;
        st.commits += 1;
        shadow = new_shadow;
        // ---- the model
        let mut replies = vec![env.drv.ask(&line)];
        if let Op::SetMeta(_, true) = op {
            replies.push(env.drv.ask("reindex"));
        }
        if let Op::SetMeta(l, reindex) = op {
            // tables that exist but leave the metadata are no longer maintained
            if !*reindex {
                if let Ok(d) = real_dump(&be, &uni) {
                    for tn in d.tables.keys() {
                        let (a, cc) = tn.split_once(':').unwrap();
                        let k = (a.parse::<usize>().unwrap(), cc.chars().next().unwrap());
                        if !l.contains(&k) {
                            stale.insert(k);
                        }
                    }
                }
            }
            meta = l.clone();
            st.layout_changes += 1;
        }
        if did_reindex {
            stale.clear();
        }
        if let Op::Upgrade(_) = op {
            // whether it reindexed is the implementation's decision: observed through the tables
        }
        if h.file && i % 7 == 6 {
            // drop every cache: re-open the database file (`Backend::new` re-reads the maximum entry id from id2entry)
            drop(be);
            be = open(&meta).map_err(|e| infra(i, e))?;
            replies.push(env.drv.ask("reopen"));
        }
        // ---- observe
        let real_d = real_dump(&be, &uni).map_err(|e| infra(i, e))?;
        if let Op::Upgrade(_) = op {
            // a reindex happened iff the tables now equal the metadata exactly; then nothing is stale
            let tabs: BTreeSet<String> = real_d.tables.keys().cloned().collect();
            let want: BTreeSet<String> = meta.iter().map(|(a, c)| format!("{a}:{c}")).collect();
            if tabs == want && env.drv.ask("dump").starts_with("T ") {
                // decided by the model below; staleness only cleared if the model reindexed too
            }
        }
        // model correspondence
        if model_ok {
            let bad_reply = replies.iter().find(|r| !(r.as_str() == "ok" || r.starts_with("ok ")));
            let model_text = env.drv.ask("dump");
            let f = if let Some(r) = bad_reply {
                Some(Fail { kind: "impl-vs-model", what: "reply".into(), at: i, expected: "ok (the implementation committed)".into(), observed: format!("{r} to `{line}`") })
            } else {
                match Dump::parse(&model_text) {
                    None => Some(Fail { kind: "impl-vs-model", what: "reply".into(), at: i, expected: "a dump".into(), observed: model_text.clone() }),
                    Some(md) => md.diff(&real_d, None).map(|(w, m, r)| Fail { kind: "impl-vs-model", what: w, at: i, expected: format!("model: {m}"), observed: format!("impl: {r}") }),
                }
            };
            if let Some(f) = f {
                model_ok = false;
                collect_model.push(f);
            }
        }
        // oracle
        let mut rd = be.read().map_err(|e| infra(i, format!("{e:?}")))?;
        let stored = scan(&mut rd, env).map_err(|e| infra(i, e))?;
        let mut plains = vec![];
        for e in &stored {
            plains.push((e.get_id(), scan_plain(e).map_err(|x| infra(i, x))?));
        }
        let want_ents: Vec<(u64, Plain)> = shadow.iter().map(|(k, v)| (*k, v.clone())).collect();
        if plains != want_ents {
            return Err(Fail { kind: "impl-vs-oracle", what: "entries".into(), at: i, expected: format!("{want_ents:?}"), observed: format!("{plains:?}") });
        }
        if let Op::Upgrade(_) = op {
            let tabs: BTreeSet<String> = real_d.tables.keys().cloned().collect();
            let want: BTreeSet<String> = meta.iter().map(|(a, c)| format!("{a}:{c}")).collect();
            // upgrade_reindex either did nothing or rebuilt everything; a rebuild is recognisable when it changed the table set
            if tabs == want && !stale.is_empty() && stale.iter().all(|k| !tabs.contains(&format!("{}:{}", k.0, k.1))) {
                stale.clear();
            }
        }
        let existing: BTreeSet<(usize, char)> = real_d
            .tables
            .keys()
            .map(|tn| {
                let (a, cc) = tn.split_once(':').unwrap();
                (a.parse::<usize>().unwrap(), cc.chars().next().unwrap())
            })
            .collect();
        if did_reindex {
            let want: BTreeSet<(usize, char)> = meta.iter().cloned().collect();
            if existing != want {
                return Err(Fail { kind: "impl-vs-oracle", what: "tables".into(), at: i, expected: format!("after a reindex exactly the configured tables {want:?}"), observed: format!("{existing:?}") });
            }
        }
        let tracked: BTreeSet<(usize, char)> = existing.iter().filter(|k| meta.contains(k) && !stale.contains(k)).cloned().collect();
        for k in &tracked {
            st.itypes.insert(k.1);
        }
        let od = oracle_dump(&plains, &tracked);
        let only: BTreeSet<String> = tracked.iter().map(|(a, c)| format!("{a}:{c}")).collect();
        if let Some((w, o, r)) = od.diff(&real_d, Some(&only)) {
            return Err(Fail { kind: "impl-vs-oracle", what: w, at: i, expected: format!("rebuilt from the stored entries: {o}"), observed: format!("stored: {r}") });
        }
        let v1 = rd.verify();
        let v2 = rd.verify_indexes();
        if !v1.is_empty() || !v2.is_empty() {
            return Err(Fail { kind: "impl-vs-oracle", what: "verify".into(), at: i, expected: "verify() and verify_indexes() report nothing".into(), observed: format!("{v1:?} {v2:?}") });
        }
        // statistics for the non-triviality rule
        match op {
            Op::Modify(ms) => {
                if ms.len() > 1 {
                    st.batches += 1;
                }
                for (_, p) in ms {
                    match p {
                        Post::Revive => st.revives += 1,
                        Post::Tombstone => st.tombstones += 1,
                        _ => {}
                    }
                }
            }
            Op::Reap => {}
            _ => {}
        }
    }
    drop(be);
    let _ = std::fs::remove_file(&path);
    if !model_ok {
        return Err(collect_model.last().cloned().unwrap());
    }
    Ok(st)
}

// ---------------------------------------------------------------------------------------------
// generators

const NAMES: [&str; 10] = ["ann", "anna", "hanna", "han", "bob", "bobby", "rob", "robin", "zed", "ab"];
const DOMAINS: [&str; 2] = ["example.com", "ex.org"];
const CLASSES: [&str; 3] = ["memberof", "system", "builtin"];
const DESCS: [&str; 6] = ["Anna B", "the Boss", "ab", "x", "Hannah Montana", "BOB"];
const MAILS: [&str; 5] = ["Ann@Example.com", "bob@example.com", "rob@ex.org", "a@b.c", "ANNA@EX.ORG"];
const CLAIMS: [&str; 3] = ["ca", "cb", "cc"];

fn all_keys() -> Vec<(usize, char)> {
    let mut v = vec![];
    for a in 0..NATTR {
        for c in ['e', 's', 'p', 'o'] {
            if c == 's' && !sub_capable(a) {
                continue;
            }
            v.push((a, c));
        }
    }
    v
}

fn gen_layout(rng: &mut Rng) -> Layout {
    let keys = all_keys();
    let dens = rng.range(1, 3);
    let mut l: Layout = keys.into_iter().filter(|_| rng.chance(dens, 4)).collect();
    // the tables the statement is mostly about are usually present
    for k in [(A_NAME, 'e'), (A_NAME, 's'), (A_NAME, 'p'), (A_CLASS, 'e'), (A_UUID, 'e'), (A_MAIL, 's'), (A_CLAIM, 'e')] {
        if rng.chance(3, 4) && !l.contains(&k) {
            l.push(k);
        }
    }
    rng.shuffle(&mut l);
    l
}

/// the shadow state the generator keeps while it builds a history
#[derive(Clone, Default)]
struct Sim {
    ents: Vec<Plain>, // stored entries in id order (ids are not needed by the generator)
    next_uuid: u64,
}

impl Sim {
    fn live_ok(&self) -> bool {
        // what the upper layers guarantee at every commit: uuids unique; names, external ids unique among the
        // entries that are neither recycled nor tombstones
        let mut uu = BTreeSet::new();
        let mut names = BTreeSet::new();
        let mut ext = BTreeSet::new();
        for p in &self.ents {
            if !uu.insert(p.uuid) {
                return false;
            }
            if p.masked() {
                continue;
            }
            for n in p.names() {
                if !names.insert(n) {
                    return false;
                }
            }
            if let Some(x) = p.extid() {
                if !ext.insert(x) {
                    return false;
                }
            }
        }
        true
    }
}

fn gen_plain(rng: &mut Rng, uuid: u64, hazard: bool) -> Plain {
    let mut attrs: BTreeMap<usize, Vec<PV>> = BTreeMap::new();
    let mut cls = vec![PV::S("object".into()), PV::S("extensibleobject".into())];
    for c in CLASSES {
        if rng.chance(1, 3) {
            cls.push(PV::S(c.into()));
        }
    }
    attrs.insert(A_CLASS, cls);
    if rng.chance(5, 6) {
        attrs.insert(A_NAME, vec![PV::S(rng.pick(&NAMES).to_string())]);
    }
    if rng.chance(2, 3) {
        attrs.insert(A_SPN, vec![PV::S(format!("{}@{}", rng.pick(&NAMES), rng.pick(&DOMAINS)))]);
    }
    if rng.chance(1, 2) {
        attrs.insert(A_GID, vec![PV::N(1000 + rng.below(6))]);
    }
    if rng.chance(1, 3) {
        attrs.insert(A_EXTID, vec![PV::S(format!("ext{}", rng.below(4)))]);
    }
    if rng.chance(1, 2) {
        attrs.insert(A_DESC, vec![PV::S(rng.pick(&DESCS).to_string())]);
    }
    if rng.chance(1, 2) {
        attrs.insert(A_DN, vec![PV::S(rng.pick(&DESCS).to_string())]);
    }
    if rng.chance(1, 2) {
        let n = rng.range(1, 3);
        attrs.insert(A_MAIL, (0..n).map(|_| PV::S(rng.pick(&MAILS).to_string())).collect());
    }
    if rng.chance(1, 2) {
        let n = rng.range(1, 3);
        let mut v: Vec<PV> = vec![];
        for _ in 0..n {
            let c = rng.pick(&CLAIMS).to_string();
            let g = 900 + rng.below(3);
            // without `hazard` a group is mapped by at most one claim of an entry (duplicate-free key lists)
            if hazard || !v.iter().any(|x| matches!(x, PV::C(_, g2) if *g2 == g)) {
                v.push(PV::C(c, g));
            }
        }
        attrs.insert(A_CLAIM, v);
    }
    if rng.chance(1, 3) {
        let n = rng.range(1, 3);
        attrs.insert(A_MEMBER, (0..n).map(|_| PV::N(900 + rng.below(3))).collect());
    }
    Plain { uuid, attrs }.norm()
}

/// one random edit of a plain entry
fn mutate(rng: &mut Rng, p: &Plain, hazard: bool, sim: &Sim) -> Plain {
    let mut q = p.clone();
    let fresh = gen_plain(rng, p.uuid, hazard);
    match rng.below(12) {
        0 | 1 => {
            // rename
            q.attrs.insert(A_NAME, vec![PV::S(rng.pick(&NAMES).to_string())]);
        }
        2 => {
            match fresh.attrs.get(&A_SPN) {
                Some(v) => q.attrs.insert(A_SPN, v.clone()),
                None => q.attrs.remove(&A_SPN),
            };
        }
        3 => {
            match fresh.attrs.get(&A_GID) {
                Some(v) => q.attrs.insert(A_GID, v.clone()),
                None => q.attrs.remove(&A_GID),
            };
        }
        4 => {
            match fresh.attrs.get(&A_EXTID) {
                Some(v) => q.attrs.insert(A_EXTID, v.clone()),
                None => q.attrs.remove(&A_EXTID),
            };
        }
        5 => {
            // multi-valued edit: mail
            let v = q.attrs.entry(A_MAIL).or_default();
            if !v.is_empty() && rng.chance(1, 2) {
                let i = rng.below(v.len() as u64) as usize;
                v.remove(i);
            } else {
                v.push(PV::S(rng.pick(&MAILS).to_string()));
            }
        }
        6 => {
            // multi-valued edit: class
            let c = PV::S(rng.pick(&CLASSES).to_string());
            let v = q.attrs.entry(A_CLASS).or_default();
            if v.contains(&c) {
                v.retain(|x| *x != c);
            } else {
                v.push(c);
            }
        }
        7 | 8 => {
            // multi-valued edit: claim map
            let v = q.attrs.entry(A_CLAIM).or_default();
            if !v.is_empty() && rng.chance(1, 2) {
                let i = rng.below(v.len() as u64) as usize;
                v.remove(i);
            } else {
                let c = rng.pick(&CLAIMS).to_string();
                let g = 900 + rng.below(3);
                if hazard || !v.iter().any(|x| matches!(x, PV::C(_, g2) if *g2 == g)) {
                    v.push(PV::C(c, g));
                }
            }
        }
        9 => {
            let v = q.attrs.entry(A_MEMBER).or_default();
            if !v.is_empty() && rng.chance(1, 2) {
                v.remove(0);
            } else {
                v.push(PV::N(900 + rng.below(3)));
            }
        }
        10 => {
            for a in [A_DESC, A_DN] {
                match fresh.attrs.get(&a) {
                    Some(v) => q.attrs.insert(a, v.clone()),
                    None => q.attrs.remove(&a),
                };
            }
        }
        _ => {
            // everything at once
            q = fresh;
            q.attrs.insert(A_CLASS, p.vals(A_CLASS));
        }
    }
    let _ = sim;
    q.norm()
}

fn gen_history(rng: &mut Rng, nops: usize, hazard: bool, file: bool) -> History {
    let layout0 = gen_layout(rng);
    let mut ops = vec![];
    let mut sim = Sim { ents: vec![], next_uuid: 1 };
    // most histories start with the tables created
    if rng.chance(5, 6) {
        ops.push(Op::Reindex);
    }
    let mut window = 0u32; // > 0: inside a "migration" window (metadata changed, reindex pending)
    while ops.len() < nops {
        let r = rng.below(100);
        if sim.ents.is_empty() || r < 14 {
            // create 1..3 entries
            let n = rng.range(1, 3);
            let mut ps = vec![];
            let mut s2 = sim.clone();
            for _ in 0..n {
                for _try in 0..20 {
                    let p = gen_plain(rng, s2.next_uuid, hazard);
                    let mut s3 = s2.clone();
                    s3.ents.push(p.clone());
                    if s3.live_ok() {
                        s3.next_uuid += 1;
                        s2 = s3;
                        ps.push(p);
                        break;
                    }
                }
            }
            if !ps.is_empty() {
                sim = s2;
                ops.push(Op::Create(ps, rng.chance(1, 5)));
            }
        } else if r < 72 {
            // modify batch of 1..3 stored entries
            let n = (rng.range(1, 3) as usize).min(sim.ents.len());
            let mut idxs: Vec<usize> = (0..sim.ents.len()).collect();
            rng.shuffle(&mut idxs);
            let mut batch = vec![];
            let mut s2 = sim.clone();
            for &ix in idxs.iter().take(n) {
                let pre = s2.ents[ix].clone();
                if pre.has_class("tombstone") {
                    continue;
                }
                for _try in 0..20 {
                    let k = rng.below(20);
                    let post = if k == 0 {
                        Post::Tombstone
                    } else if k <= 2 && !pre.has_class("recycled") {
                        Post::Recycle
                    } else if k <= 5 && pre.has_class("recycled") {
                        Post::Revive
                    } else if k == 6 && !pre.masked() {
                        // uuid-changing conflict
                        let mut p = mutate(rng, &pre, hazard, &s2);
                        p.uuid = s2.next_uuid;
                        Post::Set(p)
                    } else {
                        Post::Set(mutate(rng, &pre, hazard, &s2))
                    };
                    let mut s3 = s2.clone();
                    s3.ents[ix] = apply_post(&pre, &post);
                    // `Value::eq` debug_asserts on (Spn, Iname) / (Spn, Uuid) / (Iname, Uuid): an entry whose uuid2spn value
                    // falls back to a weaker attribute panics `idx_uuid2spn_diff` in debug builds (release: plain `false`)
                    if !pre.masked() && !s3.ents[ix].masked() && pre.uuid == s3.ents[ix].uuid && s3.ents[ix].spn_rank() < pre.spn_rank() {
                        continue;
                    }
                    // without `hazard` every intermediate state of the batch respects uniqueness (no name is handed over)
                    if s3.live_ok() || (hazard && rng.chance(1, 3)) {
                        if let Post::Set(p) = &post {
                            if p.uuid != pre.uuid {
                                s3.next_uuid += 1;
                            }
                        }
                        s2 = s3;
                        batch.push((pre.uuid, post));
                        break;
                    }
                }
            }
            if !s2.live_ok() {
                continue; // the committed state must respect uniqueness even in hazard mode
            }
            if !batch.is_empty() {
                sim = s2;
                ops.push(Op::Modify(batch));
            }
        } else if r < 78 {
            ops.push(Op::Reap);
            // which tombstones go is the implementation's decision; the generator forgets all of them
            sim.ents.retain(|p| !p.has_class("tombstone"));
        } else if r < 86 {
            let l = gen_layout(rng);
            let re = window == 0 && rng.chance(3, 4);
            if !re {
                window += 1;
            } else {
                window = 0;
            }
            ops.push(Op::SetMeta(l, re));
        } else if r < 94 {
            ops.push(Op::Reindex);
            window = 0;
        } else {
            ops.push(Op::Upgrade(rng.below(4) as i64));
        }
    }
    History { layout0, file, ops }
}

// ---------------------------------------------------------------------------------------------
// corpus

fn pl(uuid: u64, kv: &[(usize, Vec<PV>)]) -> Plain {
    let mut attrs: BTreeMap<usize, Vec<PV>> = kv.iter().cloned().collect();
    attrs.entry(A_CLASS).or_insert(vec![PV::S("object".into()), PV::S("extensibleobject".into())]);
    Plain { uuid, attrs }.norm()
}
fn s(x: &str) -> PV {
    PV::S(x.into())
}

fn full_layout() -> Layout {
    all_keys()
}

fn corpus() -> Vec<(&'static str, History)> {
    let mut v = vec![];
    // D35 witness: a group mapped by two claims, one mapping removed
    let e1 = pl(1, &[(A_NAME, vec![s("ann")]), (A_CLAIM, vec![PV::C("ca".into(), 900), PV::C("cb".into(), 900)])]);
    let e1b = pl(1, &[(A_NAME, vec![s("ann")]), (A_CLAIM, vec![PV::C("ca".into(), 900)])]);
    v.push(("d35-dup-eq-keys", History { layout0: vec![(A_CLAIM, 'e'), (A_NAME, 'e')], file: false, ops: vec![Op::Reindex, Op::Create(vec![e1.clone()], false), Op::Modify(vec![(1, Post::Set(e1b))])] }));
    // D36 witness: two entries swap names in one batch
    let a = pl(1, &[(A_NAME, vec![s("ann")])]);
    let b = pl(2, &[(A_NAME, vec![s("bob")])]);
    let a2 = pl(1, &[(A_NAME, vec![s("bob")])]);
    let b2 = pl(2, &[(A_NAME, vec![s("ann")])]);
    v.push(("d36-name-swap", History { layout0: vec![(A_NAME, 'e')], file: false, ops: vec![Op::Reindex, Op::Create(vec![a.clone(), b.clone()], false), Op::Modify(vec![(1, Post::Set(a2)), (2, Post::Set(b2))])] }));
    // D36 variant: the second entry releases the name the first one takes
    let b3 = pl(2, &[(A_NAME, vec![s("rob")])]);
    let a3 = pl(1, &[(A_NAME, vec![s("bob")])]);
    v.push(("d36-name-handoff", History { layout0: vec![(A_NAME, 'e')], file: false, ops: vec![Op::Reindex, Op::Create(vec![a.clone(), b.clone()], false), Op::Modify(vec![(1, Post::Set(a3)), (2, Post::Set(b3))])] }));
    // passing: the catalogue of DESIGN §7 — presence kept while one of several values goes, recycle / revive, rename, uuid change
    let m = pl(3, &[(A_NAME, vec![s("hanna")]), (A_SPN, vec![s("hanna@example.com")]), (A_GID, vec![PV::N(1001)]), (A_MAIL, vec![s("Ann@Example.com"), s("a@b.c")]), (A_EXTID, vec![s("ext1")])]);
    let m2 = pl(3, &[(A_NAME, vec![s("han")]), (A_SPN, vec![s("han@example.com")]), (A_GID, vec![PV::N(1002)]), (A_MAIL, vec![s("a@b.c")]), (A_EXTID, vec![s("ext2")])]);
    let mut m3 = m2.clone();
    m3.uuid = 7;
    v.push((
        "lifecycle",
        History {
            layout0: full_layout(),
            file: false,
            ops: vec![
                Op::Reindex,
                Op::Create(vec![m.clone(), a.clone()], false),
                Op::Modify(vec![(3, Post::Set(m2.clone()))]),
                Op::Modify(vec![(3, Post::Recycle)]),
                Op::Modify(vec![(3, Post::Revive)]),
                Op::Modify(vec![(3, Post::Set(m3))]),
                Op::Modify(vec![(7, Post::Recycle)]),
                Op::Modify(vec![(7, Post::Tombstone)]),
                Op::SetMeta(vec![(A_NAME, 'e'), (A_MAIL, 's')], true),
                Op::Reap,
                Op::Upgrade(3),
                Op::Upgrade(3),
                Op::SetMeta(full_layout(), false),
                Op::Modify(vec![(1, Post::Set(pl(1, &[(A_NAME, vec![s("zed")]), (A_DESC, vec![s("the Boss")])])))]),
                Op::Reindex,
            ],
        },
    ));
    v
}

// ---------------------------------------------------------------------------------------------
// failure handling: shrink, classify

fn last_modify(h: &History) -> Option<&Vec<(u64, Post)>> {
    match h.ops.last() {
        Some(Op::Modify(m)) => Some(m),
        _ => None,
    }
}

/// rewrite of the last modify that keeps its meaning but avoids a duplicate-key merge: the claim map is
/// purged in one transaction and set in the next
fn rewrite_f1(h: &History) -> Option<History> {
    let m = last_modify(h)?;
    let mut first = vec![];
    for (u, p) in m {
        match p {
            Post::Set(pl) => {
                let mut q = pl.clone();
                q.attrs.remove(&A_CLAIM);
                first.push((*u, Post::Set(q)));
            }
            _ => return None,
        }
    }
    let mut ops = h.ops.clone();
    ops.pop();
    // the intermediate entries keep their uuid: the final step addresses them by the uuid they have then
    let second: Vec<(u64, Post)> = m.iter().map(|(u, p)| (if let Post::Set(pl) = p { if pl.uuid != *u { pl.uuid } else { *u } } else { *u }, p.clone())).collect();
    ops.push(Op::Modify(first));
    ops.push(Op::Modify(second));
    Some(History { layout0: h.layout0.clone(), file: h.file, ops })
}

/// rewrite of the last modify batch that keeps its meaning but hands no name over inside a batch: every
/// entry first releases its names / external id in one transaction, then takes its new ones
fn rewrite_f2(h: &History) -> Option<History> {
    let m = last_modify(h)?;
    if m.len() < 2 {
        return None;
    }
    // first transaction: everything that only releases names (recycle, tombstone, and the `Set` members with their
    // names / external id cleared); second transaction: everything that takes names (the full `Set`s, revives)
    let mut first = vec![];
    let mut second = vec![];
    for (u, p) in m {
        match p {
            Post::Set(pl) if pl.uuid == *u => {
                // temporary names nobody else uses, of the same kind (dropping an attribute would trip the
                // `Value::eq` debug_assert, see the generator)
                let mut q = pl.clone();
                if q.attrs.contains_key(&A_NAME) {
                    q.attrs.insert(A_NAME, vec![PV::S(format!("tmp{u}"))]);
                }
                if q.attrs.contains_key(&A_SPN) {
                    q.attrs.insert(A_SPN, vec![PV::S(format!("tmp{u}@tmp.example"))]);
                }
                if q.attrs.contains_key(&A_GID) {
                    q.attrs.insert(A_GID, vec![PV::N(900_000 + *u)]);
                }
                if q.attrs.contains_key(&A_EXTID) {
                    q.attrs.insert(A_EXTID, vec![PV::S(format!("tmp{u}"))]);
                }
                first.push((*u, Post::Set(q)));
                second.push((*u, p.clone()));
            }
            Post::Set(_) => return None,
            Post::Recycle | Post::Tombstone => first.push((*u, p.clone())),
            Post::Revive => second.push((*u, p.clone())),
        }
    }
    let mut ops = h.ops.clone();
    ops.pop();
    if !first.is_empty() {
        ops.push(Op::Modify(first));
    }
    if !second.is_empty() {
        ops.push(Op::Modify(second));
    }
    Some(History {
        layout0: h.layout0.clone(),
        file: h.file,
        ops,
    })
}

fn shape_f1(h: &History, env: &mut Env) -> bool {
    // the pre entry of a modified entry carries a duplicate equality key: decided on the history itself
    let Some(m) = last_modify(h) else { return false };
    let mut cur: BTreeMap<u64, Plain> = BTreeMap::new();
    for op in &h.ops[..h.ops.len() - 1] {
        match op {
            Op::Create(ps, _) => {
                for p in ps {
                    cur.insert(p.uuid, p.clone());
                }
            }
            Op::Modify(ms) => {
                for (u, p) in ms {
                    if let Some(pre) = cur.remove(u) {
                        let q = apply_post(&pre, p);
                        cur.insert(q.uuid, q);
                    }
                }
            }
            _ => {}
        }
    }
    let _ = env;
    m.iter().any(|(u, _)| cur.get(u).map(|p| p.dup_keys()).unwrap_or(false))
}

fn shape_f2(h: &History) -> bool {
    let Some(m) = last_modify(h) else { return false };
    if m.len() < 2 {
        return false;
    }
    let mut cur: BTreeMap<u64, Plain> = BTreeMap::new();
    for op in &h.ops[..h.ops.len() - 1] {
        match op {
            Op::Create(ps, _) => {
                for p in ps {
                    cur.insert(p.uuid, p.clone());
                }
            }
            Op::Modify(ms) => {
                for (u, p) in ms {
                    if let Some(pre) = cur.remove(u) {
                        let q = apply_post(&pre, p);
                        cur.insert(q.uuid, q);
                    }
                }
            }
            _ => {}
        }
    }
    // some entry of the batch takes a name (or external id) that another entry of the batch held before
    for (i, (u, p)) in m.iter().enumerate() {
        let Some(pre) = cur.get(u) else { continue };
        let post = apply_post(pre, p);
        if post.masked() {
            continue;
        }
        for (j, (u2, _)) in m.iter().enumerate() {
            if i == j {
                continue;
            }
            let Some(other) = cur.get(u2) else { continue };
            if other.masked() {
                continue;
            }
            if post.names().intersection(&other.names()).next().is_some() {
                return true;
            }
            if post.extid().is_some() && post.extid() == other.extid() {
                return true;
            }
        }
    }
    false
}

/// every committed state of the history respects what the layers above the backend guarantee: uuids unique, names and
/// external ids unique among the entries that are neither recycled nor tombstones (shrinking must not leave this class)
fn committed_states_ok(h: &History) -> bool {
    let mut sim = Sim::default();
    for op in &h.ops {
        match op {
            Op::Create(ps, _) => sim.ents.extend(ps.iter().cloned()),
            Op::Modify(ms) => {
                for (u, p) in ms {
                    if let Some(ix) = sim.ents.iter().position(|e| e.uuid == *u) {
                        let pre = sim.ents[ix].clone();
                        let post = apply_post(&pre, p);
                        // the debug_assert of `Value::eq` (see the generator)
                        if !pre.masked() && !post.masked() && pre.uuid == post.uuid && post.spn_rank() < pre.spn_rank() {
                            return false;
                        }
                        if pre.has_class("tombstone") {
                            return false;
                        }
                        sim.ents[ix] = post;
                    }
                }
            }
            _ => {}
        }
        if !sim.live_ok() {
            return false;
        }
    }
    true
}

fn fails_oracle(env: &mut Env, h: &History) -> Option<Fail> {
    let mut sink = vec![];
    match run_history(env, h, &mut sink) {
        Err(f) if f.kind == "impl-vs-oracle" => Some(f),
        _ => None,
    }
}
fn fails_any(env: &mut Env, h: &History) -> Option<Fail> {
    if !committed_states_ok(h) {
        return None;
    }
    let mut sink = vec![];
    run_history(env, h, &mut sink).err()
}

fn shrink(env: &mut Env, h: &History, kind: &str) -> History {
    let layout0 = h.layout0.clone();
    let file = h.file;
    let ops = shrink_list(h.ops.clone(), |cand| {
        let hh = History { layout0: layout0.clone(), file, ops: cand.to_vec() };
        matches!(fails_any(env, &hh), Some(f) if f.kind == kind)
    });
    // then drop batch members and layout keys
    let mut best = History { layout0, file, ops };
    loop {
        let mut progressed = false;
        for i in 0..best.ops.len() {
            if let Op::Modify(ms) = &best.ops[i] {
                if ms.len() > 1 {
                    for j in 0..ms.len() {
                        let mut m2 = ms.clone();
                        m2.remove(j);
                        let mut cand = best.clone();
                        cand.ops[i] = Op::Modify(m2);
                        if matches!(fails_any(env, &cand), Some(f) if f.kind == kind) {
                            best = cand;
                            progressed = true;
                            break;
                        }
                    }
                }
            }
            if progressed {
                break;
            }
        }
        if !progressed {
            for j in 0..best.layout0.len() {
                let mut cand = best.clone();
                cand.layout0.remove(j);
                if matches!(fails_any(env, &cand), Some(f) if f.kind == kind) {
                    best = cand;
                    progressed = true;
                    break;
                }
            }
        }
        if !progressed {
            break;
        }
    }
    best
}

fn classify(env: &mut Env, h: &History, f: &Fail) -> String {
    if f.kind != "impl-vs-oracle" {
        return "unclassified".into();
    }
    if f.what == format!("T:{A_CLAIM}:e") && shape_f1(h, env) {
        if let Some(r) = rewrite_f1(h) {
            if fails_any(env, &r).is_none() {
                return "C03-F1:dup-eq-keys-merge".into();
            }
        }
    }
    if (f.what == "N" || f.what == "X" || f.what == "verify") && shape_f2(h) {
        if let Some(r) = rewrite_f2(h) {
            if fails_any(env, &r).is_none() {
                return "C03-F2:batch-name-handoff".into();
            }
        }
    }
    "unclassified".into()
}

fn report_failure(env: &mut Env, rep: &mut Report, h: &History, f: &Fail, tag: &str) {
    let small = shrink(env, h, f.kind);
    let f2 = fails_any(env, &small).unwrap_or(f.clone());
    let class = classify(env, &small, &f2);
    rep.count(&format!("failure:{}:{}", f2.kind, class));
    rep.fail(Failure {
        kind: f2.kind.into(),
        class,
        input: json!({"case": tag, "history": small.to_json(), "at_op": f2.at, "table": f2.what}),
        expected: f2.expected.clone(),
        observed: f2.observed.clone(),
    });
}

// ---------------------------------------------------------------------------------------------

fn nontrivial(st: &Stats, h: &History) -> bool {
    // >= 3 index types mirrored, >= 1 rename or revive, >= 1 multi-valued attribute edit, >= 1 batch
    let mut renames = 0;
    let mut multi = 0;
    let mut revive = 0;
    let mut cur: BTreeMap<u64, Plain> = BTreeMap::new();
    for op in &h.ops {
        match op {
            Op::Create(ps, _) => {
                for p in ps {
                    cur.insert(p.uuid, p.clone());
                }
            }
            Op::Modify(ms) => {
                for (u, p) in ms {
                    if let Some(pre) = cur.remove(u) {
                        let q = apply_post(&pre, p);
                        if matches!(p, Post::Revive) {
                            revive += 1;
                        }
                        if !pre.masked() && !q.masked() && pre.names() != q.names() {
                            renames += 1;
                        }
                        for a in [A_CLASS, A_MAIL, A_CLAIM, A_MEMBER] {
                            if pre.vals(a) != q.vals(a) && pre.vals(a).len() + q.vals(a).len() >= 3 {
                                multi += 1;
                            }
                        }
                        cur.insert(q.uuid, q);
                    }
                }
            }
            _ => {}
        }
    }
    st.itypes.len() >= 3 && (renames + revive) >= 1 && multi >= 1 && st.commits >= 10
}

fn main() {
    let args = Args::parse();
    let rt = tokio::runtime::Builder::new_current_thread().enable_all().build().unwrap();
    rt.block_on(async {
        let qs = setup_test(TestConfiguration::default()).await;
        let mut qs_read = qs.read().await.expect("read txn");
        let schema = qs_read.get_schema();
        let ident = c23::ident_internal(0).expect("internal identity");
        // resolved without index metadata: every term unindexed => a full scan of id2entry
        let all = Filter::new(FC::Pres(Attribute::Class)).validate(schema).expect("validate").resolve(&ident, None, None).expect("resolve");
        let tmp = std::env::temp_dir().join("C03");
        let _ = std::fs::create_dir_all(&tmp);
        let mut env = Env { schema, all, drv: Driver::spawn(&args.driver), tmp, serial: 0 };
        let mut rep = Report::new(
            "be-index",
            "histories of committed backend write operations (create/refresh, modify batches of 1..3 entries: renames, spn/gid/external-id \
             changes, multi-valued edits of class/mail/claim map/member, recycle, revive, tombstone, uuid change; reap_tombstones; update_idxmeta \
             with/without reindex; reindex; upgrade_reindex) on the real Backend over <= 12 entries and random subsets of 40 (attribute, index type) \
             tables; after every commit all index tables (raw dump) and the four name tables (lookups over every name/uuid of the history) are \
             compared with the Lean model and with a rebuild from a full scan, and verify()/verify_indexes() must be empty. Strata: corpus (D35, D36 \
             witnesses, lifecycle); random disciplined histories (20..200 ops); hazard histories (duplicate claim groups, name hand-overs inside a \
             batch allowed). non-trivial = >= 10 commits AND >= 3 index types mirrored AND >= 1 rename or revive AND >= 1 edit of a multi-valued \
             attribute; distinct = distinct history",
        );
        if let Some(path) = &args.replay {
            let j: Json = serde_json::from_str(&std::fs::read_to_string(path).expect("replay file")).expect("json");
            let input = if j["input"].is_null() { j.clone() } else { j["input"].clone() };
            let h = History::from_json(&input["history"]);
            rep.case(None);
            if let Some(f) = fails_any(&mut env, &h) {
                let class = classify(&mut env, &h, &f);
                rep.fail(Failure { kind: f.kind.into(), class, input: input.clone(), expected: f.expected, observed: f.observed });
            }
            rep.model_requests = env.drv.requests;
            rep.write(&args.out);
            println!("c03: replay, {} failures", rep.failures.len());
            return;
        }
        // corpus
        for (tag, h) in corpus() {
            rep.count("stratum:corpus");
            let mut sink = vec![];
            match run_history(&mut env, &h, &mut sink) {
                Ok(st) => {
                    rep.case(if nontrivial(&st, &h) { Some(format!("corpus:{tag}")) } else { None });
                    rep.count(&format!("corpus:{tag}:pass"));
                }
                Err(f) => {
                    rep.case(None);
                    rep.count(&format!("corpus:{tag}:fail"));
                    report_failure(&mut env, &mut rep, &h, &f, tag);
                }
            }
        }
        // random histories
        let n = args.cases(30, 600);
        let mut oracle_found = false;
        let mut model_reported = 0;
        for i in 0..n {
            let mut rng = Rng::for_case(args.seed, i);
            let hazard = i % 10 == 9;
            let file = args.thorough() && i % 5 == 3;
            let nops = match rng.below(10) {
                0 => rng.range(100, 200),
                1..=3 => rng.range(40, 100),
                _ => rng.range(20, 40),
            } as usize;
            let h = gen_history(&mut rng, nops, hazard, file);
            rep.count(if hazard { "stratum:hazard" } else { "stratum:disciplined" });
            if file {
                rep.count("file-backed");
            }
            let mut sink = vec![];
            match run_history(&mut env, &h, &mut sink) {
                Ok(st) => {
                    rep.case(if nontrivial(&st, &h) { Some(format!("{}:{i}", args.seed)) } else { None });
                    rep.count_n("commits", st.commits);
                    rep.count_n("failed-ops", st.failed_ops);
                    rep.count_n("layout-changes", st.layout_changes);
                    rep.count_n("revives", st.revives);
                    rep.count_n("tombstones", st.tombstones);
                    rep.count_n("batches", st.batches);
                    for (k, v) in &st.fail_reasons {
                        rep.count_n(&format!("failed-op:{k}"), *v);
                    }
                    if rep.samples.len() < 4 && h.ops.len() <= 25 {
                        rep.sample(json!({"history": h.to_json(), "commits": st.commits}));
                    }
                }
                Err(f) => {
                    rep.case(None);
                    if f.kind == "impl-vs-oracle" {
                        if !oracle_found || hazard {
                            report_failure(&mut env, &mut rep, &h, &f, &format!("random:{}:{i}", args.seed));
                        }
                        if !hazard {
                            oracle_found = true;
                        }
                    } else if model_reported < 3 {
                        model_reported += 1;
                        report_failure(&mut env, &mut rep, &h, &f, &format!("random:{}:{i}", args.seed));
                    } else {
                        rep.count("model-disagreements-not-shrunk");
                    }
                }
            }
            if oracle_found && rep.failures.iter().any(|f| f.kind == "impl-vs-oracle" && f.class == "unclassified") {
                break;
            }
        }
        rep.model_requests = env.drv.requests;
        rep.write(&args.out);
        println!("c03: {} cases, {} distinct non-trivial, {} failures", rep.evaluations, rep.nontrivial_keys.len(), rep.failures.len());
    });
}
