//! C28 — soft lock: correspondence of the real `CredSoftLock` (through `verif_hooks::c28`) with the
//! Lean model (`km_c28`), and oracles written from the property text.
//!
//! Streams (one report):
//!  * `grid`   exhaustive monotone event sequences (time step / time step with admin expiry / failure)
//!             over a time grid straddling a UTC midnight (= boundary of every TOTP step used), for
//!             every policy and every preloaded failure count next to a threshold of the table
//!  * `random` long random histories at real time scales (attempts, checks, admin expiry, raw
//!             failures, a minority with time going backwards — correspondence only for those)
//!  * `attack` greedy attacker schedules (every allowed attempt fails) over several windows: the
//!             per-UTC-day / per-TOTP-step budget is counted on the implementation
//!
//! Oracles (implementation only, never the model):
//!  O1 budget       protocol-following, no admin expiry: ≤ 100 recorded failures per UTC day (password),
//!                  ≤ 3 per TOTP step (totp)
//!  O2 until-unlock after a recorded failure the credential is refused at every later time ≤ its unlock_at
//!                  (no admin expiry in between)
//!  O2b no-shorten  a failure never makes the credential valid at a time *inside its own window* (UTC day /
//!                  TOTP step) at which it would have been refused without that failure (differential on
//!                  a clone; raw failures recorded while locked included)
//!  O3 resets       the count drops only at a time step strictly after the stored reset_at, or at a
//!                  step carrying an admin expiry; a success leaves exactly the state of a bare time step
use hlib::*;
use kanidmd_lib::verif_hooks::c28::{CredSoftLockPolicy, SoftLock};
use serde_json::json;
use std::time::Duration;

const NS: u128 = 1_000_000_000;
const DAY: u128 = 86_400 * NS;

#[derive(Clone, Debug, PartialEq)]
enum Op {
    Step(u128, Option<u128>),
    Fail(u128),
    Att(u128, Option<u128>, bool),
}

impl Op {
    fn time(&self) -> u128 {
        match self {
            Op::Step(t, _) | Op::Fail(t) | Op::Att(t, _, _) => *t,
        }
    }
    fn expire(&self) -> Option<u128> {
        match self {
            Op::Step(_, e) | Op::Att(_, e, _) => *e,
            Op::Fail(_) => None,
        }
    }
    fn line(&self) -> String {
        let o = |e: &Option<u128>| e.map(|x| x.to_string()).unwrap_or("-".into());
        match self {
            Op::Step(t, e) => format!("step {t} {}", o(e)),
            Op::Fail(t) => format!("fail {t}"),
            Op::Att(t, e, ok) => format!("att {t} {} {}", o(e), *ok as u8),
        }
    }
    fn parse(s: &str) -> Op {
        let t: Vec<&str> = s.split(' ').collect();
        let o = |x: &str| if x == "-" { None } else { Some(x.parse().unwrap()) };
        match t[0] {
            "step" => Op::Step(t[1].parse().unwrap(), o(t[2])),
            "fail" => Op::Fail(t[1].parse().unwrap()),
            "att" => Op::Att(t[1].parse().unwrap(), o(t[2]), t[3] == "1"),
            _ => panic!("bad op {s}"),
        }
    }
}

fn dur(ns: u128) -> Duration {
    Duration::new((ns / NS) as u64, (ns % NS) as u32)
}

fn policy_of(p: &str) -> CredSoftLockPolicy {
    match p {
        "pw" => CredSoftLockPolicy::Password,
        "wan" => CredSoftLockPolicy::Webauthn,
        "unr" => CredSoftLockPolicy::Unrestricted,
        _ => CredSoftLockPolicy::Totp(p.strip_prefix("totp:").expect("policy").parse().unwrap()),
    }
}

/// Window width in seconds the property speaks about, and the budget it states.
fn window_of(p: &str) -> Option<(u128, u64)> {
    match p {
        "pw" => Some((86_400, 100)),
        "wan" | "unr" => None,
        _ => Some((p.strip_prefix("totp:").unwrap().parse().unwrap(), 3)),
    }
}

/// Exact parse of `Duration`'s `Debug` output (`86400s`, `1.5s`, `500ms`, `1µs`, `0ns`) to nanoseconds.
fn parse_dur(s: &str) -> Result<u128, String> {
    let (num, unit) = if let Some(x) = s.strip_suffix("ns") {
        (x, 1u128)
    } else if let Some(x) = s.strip_suffix("µs") {
        (x, 1_000)
    } else if let Some(x) = s.strip_suffix("ms") {
        (x, 1_000_000)
    } else if let Some(x) = s.strip_suffix('s') {
        (x, NS)
    } else {
        return Err(format!("duration without unit: {s}"));
    };
    let (ip, fp) = num.split_once('.').unwrap_or((num, ""));
    let i: u128 = ip.parse().map_err(|_| format!("bad duration {s}"))?;
    let mut v = i * unit;
    if !fp.is_empty() {
        let scale = 10u128.pow(fp.len() as u32);
        let f: u128 = fp.parse().map_err(|_| format!("bad duration {s}"))?;
        if (f * unit) % scale != 0 {
            return Err(format!("inexact duration {s}"));
        }
        v += f * unit / scale;
    }
    Ok(v)
}

#[derive(Clone, Debug, PartialEq)]
enum St {
    Init,
    Locked { count: u128, reset_at: u128, unlock_at: u128 },
    Unlocked { count: u128, reset_at: u128 },
}

impl St {
    fn count(&self) -> u128 {
        match self {
            St::Init => 0,
            St::Locked { count, .. } | St::Unlocked { count, .. } => *count,
        }
    }
    fn reset_at(&self) -> Option<u128> {
        match self {
            St::Init => None,
            St::Locked { reset_at, .. } | St::Unlocked { reset_at, .. } => Some(*reset_at),
        }
    }
}

/// Read the state out of `{:?}` of the real lock:
/// `CredSoftLock { state: Locked { count: 1, reset_at: 86400s, unlock_at: 11s }, policy: Password, last_expire_at: 0ns }`
fn parse_debug(d: &str) -> Result<(St, u128), String> {
    let rest = d.strip_prefix("CredSoftLock { state: ").ok_or_else(|| format!("unexpected debug: {d}"))?;
    let (st_s, tail) = rest.split_once(", policy: ").ok_or_else(|| format!("unexpected debug: {d}"))?;
    let last = tail
        .split_once("last_expire_at: ")
        .and_then(|(_, x)| x.strip_suffix(" }"))
        .ok_or_else(|| format!("unexpected debug: {d}"))?;
    let last = parse_dur(last)?;
    let st = if st_s == "Init" {
        St::Init
    } else if let Some(x) = st_s.strip_prefix("Locked { count: ").and_then(|x| x.strip_suffix(" }")) {
        let p: Vec<&str> = x.split(", ").collect();
        if p.len() != 3 {
            return Err(format!("unexpected Locked: {st_s}"));
        }
        St::Locked {
            count: p[0].parse().map_err(|_| format!("bad count {st_s}"))?,
            reset_at: parse_dur(p[1].strip_prefix("reset_at: ").ok_or("reset_at")?)?,
            unlock_at: parse_dur(p[2].strip_prefix("unlock_at: ").ok_or("unlock_at")?)?,
        }
    } else if let Some(x) = st_s.strip_prefix("Unlocked(").and_then(|x| x.strip_suffix(')')) {
        let (c, r) = x.split_once(", ").ok_or_else(|| format!("unexpected Unlocked: {st_s}"))?;
        St::Unlocked { count: c.parse().map_err(|_| format!("bad count {st_s}"))?, reset_at: parse_dur(r)? }
    } else {
        return Err(format!("unexpected state: {st_s}"));
    };
    Ok((st, last))
}

fn state_line(l: &SoftLock) -> (String, St) {
    match parse_debug(&l.debug()) {
        Ok((st, last)) => {
            let s = match &st {
                St::Init => "init".to_string(),
                St::Locked { count, reset_at, unlock_at } => format!("locked:{count}:{reset_at}:{unlock_at}"),
                St::Unlocked { count, reset_at } => format!("unlocked:{count}:{reset_at}"),
            };
            (format!("{} {s} {last}", l.is_valid() as u8), st)
        }
        Err(e) => (format!("unparsable-debug {e}"), St::Init),
    }
}

/// The server's protocol around the lock (idm/server.rs Cred step, auth_with_unix_pass, reauth):
/// time step, is_valid, check only if valid, record_failure on denial, nothing on success.
fn impl_attempt(l: &mut SoftLock, t: u128, e: Option<u128>, ok: bool) -> &'static str {
    l.apply_time_step(dur(t), e.map(dur));
    if l.is_valid() {
        if ok {
            "success"
        } else {
            l.record_failure(dur(t));
            "failed"
        }
    } else {
        "refused"
    }
}

struct Case {
    stream: &'static str,
    policy: String,
    ops: Vec<Op>,
    /// the first `pre` ops only set the scene (correspondence is still compared; oracles start after)
    pre: usize,
}

struct Outcome {
    replies: Vec<String>,
    failures: Vec<Failure>,
    recorded: u64,
    kinds: u8, // bit set of state kinds seen after events
    refused: u64,
    resets: u64,
    boundary_early: bool,
}

fn case_json(c: &Case) -> serde_json::Value {
    json!({"stream": c.stream, "policy": c.policy, "ops": c.ops.iter().map(|o| o.line()).collect::<Vec<_>>()})
}

const K1: &str = "D18:reset-before-unlock-at-window-boundary";

/// Run the implementation on one case, evaluate all oracles, and return the reply lines to be
/// compared with the model.
fn run_impl(c: &Case) -> Outcome {
    let mut l = SoftLock::new(policy_of(&c.policy));
    let mut out = Outcome { replies: vec![], failures: vec![], recorded: 0, kinds: 0, refused: 0, resets: 0, boundary_early: false };
    let (first, _) = state_line(&l);
    out.replies.push(first);
    let monotone = c.ops.windows(2).all(|w| w[0].time() <= w[1].time());
    let protocol = !c.ops.iter().any(|o| matches!(o, Op::Fail(_)));
    let mut admin_seen = false; // any admin expiry so far in this history
    // O1
    let mut per_window: std::collections::BTreeMap<u128, u64> = Default::default();
    // O2: the unlock time of the last recorded failure, its time, valid while no admin expiry since
    let mut last_lock: Option<(u128, u128, u128)> = None; // (failure time, unlock_at, reset_at)
    let fail = |out: &mut Outcome, class: &str, expected: String, observed: String, at: usize| {
        out.failures.push(Failure {
            kind: "impl-vs-oracle".into(),
            class: class.into(),
            input: {
                let mut v = case_json(c);
                v["at_op"] = json!(at);
                v
            },
            expected,
            observed,
        });
    };
    let mut cur = St::Init;
    for (i, op) in c.ops.iter().enumerate() {
        let before = cur.clone();
        let pre = l.clone();
        if op.expire().is_some() {
            admin_seen = true;
            last_lock = None;
        }
        let mut head = String::new();
        let mut did_fail = false;
        match op {
            Op::Step(t, e) => l.apply_time_step(dur(*t), e.map(dur)),
            Op::Fail(t) => {
                l.record_failure(dur(*t));
                did_fail = true;
            }
            Op::Att(t, e, ok) => {
                let o = impl_attempt(&mut l, *t, *e, *ok);
                did_fail = o == "failed";
                if o == "refused" {
                    out.refused += 1;
                }
                if o == "success" {
                    // O3 (success never resets): exactly the state of a bare time step
                    let mut bare = pre.clone();
                    bare.apply_time_step(dur(*t), e.map(dur));
                    if bare.debug() != l.debug() {
                        fail(&mut out, "unclassified", format!("O3 success leaves the bare time-step state {}", bare.debug()), l.debug(), i);
                    }
                }
                head = format!("{o} ");
            }
        }
        let (line, after) = state_line(&l);
        cur = after.clone();
        out.replies.push(format!("{head}{line}"));
        out.kinds |= match after {
            St::Init => 1,
            St::Locked { .. } => 2,
            St::Unlocked { .. } => 4,
        };
        let t = op.time();
        if did_fail {
            out.recorded += 1;
        }
        if !monotone || i < c.pre {
            if did_fail && i < c.pre {
                if let (St::Locked { unlock_at, reset_at, .. }, true) = (&after, monotone) {
                    last_lock = Some((t, *unlock_at, *reset_at));
                }
                if let Some((w, _)) = window_of(&c.policy) {
                    *per_window.entry(t / NS / w).or_insert(0) += 1;
                }
            }
            continue;
        }
        // ---- O3: the count drops only strictly after reset_at, or by admin expiry
        let unrestricted = c.policy == "unr";
        if after.count() < before.count() && !unrestricted {
            out.resets += 1;
            let after_reset = before.reset_at().map(|r| t > r).unwrap_or(false);
            let is_step = !matches!(op, Op::Fail(_));
            if !(is_step && (after_reset || op.expire().is_some())) {
                fail(&mut out, "unclassified",
                    format!("O3 count {} may only drop at a time step after reset_at {:?} or with an admin expiry", before.count(), before.reset_at()),
                    format!("count {} after `{}`", after.count(), op.line()), i);
            }
        }
        // a recorded failure must raise the count (never reset it)
        if did_fail && !unrestricted {
            let base = if let Op::Att(t, e, _) = op {
                let mut bare = pre.clone();
                bare.apply_time_step(dur(*t), e.map(dur));
                parse_debug(&bare.debug()).map(|x| x.0.count()).unwrap_or(0)
            } else {
                before.count()
            };
            if after.count() != base + 1 {
                fail(&mut out, "unclassified", format!("O3 failure raises count {base} by one"), format!("count {}", after.count()), i);
            }
        }
        // ---- O2: refused until unlock time
        if !did_fail {
            if let Some((ft, unlock_at, reset_at)) = last_lock {
                if t >= ft && t <= unlock_at && l.is_valid() {
                    let class = if reset_at < unlock_at && t > reset_at { K1 } else { "unclassified" };
                    if class == K1 {
                        out.boundary_early = true;
                    }
                    fail(&mut out, class,
                        format!("O2 refused at every time <= unlock_at {unlock_at} after the failure at {ft}"),
                        format!("valid at {t} (reset_at {reset_at})"), i);
                    last_lock = None; // one report per lock
                }
            }
        }
        if did_fail {
            // ---- O2b: this failure must not shorten the refusal
            if !unrestricted {
                let mut probes = vec![t, t + 1, t + NS, t + NS + 1, t + 3 * NS + 1, t + 10 * NS + 1];
                if let St::Locked { unlock_at, reset_at, .. } = &before {
                    probes.extend([*unlock_at, *unlock_at + 1, *reset_at, *reset_at + 1]);
                }
                if let St::Locked { unlock_at, reset_at, .. } = &after {
                    probes.extend([*unlock_at, *unlock_at + 1, *reset_at, *reset_at + 1]);
                }
                // "in the same window": the statement is about times inside the failure's own
                // UTC day / TOTP step (for Webauthn: the 1 s the lock lasts)
                let wend = match window_of(&c.policy) {
                    Some((w, _)) => (t / NS / w + 1) * w * NS,
                    None => t + NS,
                };
                for p in probes {
                    if p < t || p > wend {
                        continue;
                    }
                    // baseline: the same history without this failure (for an attempt: after its own
                    // time step, which may carry an admin expiry)
                    let mut a = pre.clone();
                    if let Op::Att(t0, e0, _) = op {
                        a.apply_time_step(dur(*t0), e0.map(dur));
                    }
                    a.apply_time_step(dur(p), None);
                    let mut b = l.clone();
                    b.apply_time_step(dur(p), None);
                    if b.is_valid() && !a.is_valid() {
                        fail(&mut out, "unclassified",
                            format!("O2b refused at {p} without the failure at {t}, so refused with it"),
                            format!("valid at {p} after the failure"), i);
                        break;
                    }
                }
            }
            match &after {
                St::Locked { unlock_at, reset_at, .. } => {
                    // immediately refused
                    last_lock = Some((t, *unlock_at, *reset_at));
                    if *unlock_at <= t && !unrestricted {
                        fail(&mut out, "unclassified", format!("O2 unlock time after the failure time {t}"), format!("unlock_at {unlock_at}"), i);
                    }
                }
                _ => {
                    if !unrestricted {
                        fail(&mut out, "unclassified", "O2 refused right after a failure".into(), format!("{after:?}"), i);
                    }
                }
            }
            // ---- O1 bookkeeping
            if let Some((w, _)) = window_of(&c.policy) {
                *per_window.entry(t / NS / w).or_insert(0) += 1;
            }
        }
    }
    // ---- O1: budget (protocol-following, monotone, no admin intervention)
    if monotone && protocol && !admin_seen {
        if let Some((w, budget)) = window_of(&c.policy) {
            for (k, n) in &per_window {
                if *n > budget {
                    fail(&mut out, "unclassified",
                        format!("O1 at most {budget} recorded failures in window {k} of {w}s"),
                        format!("{n} failures"), c.ops.len());
                }
            }
        }
    }
    out
}

struct Ctx {
    drv: Driver,
    rep: Report,
    pending: Vec<Case>,
    pending_lines: usize,
}

impl Ctx {
    fn push(&mut self, c: Case) {
        self.pending_lines += c.ops.len() + 1;
        self.pending.push(c);
        if self.pending_lines >= 20_000 {
            self.flush();
        }
    }
    fn flush(&mut self) {
        let cases = std::mem::take(&mut self.pending);
        self.pending_lines = 0;
        let mut lines = vec![];
        for c in &cases {
            lines.push(format!("new {}", c.policy));
            lines.extend(c.ops.iter().map(|o| o.line()));
        }
        let replies = self.drv.ask_batch(&lines);
        let mut off = 0;
        for c in &cases {
            let n = c.ops.len() + 1;
            let model = &replies[off..off + n];
            off += n;
            let out = run_impl(c);
            self.rep.count(&format!("stream:{}", c.stream));
            self.rep.count(&format!("policy:{}", c.policy.split(':').next().unwrap()));
            self.rep.count_n("events", c.ops.len() as u64);
            self.rep.count_n("recorded-failures", out.recorded);
            self.rep.count_n("refused-attempts", out.refused);
            self.rep.count_n("count-resets", out.resets);
            if out.boundary_early {
                self.rep.count("boundary-early-unlock-cases");
            }
            // non-trivial: at least one failure was recorded and the lock was seen both refusing
            // and (again) accepting, or the history reached the capped row
            let nontrivial = out.recorded >= 1 && (out.kinds & 2 != 0) && (out.kinds & 5 != 0);
            let key = if nontrivial { Some(format!("{}|{}", c.policy, lines_key(&c.ops))) } else { None };
            self.rep.case(key);
            if self.rep.evaluations % 20011 == 1 {
                self.rep.sample(json!({"case": case_json(c), "impl": out.replies.iter().rev().take(3).collect::<Vec<_>>()}));
            }
            for f in out.failures {
                self.rep.fail(f);
            }
            if let Some(i) = (0..n).find(|i| model[*i] != out.replies[*i]) {
                self.rep.fail(Failure {
                    kind: "impl-vs-model".into(),
                    class: "unclassified".into(),
                    input: {
                        let mut v = case_json(c);
                        v["at_op"] = json!(i);
                        v
                    },
                    expected: model[i].clone(),
                    observed: out.replies[i].clone(),
                });
            }
        }
    }
}

fn lines_key(ops: &[Op]) -> String {
    // FNV-1a of the op lines: distinct histories, bounded memory
    let mut h: u64 = 0xcbf29ce484222325;
    for o in ops {
        for b in o.line().bytes().chain(std::iter::once(b'\n')) {
            h ^= b as u64;
            h = h.wrapping_mul(0x100000001b3);
        }
    }
    format!("{h:016x}")
}

/// `k` failures early in the day before `DAY`, so that the lock carries count `k`
/// (raw failures: counts accumulate whether or not the lock is open).
fn preload(k: u64) -> Vec<Op> {
    (0..k).map(|i| Op::Fail(DAY - 2000 * NS + (i as u128) * 11 * NS)).collect()
}

fn grid_stream(ctx: &mut Ctx, thorough: bool) {
    // times straddling UTC midnight `DAY` (a boundary of every TOTP step below as well)
    let grid: Vec<u128> = vec![
        DAY - 2 * NS,
        DAY - NS,
        DAY - 1,
        DAY,
        DAY + 1,
        DAY + NS,
        DAY + 2 * NS + 1,
        DAY + 10 * NS,
    ];
    let expiries = [DAY - NS, DAY + NS];
    let len = if thorough { 4 } else { 3 };
    let mut configs: Vec<(String, u64)> = vec![];
    for k in [0u64, 1, 2, 8, 24, 98, 99, 100] {
        configs.push(("pw".into(), k));
    }
    for step in [1u64, 2, 30] {
        for k in [0u64, 1, 2, 3] {
            configs.push((format!("totp:{step}"), k));
        }
    }
    configs.push(("wan".into(), 0));
    configs.push(("wan".into(), 5));
    configs.push(("unr".into(), 0));
    // alphabet at one grid time
    let alpha = |t: u128| -> Vec<Op> {
        let mut v = vec![Op::Step(t, None), Op::Fail(t)];
        for e in expiries {
            v.push(Op::Step(t, Some(e)));
        }
        v
    };
    let na = 4usize;
    let mut total = 0u64;
    for (policy, k) in &configs {
        let pre = preload(*k);
        // all nondecreasing index sequences of length 1..=len, all op choices
        for l in 1..=len {
            let mut idx = vec![0usize; l];
            loop {
                // op choices
                let mut ch = vec![0usize; l];
                loop {
                    let mut ops = pre.clone();
                    for j in 0..l {
                        ops.push(alpha(grid[idx[j]])[ch[j]].clone());
                    }
                    let npre = pre.len();
                    ctx.push(Case { stream: "grid", policy: policy.clone(), ops, pre: npre });
                    total += 1;
                    let mut j = 0;
                    while j < l {
                        ch[j] += 1;
                        if ch[j] < na {
                            break;
                        }
                        ch[j] = 0;
                        j += 1;
                    }
                    if j == l {
                        break;
                    }
                }
                // next nondecreasing idx
                let mut j = l;
                while j > 0 && idx[j - 1] == grid.len() - 1 {
                    j -= 1;
                }
                if j == 0 {
                    break;
                }
                let v = idx[j - 1] + 1;
                for x in idx.iter_mut().skip(j - 1) {
                    *x = v;
                }
            }
        }
    }
    ctx.flush();
    ctx.rep.exhaustive = true;
    ctx.rep.note(format!(
        "grid: exhaustive nondecreasing event sequences of length <= {len} over {} grid times x {{step, fail, step+expiry x{}}} for {} (policy, preloaded count) configurations: {total} histories",
        grid.len(), expiries.len(), configs.len()
    ));
}

fn random_policy(r: &mut Rng) -> String {
    match r.below(10) {
        0..=3 => "pw".into(),
        4..=6 => format!("totp:{}", r.pick(&[1u64, 30, 30, 60])),
        7..=8 => "wan".into(),
        _ => "unr".into(),
    }
}

fn random_case(seed: u64, i: u64) -> Case {
    let mut r = Rng::for_case(seed, i);
    let policy = random_policy(&mut r);
    let w = window_of(&policy).map(|x| x.0).unwrap_or(60) * NS;
    let n = r.range(20, 260);
    // start close below a window boundary, sometimes far from it
    let day0 = r.range(1, 20_000) as u128 * DAY;
    let mut t: u128 = match r.below(3) {
        0 => day0 - r.range(0, 40) as u128 * NS - r.below(2) as u128 * r.below(NS as u64) as u128,
        1 => day0 + r.below(86_400) as u128 * NS + r.below(NS as u64) as u128,
        _ => day0,
    };
    // profile: protocol-only attacker (most), mixed with admin, raw failures, non-monotone
    let profile = r.below(10);
    let mut ops = vec![];
    for _ in 0..n {
        let dt: u128 = match r.below(14) {
            0 => 0,
            1 => 1,
            2 => NS / 2,
            3 => NS - 1,
            4 => NS,
            5 => NS + 1,
            6 => 3 * NS + r.below(2) as u128,
            7 => 5 * NS + r.below(2) as u128,
            8 => 10 * NS + r.below(2) as u128,
            9 => r.below(120) as u128 * NS,
            10 => {
                // land next to the next window boundary
                let next = (t / w + 1) * w;
                let target = match r.below(4) {
                    0 => next - 1,
                    1 => next,
                    2 => next + 1,
                    _ => next - NS,
                };
                target.saturating_sub(t)
            }
            11 => r.below(3600) as u128 * NS + r.below(NS as u64) as u128,
            12 => r.below(1000) as u128 * 1_000_000,
            _ => {
                if r.chance(1, 6) {
                    DAY
                } else {
                    r.below(30) as u128 * NS
                }
            }
        };
        t += dt;
        let mut tt = t;
        if profile == 9 && r.chance(1, 8) {
            // time going backwards (correspondence only)
            tt = t.saturating_sub(r.below(20) as u128 * NS);
        }
        let expire = if profile >= 6 && profile <= 8 && r.chance(1, 5) {
            Some(match r.below(5) {
                0 => (tt / NS) * NS,
                1 => (tt / NS).saturating_sub(r.below(5) as u128) * NS,
                2 => (tt / NS + r.below(5) as u128) * NS,
                3 => (tt / w + 1) * w,
                _ => (tt / NS + r.below(100_000) as u128) * NS + r.below(2) as u128 * 500_000_000,
            })
        } else {
            None
        };
        let op = match r.below(12) {
            0..=6 => Op::Att(tt, expire, r.chance(1, 6)),
            7..=9 => Op::Step(tt, expire),
            _ => {
                if profile >= 8 {
                    Op::Fail(tt)
                } else {
                    Op::Att(tt, expire, false)
                }
            }
        };
        ops.push(op);
    }
    Case { stream: "random", policy, ops, pre: 0 }
}

/// Greedy attacker: tries every `delta` ns over `span` ns starting at `start`; every allowed try
/// fails, except that every `succ`-th allowed try (if `succ > 0`) succeeds.
fn attack_case(policy: &str, start: u128, delta: u128, span: u128, succ: u64) -> Case {
    let mut ops = vec![];
    let mut t = start;
    let mut n = 0u64;
    while t <= start + span {
        n += 1;
        let ok = succ > 0 && n % succ == 0;
        ops.push(Op::Att(t, None, ok));
        t += delta;
    }
    Case { stream: "attack", policy: policy.into(), ops, pre: 0 }
}

fn main() {
    let args = Args::parse();
    let mut ctx = Ctx {
        drv: Driver::spawn(&args.driver),
        rep: Report::new(
            "softlock",
            "grid: exhaustive monotone histories over 8 grid times straddling UTC midnight for every policy x preloaded count; \
             random: long histories at real scales; attack: greedy schedules over several windows. \
             non-trivial = at least one failure recorded and the lock observed both refusing (Locked) and open (Init/Unlocked); \
             distinct = distinct (policy, op lines)",
        ),
        pending: vec![],
        pending_lines: 0,
    };
    if let Some(path) = &args.replay {
        let v: serde_json::Value = serde_json::from_str(&std::fs::read_to_string(path).unwrap()).unwrap();
        let inp = &v["input"];
        if !inp["ops"].is_array() {
            // a replay of the other C28 stream (idm-lock): nothing to do here
            ctx.rep.write(&args.out);
            println!("c28 replay: not a softlock replay");
            return;
        }
        let ops = inp["ops"].as_array().unwrap().iter().map(|x| Op::parse(x.as_str().unwrap())).collect();
        ctx.push(Case { stream: "replay", policy: inp["policy"].as_str().unwrap().to_string(), ops, pre: 0 });
        ctx.flush();
        ctx.rep.write(&args.out);
        println!("c28 replay: {} failures", ctx.rep.failures.len());
        return;
    }
    // regression corpus first: every file is {"policy": .., "ops": [..]} and must pass
    let mut files: Vec<_> = std::fs::read_dir("corpus/C28")
        .map(|d| d.filter_map(|e| e.ok()).map(|e| e.path()).collect())
        .unwrap_or_default();
    files.sort();
    for f in files.iter().filter(|f| f.extension().map(|e| e == "json").unwrap_or(false)) {
        let v: serde_json::Value = serde_json::from_str(&std::fs::read_to_string(f).unwrap()).unwrap();
        let ops = v["ops"].as_array().unwrap().iter().map(|x| Op::parse(x.as_str().unwrap())).collect();
        ctx.push(Case { stream: "corpus", policy: v["policy"].as_str().unwrap().to_string(), ops, pre: 0 });
    }
    ctx.flush();
    grid_stream(&mut ctx, args.thorough());
    let nrand = args.cases(3_000, 60_000);
    for i in 0..nrand {
        ctx.push(random_case(args.seed, i));
    }
    ctx.flush();
    // attack schedules: password over 2.2 days at 1 s and coarser; TOTP over many steps
    let mut r = Rng::for_case(args.seed, u64::MAX - 28);
    let nattack = args.cases(6, 40);
    for i in 0..nattack {
        let day0 = r.range(1, 20_000) as u128 * DAY;
        let start = day0 - r.range(0, 3000) as u128 * NS - r.below(NS as u64) as u128 * (i % 2) as u128;
        let succ = *r.pick(&[0u64, 0, 7, 50]);
        let (policy, delta, span): (String, u128, u128) = match i % 4 {
            0 => ("pw".into(), NS, 2 * DAY + 4000 * NS),
            1 => ("pw".into(), *r.pick(&[NS / 2, NS + 1, 3 * NS, 10 * NS + 1, 30 * NS]), 2 * DAY + 4000 * NS),
            2 => (format!("totp:{}", r.pick(&[30u64, 60])), *r.pick(&[NS / 4, NS / 2, NS, NS + 1]), 1200 * NS),
            _ => (format!("totp:{}", r.pick(&[1u64, 2, 30])), *r.pick(&[NS / 10, NS / 3, NS]), 400 * NS),
        };
        ctx.push(attack_case(&policy, start, delta, span, succ));
        ctx.flush();
    }
    ctx.flush();
    ctx.rep.model_requests = ctx.drv.requests;
    ctx.rep.write(&args.out);
    println!("c28: {} cases, {} failures", ctx.rep.evaluations, ctx.rep.failures.len());
}
