//! C10 — correspondence + oracle for `ReplicationUpdateVector::range_diff`.
//!
//! Streams: exhaustive (all pairs of maps over ≤ N servers with windows over 0..4) and
//! random larger maps. For each pair: implementation (through the verif hook), Lean model
//! (`km_c10`), and an oracle written from the property text only.
use hlib::*;
use kanidmd_lib::verif_hooks::ruv::{range_diff, Ranges, Status};
use serde_json::json;
use std::collections::BTreeMap;
use std::time::Duration;

type M = BTreeMap<u64, (u64, u64)>;

fn to_ranges(m: &M) -> Ranges {
    m.iter()
        .map(|(k, (a, b))| (nat_uuid(*k), (Duration::from_secs(*a), Duration::from_secs(*b))))
        .collect()
}

fn show_map(m: &M) -> String {
    if m.is_empty() {
        "-".into()
    } else {
        m.iter().map(|(k, (a, b))| format!("{k}:{a}:{b}")).collect::<Vec<_>>().join(",")
    }
}

fn from_ranges(r: &Ranges) -> M {
    r.iter()
        .map(|(k, (a, b))| {
            let n = (k.as_u128() - nat_uuid(0).as_u128()) as u64;
            (n, (a.as_secs(), b.as_secs()))
        })
        .collect()
}

fn show_status(s: &Status) -> String {
    match s {
        Status::Ok(d) => format!("ok {}", show_map(&from_ranges(d))),
        Status::Refresh(l) => format!("refresh {}", show_map(&from_ranges(l))),
        Status::Unwilling(a) => format!("unwilling {}", show_map(&from_ranges(a))),
        Status::Critical(l, a) => format!(
            "critical {} {}",
            show_map(&from_ranges(l)),
            show_map(&from_ranges(a))
        ),
        Status::NoRuvOverlap => "nooverlap".into(),
    }
}

/// The property statement, and nothing else: decides the outcome kind, and for `ok` the
/// exact ranges. (Lag/advance report ranges are not part of the statement; they are
/// covered by the model correspondence.)
fn oracle(c: &M, s: &M) -> (String, Option<M>) {
    let shared: Vec<u64> = s.keys().filter(|k| c.contains_key(k)).cloned().collect();
    if shared.is_empty() {
        return ("nooverlap".into(), None);
    }
    let behind = shared.iter().any(|k| c[k].1 < s[k].0);
    let ahead = shared.iter().any(|k| s[k].1 < c[k].0);
    match (behind, ahead) {
        (true, true) => ("critical".into(), None),
        (true, false) => ("refresh".into(), None),
        (false, true) => ("unwilling".into(), None),
        (false, false) => {
            let mut d = M::new();
            for (k, (_, smax)) in s {
                match c.get(k) {
                    Some((_, cmax)) => {
                        if cmax < smax {
                            d.insert(*k, (*cmax, *smax));
                        }
                    }
                    None => {
                        d.insert(*k, (0, *smax));
                    }
                }
            }
            ("ok".into(), Some(d))
        }
    }
}

struct Ctx {
    drv: Driver,
    rep: Report,
    pending: Vec<(M, M)>,
}

impl Ctx {
    fn push(&mut self, c: M, s: M) {
        self.pending.push((c, s));
        if self.pending.len() >= 2000 {
            self.flush();
        }
    }
    fn flush(&mut self) {
        let cases = std::mem::take(&mut self.pending);
        let lines: Vec<String> =
            cases.iter().map(|(c, s)| format!("rd {} {}", show_map(c), show_map(s))).collect();
        let replies = self.drv.ask_batch(&lines);
        for (((c, s), line), model) in cases.iter().zip(lines.iter()).zip(replies.iter()) {
            let st = range_diff(&to_ranges(c), &to_ranges(s));
            let got = show_status(&st);
            let kind = got.split(' ').next().unwrap().to_string();
            self.rep.count(&format!("outcome:{kind}"));
            self.rep.count(&format!("servers:{}", c.len().max(s.len())));
            let shared = s.keys().filter(|k| c.contains_key(k)).count();
            let unseen = s.len() - shared;
            let nontrivial = shared >= 1 && (unseen >= 1 || shared >= 2 || kind != "ok");
            self.rep.case(if nontrivial { Some(line.clone()) } else { None });
            if self.rep.evaluations % 9973 == 1 {
                self.rep.sample(json!({"request": line, "impl": got, "model": model}));
            }
            // oracle (property itself)
            let (okind, oranges) = oracle(c, s);
            let oracle_ok = okind == kind
                && match (&oranges, &st) {
                    (Some(d), Status::Ok(got_d)) => *d == from_ranges(got_d),
                    (None, Status::Ok(_)) => false,
                    _ => true,
                };
            if !oracle_ok {
                self.rep.fail(Failure {
                    kind: "impl-vs-oracle".into(),
                    class: "unclassified".into(),
                    input: json!({"consumer": show_map(c), "supplier": show_map(s), "request": line}),
                    expected: format!("{okind} {}", oranges.map(|d| show_map(&d)).unwrap_or_default()),
                    observed: got.clone(),
                });
            }
            if *model != got {
                self.rep.fail(Failure {
                    kind: "impl-vs-model".into(),
                    class: "unclassified".into(),
                    input: json!({"consumer": show_map(c), "supplier": show_map(s), "request": line}),
                    expected: model.clone(),
                    observed: got,
                });
            }
        }
    }
}

/// All windows over 0..=tmax, plus "absent".
fn options(tmax: u64) -> Vec<Option<(u64, u64)>> {
    let mut v = vec![None];
    for a in 0..=tmax {
        for b in a..=tmax {
            v.push(Some((a, b)));
        }
    }
    v
}

fn main() {
    let args = Args::parse();
    let mut ctx = Ctx {
        drv: Driver::spawn(&args.driver),
        rep: Report::new(
            "range-diff",
            "exhaustive pairs of maps (each server absent or a window min<=max over 0..4) + random larger maps; \
             non-trivial = at least one shared server and (an unseen server, or two shared servers, or a non-ok outcome); \
             distinct = distinct request line",
        ),
        pending: vec![],
    };
    if let Some(path) = &args.replay {
        let v: serde_json::Value = serde_json::from_str(&std::fs::read_to_string(path).unwrap()).unwrap();
        let parse = |s: &str| -> M {
            if s == "-" { return M::new(); }
            s.split(',').map(|it| {
                let p: Vec<u64> = it.split(':').map(|x| x.parse().unwrap()).collect();
                (p[0], (p[1], p[2]))
            }).collect()
        };
        let inp = &v["input"];
        if inp.get("phase").is_some() {
            // a case of the supplier stream (bin c10sup): nothing to replay here
            ctx.rep.note("replay file belongs to the supplier stream: nothing to do");
            ctx.rep.write(&args.out);
            println!("c10: 0 cases (replay of another stream)");
            return;
        }
        ctx.push(parse(inp["consumer"].as_str().unwrap()), parse(inp["supplier"].as_str().unwrap()));
        ctx.flush();
        ctx.rep.write(&args.out);
        return;
    }
    // exhaustive part
    let nservers = if args.thorough() { 3 } else { 2 };
    let tmax = 4;
    let opts = options(tmax);
    let n = opts.len();
    let total = (n * n).pow(nservers as u32);
    // thorough/3 servers: 16^6 = 16.7M pairs; enumerate all.
    let mut idx = vec![0usize; 2 * nservers];
    'outer: loop {
        let mut c = M::new();
        let mut s = M::new();
        for sv in 0..nservers {
            if let Some(w) = opts[idx[2 * sv]] {
                c.insert(sv as u64 + 1, w);
            }
            if let Some(w) = opts[idx[2 * sv + 1]] {
                s.insert(sv as u64 + 1, w);
            }
        }
        ctx.push(c, s);
        let mut i = 0;
        loop {
            idx[i] += 1;
            if idx[i] < n {
                break;
            }
            idx[i] = 0;
            i += 1;
            if i == idx.len() {
                break 'outer;
            }
        }
    }
    ctx.flush();
    ctx.rep.exhaustive = true;
    ctx.rep.note(format!("exhaustive: {nservers} servers x windows over 0..{tmax}: {total} pairs"));
    // random larger maps
    let nrand = args.cases(20_000, 400_000);
    for i in 0..nrand {
        let mut r = Rng::for_case(args.seed, i);
        let ns = r.range(1, 8);
        let span = *r.pick(&[3u64, 6, 50, 1_000_000]);
        let mut c = M::new();
        let mut s = M::new();
        for sv in 1..=ns {
            for side in 0..2 {
                if r.chance(3, 4) {
                    let a = r.below(span + 1);
                    let b = a + r.below(span + 1 - a.min(span));
                    if side == 0 { c.insert(sv, (a, b)); } else { s.insert(sv, (a, b)); }
                }
            }
        }
        ctx.push(c, s);
    }
    ctx.flush();
    ctx.rep.model_requests = ctx.drv.requests;
    ctx.rep.write(&args.out);
    println!(
        "c10: {} cases, {} failures",
        ctx.rep.evaluations,
        ctx.rep.failures.len()
    );
}
