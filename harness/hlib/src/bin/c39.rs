//! C39 — OAuth2 tokens are redeemable only as issued. Stream `oauth2-token`.
//!
//! One fresh in-memory `IdmServer` per scenario (plain JSON, also the replay format):
//! 2–3 OAuth2 clients (basic with / without PKCE, public; custom refresh lifetimes; a scope map for
//! the persons' group and one for the clients' own group = client-credentials scopes), 2 persons
//! with stored login sessions (never expiring or expiring), an account validity window, and a list
//! of ops, each at `clock += dt_ns` or at an instant relative to the selected token's own expiry:
//!   authz       real `check_oauth2_authorisation` (+ permit) under a stored login session → a code
//!   xcode       token endpoint, grant authorization_code: any token as the code, any client
//!               authentication (basic header / post / wrong secret / none / other client), redirect
//!               URI same / other / mutated, verifier right / wrong / missing / unexpected
//!   xrefresh    grant refresh_token: fresh / already rotated / other client's / wrong-kind token,
//!               scopes absent / subset / equal / escalated
//!   xcc         grant client_credentials
//!   introspect / userinfo / revoke   any token, userinfo at any client
//!   sessrevoke / setexpire / setvalidfrom / touch   directory writes in between
//! Tokens are selected by kind and position at run time, tampered on request.
//!
//! Channels: every reply is canonicalised (tokens decoded: JWS payload, JWE through hook
//! `c38::decode_code`) and compared with the Lean model (`km_c39`) on the same line
//! (`impl-vs-model`); after every write the account's session maps are compared too.
//! The ORACLE (`impl-vs-oracle`) is written from the property text and judges every *acceptance*
//! of the implementation against the harness' own ledger of what was issued to whom (never the
//! model): see `Exec::oracle_*`.
use compact_jwt::JwsCompact;
use hlib::*;
use kanidm_proto::internal::{UatPurpose, UserAuthToken};
use kanidm_proto::oauth2::{
    AccessTokenIntrospectRequest, AccessTokenRequest, AccessTokenResponse, AuthorisationRequest, AuthorisationRequestOidc, ClientPostAuth,
    CodeChallengeMethod, GrantTypeReq, PkceRequest, ResponseType, TokenRevokeRequest,
};
use kanidmd_lib::entry::{Entry, EntryInit, EntryNew};
use kanidmd_lib::idm::authentication::ClientAuthInfo;
use kanidmd_lib::idm::oauth2::{AuthorisationRequestContext, AuthoriseResponse, Oauth2Error};
use kanidmd_lib::idm::server::{IdmServer, IdmServerTransaction};
use kanidmd_lib::prelude::*;
use kanidmd_lib::testkit::{setup_idm_test, TestConfiguration};
use kanidmd_lib::value::{AuthType, Session, SessionExtMetadata, SessionScope, SessionState};
use kanidmd_lib::verif_hooks::c27::cred_password;
use kanidmd_lib::verif_hooks::c38::decode_code;
use serde_json::{json, Value as Json};
use std::collections::{BTreeMap, BTreeSet};
use std::str::FromStr;
use std::time::Duration;
use url::Url;

const NS: u128 = 1_000_000_000;
/// 2033-05-18: far ahead of the wall clock (key objects are created at the real `now`).
const T0_S: u64 = 2_000_000_000;
const T0: u128 = T0_S as u128 * NS;
/// Lifetimes as the oracle knows them (RFC/kanidm documentation values; not read from the source).
const ORACLE_ACCESS_S: i64 = 900;

fn dur(ns: u128) -> Duration {
    Duration::new((ns / NS) as u64, (ns % NS) as u32)
}
fn odt(ns: u128) -> time::OffsetDateTime {
    time::OffsetDateTime::UNIX_EPOCH + dur(ns)
}
fn odt_ns(t: time::OffsetDateTime) -> u128 {
    t.unix_timestamp_nanos() as u128
}
fn hexs(s: &str) -> String {
    if s.is_empty() {
        "-".into()
    } else {
        s.bytes().map(|b| format!("{b:02x}")).collect()
    }
}
fn user_uuid(i: u64) -> Uuid {
    nat_uuid(0xC39_200 + i)
}
fn uat_uuid(u: u64, j: u64) -> Uuid {
    nat_uuid(0xC39_300 + 16 * u + j)
}
fn client_uuid(i: u64) -> Uuid {
    nat_uuid(0xC39_400 + i)
}
fn group_persons() -> Uuid {
    nat_uuid(0xC39_100)
}
fn group_clients() -> Uuid {
    nat_uuid(0xC39_101)
}

// ---- base64 ------------------------------------------------------------------------------------
const B64URL: &[u8; 64] = b"ABCDEFGHIJKLMNOPQRSTUVWXYZabcdefghijklmnopqrstuvwxyz0123456789-_";
const B64STD: &[u8; 64] = b"ABCDEFGHIJKLMNOPQRSTUVWXYZabcdefghijklmnopqrstuvwxyz0123456789+/";
fn b64_dec(s: &str) -> Option<Vec<u8>> {
    let mut out = vec![];
    let (mut acc, mut bits) = (0u32, 0u32);
    for c in s.bytes() {
        if c == b'=' {
            continue;
        }
        let v = B64URL.iter().position(|b| *b == c)? as u32;
        acc = (acc << 6) | v;
        bits += 6;
        if bits >= 8 {
            bits -= 8;
            out.push((acc >> bits) as u8);
            acc &= (1 << bits) - 1;
        }
    }
    Some(out)
}
fn b64std_enc(data: &[u8]) -> String {
    let mut out = String::new();
    for ch in data.chunks(3) {
        let b = [ch[0], *ch.get(1).unwrap_or(&0), *ch.get(2).unwrap_or(&0)];
        let n = ((b[0] as u32) << 16) | ((b[1] as u32) << 8) | b[2] as u32;
        out.push(B64STD[(n >> 18) as usize & 63] as char);
        out.push(B64STD[(n >> 12) as usize & 63] as char);
        out.push(if ch.len() > 1 { B64STD[(n >> 6) as usize & 63] as char } else { '=' });
        out.push(if ch.len() > 2 { B64STD[n as usize & 63] as char } else { '=' });
    }
    out
}
fn jws_payload(jws: &str) -> Option<Json> {
    let parts: Vec<&str> = jws.split('.').collect();
    if parts.len() != 3 {
        return None;
    }
    serde_json::from_slice(&b64_dec(parts[1])?).ok()
}

// ---- the oracle's own SHA-256 (FIPS 180-4), so that "a verifier hashing to it" is judged
// independently of `PkceS256Secret::verify` -------------------------------------------------------
fn sha256(msg: &[u8]) -> [u8; 32] {
    const K: [u32; 64] = [
        0x428a2f98, 0x71374491, 0xb5c0fbcf, 0xe9b5dba5, 0x3956c25b, 0x59f111f1, 0x923f82a4, 0xab1c5ed5, 0xd807aa98, 0x12835b01, 0x243185be, 0x550c7dc3,
        0x72be5d74, 0x80deb1fe, 0x9bdc06a7, 0xc19bf174, 0xe49b69c1, 0xefbe4786, 0x0fc19dc6, 0x240ca1cc, 0x2de92c6f, 0x4a7484aa, 0x5cb0a9dc, 0x76f988da,
        0x983e5152, 0xa831c66d, 0xb00327c8, 0xbf597fc7, 0xc6e00bf3, 0xd5a79147, 0x06ca6351, 0x14292967, 0x27b70a85, 0x2e1b2138, 0x4d2c6dfc, 0x53380d13,
        0x650a7354, 0x766a0abb, 0x81c2c92e, 0x92722c85, 0xa2bfe8a1, 0xa81a664b, 0xc24b8b70, 0xc76c51a3, 0xd192e819, 0xd6990624, 0xf40e3585, 0x106aa070,
        0x19a4c116, 0x1e376c08, 0x2748774c, 0x34b0bcb5, 0x391c0cb3, 0x4ed8aa4a, 0x5b9cca4f, 0x682e6ff3, 0x748f82ee, 0x78a5636f, 0x84c87814, 0x8cc70208,
        0x90befffa, 0xa4506ceb, 0xbef9a3f7, 0xc67178f2,
    ];
    let mut h: [u32; 8] = [0x6a09e667, 0xbb67ae85, 0x3c6ef372, 0xa54ff53a, 0x510e527f, 0x9b05688c, 0x1f83d9ab, 0x5be0cd19];
    let mut m = msg.to_vec();
    let bitlen = (msg.len() as u64) * 8;
    m.push(0x80);
    while m.len() % 64 != 56 {
        m.push(0);
    }
    m.extend_from_slice(&bitlen.to_be_bytes());
    for block in m.chunks(64) {
        let mut w = [0u32; 64];
        for i in 0..16 {
            w[i] = u32::from_be_bytes([block[4 * i], block[4 * i + 1], block[4 * i + 2], block[4 * i + 3]]);
        }
        for i in 16..64 {
            let s0 = w[i - 15].rotate_right(7) ^ w[i - 15].rotate_right(18) ^ (w[i - 15] >> 3);
            let s1 = w[i - 2].rotate_right(17) ^ w[i - 2].rotate_right(19) ^ (w[i - 2] >> 10);
            w[i] = w[i - 16].wrapping_add(s0).wrapping_add(w[i - 7]).wrapping_add(s1);
        }
        let mut v = h;
        for i in 0..64 {
            let s1 = v[4].rotate_right(6) ^ v[4].rotate_right(11) ^ v[4].rotate_right(25);
            let ch = (v[4] & v[5]) ^ (!v[4] & v[6]);
            let t1 = v[7].wrapping_add(s1).wrapping_add(ch).wrapping_add(K[i]).wrapping_add(w[i]);
            let s0 = v[0].rotate_right(2) ^ v[0].rotate_right(13) ^ v[0].rotate_right(22);
            let maj = (v[0] & v[1]) ^ (v[0] & v[2]) ^ (v[1] & v[2]);
            let t2 = s0.wrapping_add(maj);
            v = [t1.wrapping_add(t2), v[0], v[1], v[2], v[3].wrapping_add(t1), v[4], v[5], v[6]];
        }
        for i in 0..8 {
            h[i] = h[i].wrapping_add(v[i]);
        }
    }
    let mut out = [0u8; 32];
    for i in 0..8 {
        out[4 * i..4 * i + 4].copy_from_slice(&h[i].to_be_bytes());
    }
    out
}

// ---- atoms -------------------------------------------------------------------------------------
#[derive(Default)]
struct Atoms {
    urls: BTreeMap<String, u64>,
    scopes: BTreeMap<String, u64>,
    strs: BTreeMap<String, u64>,
    chals: BTreeMap<Vec<u8>, u64>,
    dynamic: BTreeMap<Uuid, u64>,
}
impl Atoms {
    fn new() -> Atoms {
        let mut a = Atoms::default();
        a.scopes.insert("openid".into(), 0);
        a
    }
    fn url(&mut self, s: &str) -> u64 {
        let n = self.urls.len() as u64 + 1;
        *self.urls.entry(s.to_string()).or_insert(n)
    }
    fn scope(&mut self, s: &str) -> u64 {
        let n = self.scopes.len() as u64;
        *self.scopes.entry(s.to_string()).or_insert(n)
    }
    fn st(&mut self, s: &str) -> u64 {
        let n = self.strs.len() as u64 + 1;
        *self.strs.entry(s.to_string()).or_insert(n)
    }
    fn chal(&mut self, c: &[u8]) -> u64 {
        let n = self.chals.len() as u64 + 1;
        *self.chals.entry(c.to_vec()).or_insert(n)
    }
    /// users 0x200.., login sessions 0x300.., clients 0x400.., everything else (the random OAuth2
    /// session ids) 1000, 1001, … in order of first appearance — the model's fresh-id counter.
    fn uuid(&mut self, u: Uuid) -> u64 {
        let base = nat_uuid(0).as_u128();
        let x = u.as_u128();
        if x >= base + 0xC39_100 && x < base + 0xC39_500 {
            return (x - base - 0xC39_000) as u64;
        }
        let n = self.dynamic.len() as u64;
        *self.dynamic.entry(u).or_insert(1000 + n)
    }
    fn scope_set<'a>(&mut self, it: impl Iterator<Item = &'a String>) -> String {
        let v: BTreeSet<u64> = it.map(|s| self.scope(s)).collect();
        show_set(&v)
    }
}
fn show_set(v: &BTreeSet<u64>) -> String {
    if v.is_empty() {
        "-".into()
    } else {
        v.iter().map(|x| x.to_string()).collect::<Vec<_>>().join(",")
    }
}
fn opt_s<T: ToString>(o: Option<T>) -> String {
    o.map(|x| x.to_string()).unwrap_or("-".into())
}
fn str_set(v: &Json) -> BTreeSet<String> {
    v.as_array().map(|a| a.iter().filter_map(|s| s.as_str().map(|s| s.to_string())).collect()).unwrap_or_default()
}
fn oerr(e: &Oauth2Error) -> String {
    match e {
        Oauth2Error::ServerError(_) => "ServerError".to_string(),
        o => format!("{o:?}").split('(').next().unwrap_or("?").to_string(),
    }
}

// ---- world -------------------------------------------------------------------------------------
#[derive(Clone)]
struct ClientLive {
    uuid: Uuid,
    name: String,
    basic: bool,
    secret: Option<String>,
    requires_pkce: bool,
    uris: Vec<String>,
}

/// One token string the harness holds, with what the ORACLE knows about it: who it was issued to
/// and on which terms — recorded from the issuing request and the implementation's own output at
/// issue time, never from the model.
#[derive(Clone)]
struct Tok {
    real: String,
    kind: &'static str, // code | access | refresh | caccess | idtoken | garbage
    model: Option<u64>,
    client: Option<usize>,
    account: Option<Uuid>,
    /// the OAuth2 session (family) of an access / refresh token; `None` for a code
    sid: Option<Uuid>,
    /// the login session: authorising session of a code, parent of a token
    parent: Option<Uuid>,
    scopes: BTreeSet<String>,
    root_scopes: BTreeSet<String>,
    iat_s: i64,
    exp_s: i64,
    uri: Option<String>,
    challenge: Option<Vec<u8>>,
    redeemed: u32,
    /// second of the first successful redemption
    redeemed_at_s: i64,
}

#[derive(Clone, Default)]
struct Fam {
    /// revoked through the revocation endpoint (ledger)
    revoked: bool,
    /// an already rotated refresh token of this family was presented again by its client while
    /// otherwise valid: the property says the session is revoked from then on
    replayed: bool,
    /// expiry second of the newest refresh token of the family = the session's own lifetime
    sess_exp_s: i64,
    /// the replay that set `replayed` was of a token rotated inside its own issue second (finding F1)
    f1: bool,
}

#[derive(Clone)]
struct SessL {
    exp: Option<u128>,
    revoked: bool,
}
#[derive(Clone)]
struct UserL {
    valid_from: Option<u128>,
    expire: Option<u128>,
    sessions: Vec<SessL>,
}

struct World {
    idms: IdmServer,
    atoms: Atoms,
    clients: Vec<ClientLive>,
    users: Vec<UserL>,
    toks: Vec<Tok>,
    fams: BTreeMap<Uuid, Fam>,
    clock: u128,
    verifiers: Vec<String>,
}

fn cred_uuid(c: &kanidmd_lib::credential::Credential) -> Uuid {
    let v = serde_json::to_value(c.to_db_valuev1()).expect("credential json");
    Uuid::from_str(v["uuid"].as_str().expect("credential uuid")).expect("uuid")
}

fn rel_ns(v: &Json) -> Option<u128> {
    v.as_i64().map(|s| (T0 as i128 + s as i128 * NS as i128) as u128)
}

impl World {
    /// Boot, create the fixtures, and return the model's setup lines.
    async fn new(sc: &Json) -> (World, Vec<String>) {
        let (idms, _delayed, _audit) = setup_idm_test(TestConfiguration::default()).await;
        let mut atoms = Atoms::new();
        let mut lines = vec![];
        let mut wr = idms.proxy_write(dur(T0 - 86_400 * NS)).await.unwrap();
        let mut es: Vec<Entry<EntryInit, EntryNew>> = vec![];
        let mut users = vec![];
        let mut creds = vec![];
        let nusers = sc["users"].as_array().unwrap().len() as u64;
        for (i, us) in sc["users"].as_array().unwrap().iter().enumerate() {
            let i = i as u64;
            let name = format!("c39user{i}");
            let mut e: Entry<EntryInit, EntryNew> = Entry::new();
            e.add_ava(Attribute::Class, EntryClass::Object.to_value());
            e.add_ava(Attribute::Class, EntryClass::Account.to_value());
            e.add_ava(Attribute::Class, EntryClass::Person.to_value());
            e.add_ava(Attribute::Name, Value::new_iname(&name));
            e.add_ava(Attribute::Uuid, Value::Uuid(user_uuid(i)));
            e.add_ava(Attribute::Description, Value::new_utf8s(&name));
            e.add_ava(Attribute::DisplayName, Value::new_utf8s(&name));
            let cred = cred_password("eicieY7ahchaoCh0eeTa-c39", false).unwrap();
            let cid = cred_uuid(&cred);
            creds.push(cid);
            e.add_ava(Attribute::PrimaryCredential, Value::new_credential("primary", cred));
            let vf = rel_ns(&us["valid_from"]);
            let ex = rel_ns(&us["expire"]);
            if let Some(t) = vf {
                e.add_ava(Attribute::AccountValidFrom, Value::new_datetime_epoch(dur(t)));
            }
            if let Some(t) = ex {
                e.add_ava(Attribute::AccountExpire, Value::new_datetime_epoch(dur(t)));
            }
            let mut sl = vec![];
            for (j, s) in us["sessions"].as_array().unwrap().iter().enumerate() {
                let exp = rel_ns(&s["exp"]);
                let sess = Session {
                    label: format!("s{j}"),
                    state: match exp {
                        Some(t) => SessionState::ExpiresAt(odt(t)),
                        None => SessionState::NeverExpires,
                    },
                    issued_at: odt(T0),
                    issued_by: IdentityId::User(user_uuid(i)),
                    cred_id: cid,
                    scope: SessionScope::ReadWrite,
                    type_: AuthType::Password,
                    ext_metadata: SessionExtMetadata::None,
                };
                e.add_ava(Attribute::UserAuthTokenSession, Value::Session(uat_uuid(i, j as u64), sess));
                sl.push(SessL { exp, revoked: false });
            }
            users.push(UserL { valid_from: vf, expire: ex, sessions: sl });
            es.push(e);
        }
        let mut g: Entry<EntryInit, EntryNew> = Entry::new();
        g.add_ava(Attribute::Class, EntryClass::Object.to_value());
        g.add_ava(Attribute::Class, EntryClass::Group.to_value());
        g.add_ava(Attribute::Name, Value::new_iname("c39persons"));
        g.add_ava(Attribute::Uuid, Value::Uuid(group_persons()));
        g.add_ava(Attribute::Description, Value::new_utf8s("c39persons"));
        for i in 0..nusers {
            g.add_ava(Attribute::Member, Value::Refer(user_uuid(i)));
        }
        es.push(g);
        let mut gc: Entry<EntryInit, EntryNew> = Entry::new();
        gc.add_ava(Attribute::Class, EntryClass::Object.to_value());
        gc.add_ava(Attribute::Class, EntryClass::Group.to_value());
        gc.add_ava(Attribute::Name, Value::new_iname("c39clients"));
        gc.add_ava(Attribute::Uuid, Value::Uuid(group_clients()));
        gc.add_ava(Attribute::Description, Value::new_utf8s("c39clients"));
        let specs = sc["clients"].as_array().unwrap().clone();
        for k in 0..specs.len() as u64 {
            gc.add_ava(Attribute::Member, Value::Refer(client_uuid(k)));
        }
        es.push(gc);
        for (k, spec) in specs.iter().enumerate() {
            let name = spec["name"].as_str().unwrap();
            let basic = spec["basic"].as_bool().unwrap();
            let mut e: Entry<EntryInit, EntryNew> = Entry::new();
            e.add_ava(Attribute::Class, EntryClass::Object.to_value());
            e.add_ava(Attribute::Class, EntryClass::Account.to_value());
            e.add_ava(Attribute::Class, EntryClass::OAuth2ResourceServer.to_value());
            e.add_ava(
                Attribute::Class,
                if basic { EntryClass::OAuth2ResourceServerBasic.to_value() } else { EntryClass::OAuth2ResourceServerPublic.to_value() },
            );
            e.add_ava(Attribute::Uuid, Value::Uuid(client_uuid(k as u64)));
            e.add_ava(Attribute::Name, Value::new_iname(name));
            e.add_ava(Attribute::DisplayName, Value::new_utf8s(name));
            let uris: Vec<String> = spec["uris"].as_array().unwrap().iter().map(|u| u.as_str().unwrap().to_string()).collect();
            e.add_ava(Attribute::OAuth2RsOriginLanding, Value::new_url_s(&uris[0]).expect("landing"));
            for u in &uris {
                e.add_ava(Attribute::OAuth2RsOrigin, Value::new_url_s(u).expect("uri"));
            }
            let mut add_map = |attr: Attribute, g: Uuid, key: &str| {
                let ss = str_set(&spec[key]);
                if !ss.is_empty() {
                    e.add_ava(attr, Value::new_oauthscopemap(g, ss).expect("scope map"));
                }
            };
            add_map(Attribute::OAuth2RsScopeMap, group_persons(), "scopes");
            add_map(Attribute::OAuth2RsSupScopeMap, group_persons(), "sup");
            add_map(Attribute::OAuth2RsScopeMap, group_clients(), "cc_scopes");
            add_map(Attribute::OAuth2RsSupScopeMap, group_clients(), "cc_sup");
            if basic {
                if let Some(b) = spec["disable_pkce"].as_bool() {
                    e.add_ava(Attribute::OAuth2AllowInsecureClientDisablePkce, Value::new_bool(b));
                }
                e.add_ava(Attribute::OAuth2ConsentPromptEnable, Value::new_bool(false));
            }
            if let Some(x) = spec["refresh_expiry"].as_u64() {
                e.add_ava(Attribute::OAuth2RefreshTokenExpiry, Value::new_uint32(x as u32));
            }
            es.push(e);
        }
        wr.qs_write.internal_create(es).expect("create fixtures");
        let mut clients = vec![];
        for (k, spec) in specs.iter().enumerate() {
            let basic = spec["basic"].as_bool().unwrap();
            let e = wr.qs_write.internal_search_uuid(client_uuid(k as u64)).expect("client entry");
            let secret = if basic { Some(e.get_ava_single_secret(Attribute::OAuth2RsBasicSecret).expect("secret").to_string()) } else { None };
            let requires_pkce = !basic || spec["disable_pkce"].as_bool() != Some(true);
            let uris = spec["uris"].as_array().unwrap().iter().map(|u| Url::parse(u.as_str().unwrap()).unwrap().to_string()).collect();
            clients.push(ClientLive { uuid: client_uuid(k as u64), name: spec["name"].as_str().unwrap().to_string(), basic, secret, requires_pkce, uris });
        }
        wr.commit().expect("commit fixtures");
        // ---- the model's picture of the same fixtures
        for (k, c) in clients.iter().enumerate() {
            let spec = &specs[k];
            // the reload computes client scopes from the scope maps of groups the client is in
            let cc = str_set(&spec["cc_scopes"]);
            let ccs = str_set(&spec["cc_sup"]);
            lines.push(format!(
                "client {} {} {} {} {} {} {}",
                hexs(&c.name),
                atoms.uuid(c.uuid),
                if c.basic { format!("b:{}", (spec["disable_pkce"].as_bool() != Some(true)) as u8) } else { "p".to_string() },
                c.secret.as_ref().map(|s| atoms.st(s)).unwrap_or(0),
                spec["refresh_expiry"].as_u64().unwrap_or(16 * 3600),
                atoms.scope_set(cc.iter()),
                atoms.scope_set(ccs.iter()),
            ));
        }
        for (i, u) in users.iter().enumerate() {
            let i = i as u64;
            lines.push(format!("account {} {} {} {}", atoms.uuid(user_uuid(i)), opt_s(u.valid_from), opt_s(u.expire), 500 + i));
            for (j, s) in u.sessions.iter().enumerate() {
                lines.push(format!("uat {} {} {} {} {}", atoms.uuid(user_uuid(i)), atoms.uuid(uat_uuid(i, j as u64)), 500 + i, opt_s(s.exp), T0));
            }
        }
        let verifiers = (0..4).map(|i| format!("c39-verifier-{i}-0123456789abcdefghijklmnopqrstuvwxyz-ABCDEF")).collect();
        (World { idms, atoms, clients, users, toks: vec![], fams: BTreeMap::new(), clock: T0 + 10 * NS, verifiers }, lines)
    }
}

// ---- execution ---------------------------------------------------------------------------------
struct Exec<'a> {
    w: World,
    drv: Option<&'a mut Driver>,
    rep: &'a mut Report,
    model_fail: usize,
    oracle_fail: Vec<Failure>,
    scenario: Json,
    op_index: usize,
    trace: bool,
}

/// Recogniser of the recorded findings: the oracle's verdict (what the statement demands and the
/// witness violates) mapped to a stable class. Everything else is `C39:<verdict>`.
///  F1  a refresh token rotated inside the second it was issued in is redeemable once more
///  F2  the code exchange does not test the authorising login session's expiry
///  F3  refresh / introspection / userinfo do not test the parent login session's expiry
///  F4  introspection / userinfo do not test the OAuth2 session's own expiry
fn finding_class(verdict: &str) -> String {
    match verdict {
        "refresh-replay-same-second" | "session-alive-after-same-second-replay" => "C39-F1:refresh-replay-same-second".into(),
        "code-exchange:login-session-expired" => "C39-F2:code-exchange-login-session-expired".into(),
        "refresh:login-session-expired" | "introspect:login-session-expired" | "userinfo:login-session-expired" => "C39-F3:login-session-expired-not-enforced".into(),
        "introspect:session-expired" | "userinfo:session-expired" | "refresh:session-expired" => "C39-F4:oauth2-session-expired-not-enforced".into(),
        v => format!("C39:{v}"),
    }
}
fn prefixed(what: &str, class: &str) -> String {
    if class.starts_with("session-alive-after") {
        class.to_string()
    } else {
        format!("{what}:{class}")
    }
}
fn is_finding(class: &str) -> bool {
    class.starts_with("C39-F")
}

/// What a client-authentication spec of an op turns into.
struct Auth {
    cai: ClientAuthInfo,
    post: ClientPostAuth,
    model: String,
    /// index of the client the presenter names (lower-cased), if any
    client: Option<usize>,
    /// the presenter proved to be that client: right secret for a basic client (a public client
    /// cannot prove anything)
    secret_ok: bool,
}

impl<'a> Exec<'a> {
    fn input(&self) -> Json {
        let mut sc = self.scenario.clone();
        let ops: Vec<Json> = sc["ops"].as_array().unwrap()[..=self.op_index].to_vec();
        sc["ops"] = Json::Array(ops);
        sc
    }
    fn oracle(&mut self, class: &str, expected: String, observed: String) {
        let f = Failure { kind: "impl-vs-oracle".into(), class: finding_class(class), input: self.input(), expected, observed };
        self.rep.count(&format!("oracle:{}", f.class));
        self.oracle_fail.push(f);
    }
    fn model_diff(&mut self, line: &str, model: &str, imp: &str) {
        self.rep.count("model-disagreement");
        if self.model_fail < 5 {
            self.model_fail += 1;
            let mut input = self.input();
            input["line"] = json!(line);
            self.rep.fail(Failure { kind: "impl-vs-model".into(), class: "unclassified".into(), input, expected: model.to_string(), observed: imp.to_string() });
        }
    }
    fn ask(&mut self, line: &str) -> Option<String> {
        let r = self.drv.as_mut().map(|d| d.ask(line));
        if self.trace {
            eprintln!("  > {line}\n  < {}", r.clone().unwrap_or("(no model)".into()));
        }
        r
    }
    /// Compare a reply; `None` model (no driver / token unknown to the model) compares nothing.
    fn cmp(&mut self, line: &str, model: Option<String>, imp: &str) {
        if self.trace {
            eprintln!("  impl: {imp}");
        }
        if let Some(m) = model {
            if m != imp {
                self.model_diff(line, &m, imp);
            }
        }
    }

    fn advance(&mut self, op: &Json, tok: Option<usize>) -> u128 {
        self.w.clock += op["dt_ns"].as_u64().unwrap_or(NS as u64) as u128;
        if let (Some(at), Some(t)) = (op.get("at").filter(|a| a.is_object()), tok) {
            let t = &self.w.toks[t];
            let base: Option<i128> = match at["rel"].as_str().unwrap_or("") {
                "exp" => Some(t.exp_s as i128 * NS as i128),
                "grace" => Some((t.iat_s as i128 + 300) * NS as i128),
                "iat" => Some(t.iat_s as i128 * NS as i128),
                "sess_exp" => t.parent.and_then(|p| self.sess_of(p)).and_then(|(u, j)| self.w.users[u].sessions[j].exp).map(|x| x as i128),
                "acct_expire" => t.account.and_then(|a| self.user_of(a)).and_then(|u| self.w.users[u].expire).map(|x| x as i128),
                _ => None,
            };
            if let Some(b) = base {
                let target = b + at["delta_ns"].as_i64().unwrap_or(0) as i128;
                if target > self.w.clock as i128 {
                    self.w.clock = target as u128;
                }
            }
        }
        self.w.clock
    }
    fn user_of(&self, a: Uuid) -> Option<usize> {
        (0..self.w.users.len()).find(|i| user_uuid(*i as u64) == a)
    }
    fn sess_of(&self, s: Uuid) -> Option<(usize, usize)> {
        for u in 0..self.w.users.len() {
            for j in 0..self.w.users[u].sessions.len() {
                if uat_uuid(u as u64, j as u64) == s {
                    return Some((u, j));
                }
            }
        }
        None
    }

    /// Resolve a token selector at run time. `garbage` and tampered selections register a new
    /// undecodable token (with the model too).
    fn select(&mut self, sel: &Json) -> Option<usize> {
        let kind = sel["kind"].as_str().unwrap_or("any");
        let nth = sel["nth"].as_u64().unwrap_or(0) as usize;
        let pool: Vec<usize> = (0..self.w.toks.len())
            .filter(|i| {
                let t = &self.w.toks[*i];
                match kind {
                    "any" => t.kind != "garbage",
                    "code_fresh" => t.kind == "code" && t.redeemed == 0,
                    "code_used" => t.kind == "code" && t.redeemed > 0,
                    "refresh_fresh" => t.kind == "refresh" && t.redeemed == 0,
                    "refresh_rotated" => t.kind == "refresh" && t.redeemed > 0,
                    k => t.kind == k,
                }
            })
            .collect();
        let base = if kind == "garbage" {
            None
        } else if pool.is_empty() {
            return None;
        } else {
            // newest first
            Some(pool[pool.len() - 1 - nth % pool.len()])
        };
        let mutation = sel["mut"].as_str();
        if base.is_some() && mutation.is_none() {
            return base;
        }
        let real = match (base, mutation) {
            (Some(b), Some("trunc")) => {
                let s = &self.w.toks[b].real;
                s[..s.len() / 2].to_string()
            }
            (Some(b), Some(_)) => {
                let mut by = self.w.toks[b].real.clone().into_bytes();
                let i = by.len() * 2 / 3;
                by[i] = if by[i] == b'A' { b'B' } else { b'A' };
                String::from_utf8(by).unwrap()
            }
            _ => "bm90IGEgdG9rZW4.bm90.YQ.YQ.YQ".to_string(),
        };
        let model = self.ask("badtok").and_then(|r| r.strip_prefix("tok ").and_then(|n| n.parse().ok()));
        self.w.toks.push(Tok {
            real,
            kind: "garbage",
            model,
            client: None,
            account: None,
            sid: None,
            parent: None,
            scopes: BTreeSet::new(),
            root_scopes: BTreeSet::new(),
            iat_s: 0,
            exp_s: 0,
            uri: None,
            challenge: None,
            redeemed: 0,
            redeemed_at_s: 0,
        });
        Some(self.w.toks.len() - 1)
    }

    fn auth(&mut self, spec: &Json) -> Auth {
        let how = spec["how"].as_str().unwrap_or("right");
        let k = spec["client"].as_u64().unwrap_or(0) as usize % self.w.clients.len();
        let c = self.w.clients[k].clone();
        let none_cai = ClientAuthInfo::new(Source::Internal, None, None, None);
        if how == "none" {
            return Auth { cai: none_cai, post: ClientPostAuth::default(), model: "none".into(), client: None, secret_ok: false };
        }
        let id = match how {
            "upper" => c.name.to_uppercase(),
            "unknown" => "c39nosuchclient".to_string(),
            _ => c.name.clone(),
        };
        let right = c.secret.clone();
        let secret: Option<String> = match how {
            "wrong_secret" => Some("c39-not-the-secret".to_string()),
            "nosecret" => None,
            // a public client has no secret: "right" presents none
            _ => right.clone(),
        };
        let via_basic = spec["via"].as_str().unwrap_or("basic") == "basic" && secret.is_some();
        let model = format!("{}:{}", hexs(&id), secret.as_ref().map(|s| self.w.atoms.st(s).to_string()).unwrap_or("-".into()));
        let named = if how == "unknown" { None } else { Some(k) };
        let secret_ok = named.is_some() && (!c.basic || (secret.is_some() && secret == right));
        if via_basic {
            let hdr = b64std_enc(format!("{id}:{}", secret.clone().unwrap()).as_bytes());
            Auth { cai: ClientAuthInfo::new(Source::Internal, None, None, Some(hdr)), post: ClientPostAuth::default(), model, client: named, secret_ok }
        } else {
            Auth { cai: none_cai, post: ClientPostAuth { client_id: Some(id), client_secret: secret }, model, client: named, secret_ok }
        }
    }

    /// The account's session maps as the implementation stores them, in the model's `state` format.
    async fn real_state(&mut self, acct: Uuid) -> String {
        let mut r = self.w.idms.proxy_read().await.unwrap();
        let Ok(e) = r.qs_read.internal_search_uuid(acct) else {
            return "absent".into();
        };
        let st = |s: &SessionState| match s {
            SessionState::ExpiresAt(t) => format!("E{}", odt_ns(*t)),
            SessionState::NeverExpires => "N".to_string(),
            SessionState::RevokedAt(_) => "R".to_string(),
        };
        let mut parts: BTreeMap<(u8, u64), String> = BTreeMap::new();
        if let Some(m) = e.get_ava_as_session_map(Attribute::UserAuthTokenSession) {
            for (k, v) in m.iter() {
                let a = self.w.atoms.uuid(*k);
                parts.insert((0, a), format!("u{a}={}", st(&v.state)));
            }
        }
        if let Some(m) = e.get_ava_as_oauth2session_map(Attribute::OAuth2Session) {
            for (k, v) in m.iter() {
                let a = self.w.atoms.uuid(*k);
                let p = v.parent.map(|p| self.w.atoms.uuid(p));
                parts.insert((1, a), format!("o{a}={},{},{}", st(&v.state), odt_ns(v.issued_at), opt_s(p)));
            }
        }
        if parts.is_empty() {
            "-".into()
        } else {
            parts.into_values().collect::<Vec<_>>().join(" ")
        }
    }
    async fn cmp_state(&mut self, acct: Option<Uuid>) {
        let Some(acct) = acct else { return };
        let a = self.w.atoms.uuid(acct);
        let line = format!("state {a}");
        let model = self.ask(&line);
        let imp = self.real_state(acct).await;
        self.cmp(&line, model, &imp);
    }

    // ---- the oracle's ledger view ------------------------------------------------------------
    /// Reasons for which the property says a token of this account / family / parent must be
    /// rejected at `ct` (empty = the ledger has nothing against it).
    fn ledger_against(&self, account: Option<Uuid>, sid: Option<Uuid>, parent: Option<Uuid>, ct: u128) -> Vec<(&'static str, String)> {
        let mut out = vec![];
        if let Some(u) = account.and_then(|a| self.user_of(a)) {
            let l = &self.w.users[u];
            if let Some(x) = l.expire {
                if ct > x {
                    out.push(("account-expired", format!("account expired at {x}, now {ct}")));
                }
            }
            if let Some(v) = l.valid_from {
                if ct < v {
                    out.push(("account-not-yet-valid", format!("account valid from {v}, now {ct}")));
                }
            }
        }
        if let Some(f) = sid.and_then(|s| self.w.fams.get(&s)) {
            if f.revoked {
                out.push(("session-revoked", "the OAuth2 session was revoked through the revocation endpoint".into()));
            }
            if f.replayed {
                out.push((if f.f1 { "session-alive-after-same-second-replay" } else { "session-alive-after-replay" }, "an already rotated refresh token of this session was presented again: the session must be revoked".into()));
            }
            if f.sess_exp_s > 0 && (ct / NS) as i64 > f.sess_exp_s {
                out.push(("session-expired", format!("the OAuth2 session's lifetime ended at second {}", f.sess_exp_s)));
            }
        }
        if let Some((u, j)) = parent.and_then(|p| self.sess_of(p)) {
            let s = &self.w.users[u].sessions[j];
            if s.revoked {
                out.push(("login-session-revoked", "the login session that authorised the grant was revoked".into()));
            }
            if let Some(x) = s.exp {
                if ct > x {
                    out.push(("login-session-expired", format!("the login session that authorised the grant expired at {x}, now {ct}")));
                }
            }
        }
        out
    }
}

fn outcome(imp: &str) -> String {
    let mut it = imp.split(' ');
    match it.next() {
        Some("err") => format!("err:{}", it.next().unwrap_or("?")),
        Some(x) => x.to_string(),
        None => "?".into(),
    }
}
fn scopes_of_str(v: &Json) -> BTreeSet<String> {
    match v {
        Json::String(s) => s.split(' ').filter(|x| !x.is_empty()).map(|x| x.to_string()).collect(),
        o => str_set(o),
    }
}
fn uuid_of(v: &Json) -> Option<Uuid> {
    v.as_str().and_then(|s| Uuid::parse_str(s).ok())
}

/// What one successful token response decodes to.
struct Minted {
    sid: Uuid,
    account: Uuid,
    parent: Option<Uuid>,
    scopes: BTreeSet<String>,
    iat: i64,
    aexp: i64,
    rexp: Option<i64>,
    canon: String,
}

impl<'a> Exec<'a> {
    /// Decode the tokens of a response issued at client `k` (the implementation's own output).
    async fn decode_resp(&mut self, resp: &AccessTokenResponse, k: usize) -> Result<Minted, String> {
        let cu = self.w.clients[k].uuid;
        let (sid, account, parent, scopes, iat, aexp) = if let Some(p) = jws_payload(&resp.access_token) {
            (
                uuid_of(&p["session_id"]).ok_or("session_id")?,
                uuid_of(&p["sub"]).ok_or("sub")?,
                uuid_of(&p["parent_session_id"]),
                scopes_of_str(&p["scope"]),
                p["iat"].as_i64().ok_or("iat")?,
                p["exp"].as_i64().ok_or("exp")?,
            )
        } else {
            let v = {
                let r = self.w.idms.proxy_read().await.unwrap();
                decode_code(&r.qs_read, cu, &resp.access_token)?
            };
            let c = &v["ClientAccess"];
            (uuid_of(&c["session_id"]).ok_or("ca session_id")?, uuid_of(&c["uuid"]).ok_or("ca uuid")?, None, str_set(&c["scopes"]), c["iat"].as_i64().ok_or("ca iat")?, c["exp"].as_i64().ok_or("ca exp")?)
        };
        let mut extra = String::new();
        let rexp = match &resp.refresh_token {
            None => None,
            Some(rt) => {
                let v = {
                    let r = self.w.idms.proxy_read().await.unwrap();
                    decode_code(&r.qs_read, cu, rt)?
                };
                let c = &v["Refresh"];
                if uuid_of(&c["session_id"]) != Some(sid) || uuid_of(&c["uuid"]) != Some(account) || uuid_of(&c["parent_session_id"]) != parent || str_set(&c["scopes"]) != scopes || c["iat"].as_i64() != Some(iat) {
                    extra = format!(" refresh-token-differs:{c}");
                }
                Some(c["exp"].as_i64().ok_or("refresh exp")?)
            }
        };
        if resp.scope != scopes {
            extra += &format!(" response-scope-differs:{:?}", resp.scope);
        }
        if resp.expires_in as i64 != aexp - iat {
            extra += &format!(" expires_in:{}", resp.expires_in);
        }
        let canon = format!(
            "ok sid={} acct={} parent={} scopes={} iat={iat} aexp={aexp} rexp={} idtoken={}{extra}",
            self.w.atoms.uuid(sid),
            self.w.atoms.uuid(account),
            opt_s(parent.map(|p| self.w.atoms.uuid(p))),
            self.w.atoms.scope_set(scopes.iter()),
            opt_s(rexp),
            resp.id_token.is_some() as u8
        );
        Ok(Minted { sid, account, parent, scopes, iat, aexp, rexp, canon })
    }

    /// Record the tokens of a response in the table; `model` = the model's reply to the same line.
    fn push_minted(&mut self, resp: &AccessTokenResponse, m: &Minted, k: usize, root: &BTreeSet<String>, model: &Option<String>, user_grant: bool) {
        let idx = |key: &str| -> Option<u64> { model.as_ref().and_then(|r| r.split(' ').find_map(|t| t.strip_prefix(key)).and_then(|n| n.parse().ok())) };
        let base = Tok {
            real: String::new(),
            kind: "access",
            model: None,
            client: Some(k),
            account: Some(m.account),
            sid: Some(m.sid),
            parent: m.parent,
            scopes: m.scopes.clone(),
            root_scopes: root.clone(),
            iat_s: m.iat,
            exp_s: m.aexp,
            uri: None,
            challenge: None,
            redeemed: 0,
            redeemed_at_s: 0,
        };
        self.w.toks.push(Tok { real: resp.access_token.clone(), kind: if user_grant { "access" } else { "caccess" }, model: idx("access="), ..base.clone() });
        if let (Some(rt), Some(rexp)) = (&resp.refresh_token, m.rexp) {
            self.w.toks.push(Tok { real: rt.clone(), kind: "refresh", model: idx("refresh="), exp_s: rexp, ..base.clone() });
            self.w.fams.entry(m.sid).or_default().sess_exp_s = rexp;
        } else {
            self.w.fams.entry(m.sid).or_default();
        }
        if let Some(idt) = &resp.id_token {
            self.w.toks.push(Tok { real: idt.clone(), kind: "idtoken", model: None, ..base });
        }
    }

    async fn token_endpoint(&mut self, a: &Auth, grant: GrantTypeReq, ct: u128) -> Result<AccessTokenResponse, Oauth2Error> {
        let req = AccessTokenRequest { grant_type: grant, client_post_auth: ClientPostAuth { client_id: a.post.client_id.clone(), client_secret: a.post.client_secret.clone() } };
        let mut wr = self.w.idms.proxy_write(dur(ct)).await.unwrap();
        let res = wr.check_oauth2_token_exchange(&a.cai, &req, dur(ct));
        // as `QueryServerWriteV1::handle_oauth2_token_exchange` does
        match &res {
            Ok(_) | Err(Oauth2Error::InvalidGrant) => wr.commit().expect("commit token exchange"),
            _ => drop(wr),
        }
        res
    }

    async fn op_authz(&mut self, op: &Json) {
        let ct = self.advance(op, None);
        let u = op["user"].as_u64().unwrap_or(0) as usize % self.w.users.len();
        let j = op["session"].as_u64().unwrap_or(0) as usize % self.w.users[u].sessions.len();
        let k = op["client"].as_u64().unwrap_or(0) as usize % self.w.clients.len();
        let c = self.w.clients[k].clone();
        let sess = self.w.users[u].sessions[j].clone();
        // the UAT's own `exp` is checked when the JWS is parsed (not on this path): mirror it
        if sess.exp.map(|x| x <= ct).unwrap_or(false) {
            self.rep.count("authz:login-token-expired");
            return;
        }
        let uat = UserAuthToken {
            session_id: uat_uuid(u as u64, j as u64),
            issued_at: odt(T0),
            expiry: sess.exp.map(odt),
            purpose: UatPurpose::ReadOnly,
            uuid: user_uuid(u as u64),
            displayname: format!("c39user{u}"),
            spn: format!("c39user{u}@example.com"),
            mail_primary: None,
            ui_hints: Default::default(),
            limit_search_max_results: None,
            limit_search_max_filter_test: None,
        };
        let ident = {
            let mut r = self.w.idms.proxy_read().await.unwrap();
            r.process_uat_to_identity(&uat, dur(ct), Source::Internal)
        };
        let Ok(ident) = ident else {
            self.rep.count("authz:identity-rejected");
            return;
        };
        let uri = Url::parse(&c.uris[op["uri"].as_u64().unwrap_or(0) as usize % c.uris.len()]).unwrap();
        let scopes = str_set(&op["scopes"]);
        let challenge: Option<Vec<u8>> = op["pkce"].as_u64().map(|i| sha256(self.w.verifiers[i as usize % self.w.verifiers.len()].as_bytes()).to_vec());
        let req = AuthorisationRequest {
            response_type: ResponseType::Code,
            response_mode: None,
            client_id: c.name.clone(),
            state: Some("c39".to_string()),
            pkce_request: challenge.clone().map(|code_challenge| PkceRequest { code_challenge, code_challenge_method: CodeChallengeMethod::S256 }),
            redirect_uri: uri.clone(),
            scope: scopes.clone(),
            nonce: op["nonce"].as_str().map(|s| s.to_string()),
            oidc_ext: AuthorisationRequestOidc::default(),
            max_age: None,
            prompt: Default::default(),
            ui_locales: Default::default(),
            unknown_keys: Default::default(),
        };
        let res = {
            let r = self.w.idms.proxy_read().await.unwrap();
            r.check_oauth2_authorisation(Some(&ident), &req, &AuthorisationRequestContext::default(), dur(ct))
        };
        let mut wrote = false;
        let code = match res {
            Ok(AuthoriseResponse::Permitted(p)) => Some(p.code),
            Ok(AuthoriseResponse::ConsentRequested { consent_token, .. }) => {
                let mut wr = self.w.idms.proxy_write(dur(ct)).await.unwrap();
                match wr.check_oauth2_authorise_permit(&ident, &consent_token, dur(ct)) {
                    Ok(p) => {
                        wr.commit().expect("commit permit");
                        wrote = true;
                        Some(p.code)
                    }
                    Err(_) => None,
                }
            }
            _ => None,
        };
        let Some(code) = code else {
            self.rep.count("authz:refused");
            return;
        };
        self.rep.count("authz:code");
        let acct_atom = self.w.atoms.uuid(user_uuid(u as u64));
        if wrote {
            // the consent record is a write to the account: the session plugin runs at `ct`
            let line = format!("touch {acct_atom} {ct}");
            let m = self.ask(&line);
            self.cmp(&line, m, "ok");
        }
        let v = {
            let r = self.w.idms.proxy_read().await.unwrap();
            decode_code(&r.qs_read, c.uuid, &code)
        };
        let v = match v {
            Ok(v) => v,
            Err(e) => {
                self.oracle("code-undecodable", "a code decrypts under the key of the client it was requested for".into(), e);
                return;
            }
        };
        let cscopes = str_set(&v["scopes"]);
        let exp = v["expiry"].as_u64().unwrap_or(0);
        let chal_dec = v["code_challenge"].as_str().and_then(b64_dec);
        let nonce = v["nonce"].as_str().map(|s| self.w.atoms.st(s));
        let line = format!(
            "code {} {} {} {exp} {} {} {} {}",
            self.w.atoms.uuid(c.uuid),
            acct_atom,
            self.w.atoms.uuid(uuid_of(&v["session_id"]).unwrap_or_default()),
            opt_s(chal_dec.as_ref().map(|c| self.w.atoms.chal(c))),
            self.w.atoms.url(Url::parse(v["redirect_uri"].as_str().unwrap_or("x:")).map(|u| u.to_string()).unwrap_or_default().as_str()),
            self.w.atoms.scope_set(cscopes.iter()),
            opt_s(nonce),
        );
        let model = self.ask(&line).and_then(|r| r.strip_prefix("tok ").and_then(|n| n.parse().ok()));
        // the ledger records the *request's* terms (client, URI, challenge, session), the granted
        // scopes as the implementation reported them
        self.w.toks.push(Tok {
            real: code,
            kind: "code",
            model,
            client: Some(k),
            account: Some(user_uuid(u as u64)),
            sid: None,
            parent: Some(uat_uuid(u as u64, j as u64)),
            scopes: cscopes.clone(),
            root_scopes: cscopes,
            iat_s: (ct / NS) as i64,
            exp_s: exp as i64,
            uri: Some(uri.to_string()),
            challenge,
            redeemed: 0,
            redeemed_at_s: 0,
        });
        if wrote {
            self.cmp_state(Some(user_uuid(u as u64))).await;
        }
    }

    async fn op_xcode(&mut self, op: &Json) {
        let Some(ti) = self.select(&op["sel"]) else {
            self.rep.count("skipped:no-token");
            return;
        };
        let ct = self.advance(op, Some(ti));
        let tok = self.w.toks[ti].clone();
        let a = self.auth(&op["auth"]);
        // redirect URI
        let base_uri = tok.uri.clone().unwrap_or_else(|| self.w.clients[0].uris[0].clone());
        let uri = match op["uri"].as_str().unwrap_or("same") {
            "same" => base_uri.clone(),
            "slash" => format!("{base_uri}/"),
            "query" => format!("{base_uri}?x=1"),
            "http" => base_uri.replacen("https://", "http://", 1),
            "case" => base_uri.replacen("/cb", "/CB", 1),
            "other" => {
                let k = a.client.or(tok.client).unwrap_or(0);
                let us = &self.w.clients[k].uris;
                us.iter().find(|u| **u != base_uri).cloned().unwrap_or_else(|| "https://elsewhere.example.com/cb".to_string())
            }
            _ => "https://elsewhere.example.com/cb".to_string(),
        };
        let uri = Url::parse(&uri).unwrap();
        // verifier
        let right = tok.challenge.as_ref().and_then(|c| self.w.verifiers.iter().find(|v| sha256(v.as_bytes()).as_slice() == c.as_slice()).cloned());
        let verifier: Option<String> = match op["verifier"].as_str().unwrap_or("right") {
            "right" => right.clone(),
            "none" => None,
            "wrong" => Some(self.w.verifiers.iter().find(|v| Some(*v) != right.as_ref()).unwrap().clone()),
            "near" => Some(format!("{}x", right.clone().unwrap_or_else(|| self.w.verifiers[0].clone()))),
            _ => Some(self.w.verifiers[0].clone()),
        };
        let line = format!(
            "xcode {} {} {} {} {ct}",
            a.model,
            opt_s(tok.model),
            self.w.atoms.url(uri.as_str()),
            opt_s(verifier.as_ref().map(|v| self.w.atoms.chal(&sha256(v.as_bytes())))),
        );
        let model = if tok.model.is_some() { self.ask(&line) } else { None };
        let res = self.token_endpoint(&a, GrantTypeReq::AuthorizationCode { code: tok.real.clone(), redirect_uri: uri.clone(), code_verifier: verifier.clone() }, ct).await;
        let imp = match &res {
            Err(e) => format!("err {}", oerr(e)),
            Ok(resp) => match a.client {
                None => "ok by-nobody".to_string(),
                Some(k) => match self.decode_resp(resp, k).await {
                    Err(e) => format!("ok undecodable {e}"),
                    Ok(m) => {
                        self.oracle_code(&tok, &a, uri.as_str(), verifier.as_deref(), ct, &m);
                        let root = if tok.kind == "code" { tok.root_scopes.clone() } else { m.scopes.clone() };
                        self.push_minted(resp, &m, k, &root, &model, true);
                        if self.w.toks[ti].redeemed == 0 {
                            self.w.toks[ti].redeemed_at_s = (ct / NS) as i64;
                        }
                        self.w.toks[ti].redeemed += 1;
                        m.canon
                    }
                },
            },
        };
        let mcmp = model.clone().map(|m| m.split(" access=").next().unwrap().to_string());
        self.cmp(&line, mcmp, &imp);
        self.rep.count(&format!("xcode:{}", outcome(&imp)));
        let nontrivial = tok.kind == "code" && a.client.is_some();
        self.rep.case(if nontrivial { Some(format!("{line}|{}", outcome(&imp))) } else { None });
        if res.is_ok() || matches!(res, Err(Oauth2Error::InvalidGrant)) {
            self.cmp_state(tok.account).await;
        }
        if self.rep.samples.len() < 2 && res.is_ok() {
            self.rep.sample(json!({"op": op, "line": line, "reply": imp}));
        }
    }

    /// ORACLE, first sentence of the property: an authorisation code yields tokens only at the
    /// client it was issued for, before it expires, with the same redirect URI and, when a PKCE
    /// challenge was recorded, with a verifier hashing to it; and (third sentence) not when its
    /// session or account has been revoked or has expired.
    fn oracle_code(&mut self, tok: &Tok, a: &Auth, uri: &str, verifier: Option<&str>, ct: u128, m: &Minted) {
        let obs = format!("tokens issued: account {} scopes {:?} at {ct} to client {:?}", m.account, m.scopes, a.client.map(|k| self.w.clients[k].name.clone()));
        if tok.kind != "code" {
            self.oracle("not-a-code", "only an authorisation code is redeemable at the authorization_code grant".into(), format!("{obs} for a {} token", tok.kind));
            return;
        }
        if a.client != tok.client {
            self.oracle("code-other-client", format!("a code yields tokens only at the client it was issued for ({})", self.w.clients[tok.client.unwrap()].name), obs.clone());
        }
        if !a.secret_ok {
            self.oracle("code-client-unauthenticated", "a confidential client must authenticate with its secret".into(), obs.clone());
        }
        if (ct / NS) as i64 >= tok.exp_s {
            self.oracle("code-expired", format!("the code expired at second {}", tok.exp_s), obs.clone());
        }
        if Some(uri.to_string()) != tok.uri {
            self.oracle("code-redirect-differs", format!("redirect URI must equal the request's {:?}", tok.uri), format!("{obs} with {uri}"));
        }
        if let Some(ch) = &tok.challenge {
            match verifier {
                None => self.oracle("pkce-verifier-missing", "a PKCE challenge was recorded: a verifier is required".into(), obs.clone()),
                Some(v) => {
                    if sha256(v.as_bytes()).as_slice() != ch.as_slice() {
                        self.oracle("pkce-verifier-wrong", "the verifier must hash (S256) to the recorded challenge".into(), obs.clone());
                    }
                }
            }
        }
        if m.account != tok.account.unwrap() || m.parent != tok.parent {
            self.oracle("code-binding", "tokens are bound to the account and login session that authorised the code".into(), obs.clone());
        }
        if !m.scopes.is_subset(&tok.scopes) {
            self.oracle("code-scope-escalation", format!("tokens carry at most the code's scopes {:?}", tok.scopes), obs.clone());
        }
        for (class, why) in self.ledger_against(tok.account, None, tok.parent, ct) {
            self.oracle(&prefixed("code-exchange", class), format!("exchange must reject: {why}"), obs.clone());
        }
    }
}

impl<'a> Exec<'a> {
    async fn op_xrefresh(&mut self, op: &Json) {
        let Some(ti) = self.select(&op["sel"]) else {
            self.rep.count("skipped:no-token");
            return;
        };
        let ct = self.advance(op, Some(ti));
        let tok = self.w.toks[ti].clone();
        let a = self.auth(&op["auth"]);
        let req_scopes: Option<BTreeSet<String>> = match op["scopes"].as_str() {
            None if op["scopes"].is_array() => Some(str_set(&op["scopes"])),
            Some("same") => Some(tok.scopes.clone()),
            Some("first") => Some(tok.scopes.iter().take(1).cloned().collect()),
            Some("root") => Some(tok.root_scopes.clone()),
            Some("plus") => {
                let mut s = tok.scopes.clone();
                s.insert(op["extra"].as_str().unwrap_or("admin").to_string());
                Some(s)
            }
            Some("empty") => Some(BTreeSet::new()),
            _ => None,
        };
        let line = format!("xrefresh {} {} {} {ct}", a.model, opt_s(tok.model), req_scopes.as_ref().map(|s| self.w.atoms.scope_set(s.iter())).unwrap_or("*".into()));
        let model = if tok.model.is_some() { self.ask(&line) } else { None };
        // a replay, as the property reads it: a refresh token that was already redeemed, presented
        // again by its own (authenticated) client while the token itself is unexpired
        // … i.e. a presentation that would have been honoured had the token not been rotated
        let replay = tok.kind == "refresh"
            && tok.redeemed > 0
            && a.client == tok.client
            && a.secret_ok
            && ((ct / NS) as i64) < tok.exp_s
            && self.ledger_against(tok.account, tok.sid, tok.parent, ct).is_empty();
        let same_second = tok.redeemed > 0 && tok.redeemed_at_s == tok.iat_s;
        let res = self.token_endpoint(&a, GrantTypeReq::RefreshToken { refresh_token: tok.real.clone(), scope: req_scopes.clone() }, ct).await;
        let imp = match &res {
            Err(e) => format!("err {}", oerr(e)),
            Ok(resp) => match a.client {
                None => "ok by-nobody".to_string(),
                Some(k) => match self.decode_resp(resp, k).await {
                    Err(e) => format!("ok undecodable {e}"),
                    Ok(m) => {
                        self.oracle_refresh(&tok, &a, req_scopes.as_ref(), ct, &m);
                        self.push_minted(resp, &m, k, &tok.root_scopes, &model, true);
                        if self.w.toks[ti].redeemed == 0 {
                            self.w.toks[ti].redeemed_at_s = (ct / NS) as i64;
                        }
                        self.w.toks[ti].redeemed += 1;
                        m.canon
                    }
                },
            },
        };
        if replay {
            self.rep.count("refresh-replay-presented");
            if let Some(f) = tok.sid.and_then(|s| self.w.fams.get_mut(&s)) {
                if !f.replayed {
                    f.f1 = same_second;
                }
                f.replayed = true;
            }
        }
        let mcmp = model.clone().map(|m| m.split(" access=").next().unwrap().to_string());
        self.cmp(&line, mcmp, &imp);
        self.rep.count(&format!("xrefresh:{}", outcome(&imp)));
        let nontrivial = tok.kind == "refresh" && a.client.is_some();
        self.rep.case(if nontrivial { Some(format!("{line}|{}", outcome(&imp))) } else { None });
        if res.is_ok() || matches!(res, Err(Oauth2Error::InvalidGrant)) {
            self.cmp_state(tok.account).await;
        }
        if self.rep.samples.len() < 4 && res.is_ok() {
            self.rep.sample(json!({"op": op, "line": line, "reply": imp}));
        }
    }

    /// ORACLE, second and third sentence: a refresh never grants scopes beyond the original
    /// grant; an already rotated refresh token yields nothing; tokens whose session or account has
    /// been revoked or has expired are rejected — plus "only as issued": by its own client.
    fn oracle_refresh(&mut self, tok: &Tok, a: &Auth, req: Option<&BTreeSet<String>>, ct: u128, m: &Minted) {
        let obs = format!("refresh granted: session {} scopes {:?} (requested {req:?}) at {ct} to client {:?}", m.sid, m.scopes, a.client.map(|k| self.w.clients[k].name.clone()));
        if tok.kind != "refresh" {
            self.oracle("not-a-refresh-token", "only a refresh token is redeemable at the refresh_token grant".into(), format!("{obs} for a {} token", tok.kind));
            return;
        }
        if a.client != tok.client {
            self.oracle("refresh-other-client", format!("a refresh token is redeemable only by the client it was issued to ({})", self.w.clients[tok.client.unwrap()].name), obs.clone());
        }
        if !a.secret_ok {
            self.oracle("refresh-client-unauthenticated", "a confidential client must authenticate with its secret".into(), obs.clone());
        }
        if (ct / NS) as i64 >= tok.exp_s {
            self.oracle("refresh-expired", format!("the refresh token expired at second {}", tok.exp_s), obs.clone());
        }
        if !m.scopes.is_subset(&tok.root_scopes) || !m.scopes.is_subset(&tok.scopes) {
            self.oracle("refresh-scope-escalation", format!("a refresh never grants scopes beyond the original grant {:?} (presented token: {:?})", tok.root_scopes, tok.scopes), obs.clone());
        }
        if tok.redeemed > 0 {
            self.oracle(if tok.redeemed_at_s == tok.iat_s { "refresh-replay-same-second" } else { "refresh-replay-accepted" }, "an already rotated refresh token must not be redeemable again (its reuse revokes the session)".into(), format!("{obs}; the token had been redeemed {} time(s)", tok.redeemed));
        }
        if Some(m.sid) != tok.sid || Some(m.account) != tok.account || m.parent != tok.parent {
            self.oracle("refresh-binding", "refreshed tokens stay bound to the same account and sessions".into(), obs.clone());
        }
        for (class, why) in self.ledger_against(tok.account, tok.sid, tok.parent, ct) {
            self.oracle(&prefixed("refresh", class), format!("refresh must reject: {why}"), obs.clone());
        }
    }

    async fn op_xcc(&mut self, op: &Json) {
        let ct = self.advance(op, None);
        let a = self.auth(&op["auth"]);
        let req_scopes: Option<BTreeSet<String>> = if op["scopes"].is_array() { Some(str_set(&op["scopes"])) } else { None };
        let line = format!("xcc {} {} {ct}", a.model, req_scopes.as_ref().map(|s| self.w.atoms.scope_set(s.iter())).unwrap_or("*".into()));
        let model = self.ask(&line);
        let res = self.token_endpoint(&a, GrantTypeReq::ClientCredentials { scope: req_scopes.clone() }, ct).await;
        let imp = match &res {
            Err(e) => format!("err {}", oerr(e)),
            Ok(resp) => match a.client {
                None => "ok by-nobody".to_string(),
                Some(k) => match self.decode_resp(resp, k).await {
                    Err(e) => format!("ok undecodable {e}"),
                    Ok(m) => {
                        if !self.w.clients[k].basic || !a.secret_ok {
                            self.oracle("client-credentials-unauthenticated", "the client credentials grant needs a confidential client and its secret".into(), m.canon.clone());
                        }
                        if m.account != self.w.clients[k].uuid {
                            self.oracle("client-credentials-binding", "a client credentials token is the client's own".into(), m.canon.clone());
                        }
                        let root = m.scopes.clone();
                        self.push_minted(resp, &m, k, &root, &model, false);
                        m.canon
                    }
                },
            },
        };
        let mcmp = model.clone().map(|m| m.split(" access=").next().unwrap().to_string());
        self.cmp(&line, mcmp, &imp);
        self.rep.count(&format!("xcc:{}", outcome(&imp)));
        self.rep.case(if a.client.is_some() { Some(format!("{line}|{}", outcome(&imp))) } else { None });
        if res.is_ok() {
            if let Some(k) = a.client {
                let cu = self.w.clients[k].uuid;
                self.cmp_state(Some(cu)).await;
            }
        }
    }

    /// ORACLE for an *accepted presentation* (introspection says active / userinfo answers).
    fn oracle_present(&mut self, what: &str, tok: &Tok, ct: u128, obs: String) {
        if tok.kind != "access" && tok.kind != "caccess" {
            self.oracle(&format!("{what}:not-an-access-token"), "only an access token is accepted as one".into(), format!("{obs} for a {} token", tok.kind));
            return;
        }
        if (ct / NS) as i64 >= tok.exp_s {
            self.oracle(&format!("{what}:access-token-expired"), format!("the access token expired at second {}", tok.exp_s), obs.clone());
        }
        if tok.exp_s - tok.iat_s != ORACLE_ACCESS_S {
            self.oracle(&format!("{what}:access-lifetime"), format!("access tokens live {ORACLE_ACCESS_S} s"), format!("{obs} iat {} exp {}", tok.iat_s, tok.exp_s));
        }
        for (class, why) in self.ledger_against(tok.account, tok.sid, tok.parent, ct) {
            self.oracle(&prefixed(what, class), format!("{what} must reject: {why}"), obs.clone());
        }
    }

    async fn op_introspect(&mut self, op: &Json) {
        let Some(ti) = self.select(&op["sel"]) else {
            self.rep.count("skipped:no-token");
            return;
        };
        let ct = self.advance(op, Some(ti));
        let tok = self.w.toks[ti].clone();
        let line = format!("introspect {} {ct}", opt_s(tok.model));
        let model = if tok.model.is_some() { self.ask(&line) } else { None };
        let res = {
            let mut r = self.w.idms.proxy_read().await.unwrap();
            r.check_oauth2_token_introspect(&AccessTokenIntrospectRequest { token: tok.real.clone(), token_type_hint: None, client_post_auth: ClientPostAuth::default() }, dur(ct))
        };
        let imp = match &res {
            Err(e) => format!("err {}", oerr(e)),
            Ok(r) if !r.active => "inactive".to_string(),
            Ok(r) => {
                let obs = format!("introspection active: {r:?} at {ct}");
                self.oracle_present("introspect", &tok, ct, obs.clone());
                if r.scope != tok.scopes || r.sub != tok.account.map(|a| a.to_string()) || r.client_id != tok.client.map(|k| self.w.clients[k].name.clone()) {
                    self.oracle("introspect:terms-differ", format!("an active token reports the terms it was issued on: scopes {:?} account {:?} client {:?}", tok.scopes, tok.account, tok.client), obs);
                }
                format!(
                    "active sid={} acct={} scopes={} iat={} exp={} client={}",
                    self.w.atoms.uuid(r.jti),
                    opt_s(r.sub.as_ref().and_then(|s| Uuid::parse_str(s).ok()).map(|u| self.w.atoms.uuid(u))),
                    self.w.atoms.scope_set(r.scope.iter()),
                    opt_s(r.iat),
                    opt_s(r.exp),
                    hexs(r.client_id.as_deref().unwrap_or(""))
                )
            }
        };
        self.cmp(&line, model, &imp);
        self.rep.count(&format!("introspect:{}", outcome(&imp)));
        self.rep.case(if tok.kind != "garbage" { Some(format!("{line}|{}", outcome(&imp))) } else { None });
    }

    async fn op_userinfo(&mut self, op: &Json) {
        let Some(ti) = self.select(&op["sel"]) else {
            self.rep.count("skipped:no-token");
            return;
        };
        let ct = self.advance(op, Some(ti));
        let tok = self.w.toks[ti].clone();
        let Ok(jws) = JwsCompact::from_str(&tok.real) else {
            self.rep.count("userinfo:not-a-jws");
            return;
        };
        let k = op["client"].as_u64().map(|k| k as usize % self.w.clients.len()).or(tok.client).unwrap_or(0);
        let cname = if op["unknown_client"].as_bool() == Some(true) { "c39nosuchclient".to_string() } else { self.w.clients[k].name.clone() };
        let line = format!("userinfo {} {} {ct}", hexs(&cname), opt_s(tok.model));
        let model = if tok.model.is_some() { self.ask(&line) } else { None };
        let res = {
            let mut r = self.w.idms.proxy_read().await.unwrap();
            r.oauth2_openid_userinfo(&cname, &jws, dur(ct))
        };
        let imp = match &res {
            Err(e) => format!("err {}", oerr(e)),
            Ok(t) => {
                let obs = format!("userinfo at {cname} answered: sub {:?} aud {} at {ct}", t.sub, t.aud);
                self.oracle_present("userinfo", &tok, ct, obs.clone());
                if tok.client.map(|c| self.w.clients[c].name.clone()) != Some(cname.clone()) {
                    self.oracle("userinfo:other-client", "an access token is accepted only at the client it was issued to".into(), obs);
                }
                format!("ok iat={} exp={}", t.iat, t.exp)
            }
        };
        self.cmp(&line, model, &imp);
        self.rep.count(&format!("userinfo:{}", outcome(&imp)));
        self.rep.case(Some(format!("{line}|{}", outcome(&imp))));
    }

    async fn op_revoke(&mut self, op: &Json) {
        let Some(ti) = self.select(&op["sel"]) else {
            self.rep.count("skipped:no-token");
            return;
        };
        let ct = self.advance(op, Some(ti));
        let tok = self.w.toks[ti].clone();
        let line = format!("revoke {} {ct}", opt_s(tok.model));
        let model = if tok.model.is_some() { self.ask(&line) } else { None };
        let res = {
            let mut wr = self.w.idms.proxy_write(dur(ct)).await.unwrap();
            let r = wr.oauth2_token_revoke(&TokenRevokeRequest { token: tok.real.clone(), token_type_hint: None, client_post_auth: ClientPostAuth::default() }, dur(ct));
            if r.is_ok() {
                wr.commit().expect("commit revoke");
            }
            r
        };
        let imp = match &res {
            Err(e) => format!("err {}", oerr(e)),
            Ok(()) => "ok".to_string(),
        };
        // ledger: an unexpired access / refresh token revokes its session
        if res.is_ok() && matches!(tok.kind, "access" | "refresh" | "caccess") && ((ct / NS) as i64) < tok.exp_s {
            if let Some(f) = tok.sid.and_then(|s| self.w.fams.get_mut(&s)) {
                f.revoked = true;
            }
        }
        self.cmp(&line, model, &imp);
        self.rep.count(&format!("revoke:{}", outcome(&imp)));
        self.rep.case(None);
        if res.is_ok() {
            self.cmp_state(tok.account).await;
        }
    }

    async fn op_directory(&mut self, op: &Json) {
        let ct = self.advance(op, None);
        let u = op["user"].as_u64().unwrap_or(0) as usize % self.w.users.len();
        let uu = user_uuid(u as u64);
        let a = self.w.atoms.uuid(uu);
        let when = |v: &Json| -> Option<u128> { v.as_i64().map(|d| (ct as i128 + d as i128).max(0) as u128) };
        let (ml, line) = match op["op"].as_str().unwrap() {
            "sessrevoke" => {
                let j = op["session"].as_u64().unwrap_or(0) as usize % self.w.users[u].sessions.len();
                self.w.users[u].sessions[j].revoked = true;
                let s = uat_uuid(u as u64, j as u64);
                (ModifyList::new_list(vec![Modify::Removed(Attribute::UserAuthTokenSession, PartialValue::Refer(s))]), format!("sessrevoke {a} {} {ct}", self.w.atoms.uuid(s)))
            }
            "setexpire" => {
                let t = when(&op["rel_ns"]);
                self.w.users[u].expire = t;
                let mut v = vec![Modify::Purged(Attribute::AccountExpire)];
                if let Some(t) = t {
                    v.push(Modify::Present(Attribute::AccountExpire, Value::new_datetime_epoch(dur(t))));
                }
                (ModifyList::new_list(v), format!("setexpire {a} {} {ct}", opt_s(t)))
            }
            "setvalidfrom" => {
                let t = when(&op["rel_ns"]);
                self.w.users[u].valid_from = t;
                let mut v = vec![Modify::Purged(Attribute::AccountValidFrom)];
                if let Some(t) = t {
                    v.push(Modify::Present(Attribute::AccountValidFrom, Value::new_datetime_epoch(dur(t))));
                }
                (ModifyList::new_list(v), format!("setvalidfrom {a} {} {ct}", opt_s(t)))
            }
            _ => (ModifyList::new_list(vec![Modify::Purged(Attribute::Description), Modify::Present(Attribute::Description, Value::new_utf8s(&format!("touched {ct}")))]), format!("touch {a} {ct}")),
        };
        let model = self.ask(&line);
        let mut wr = self.w.idms.proxy_write(dur(ct)).await.unwrap();
        wr.qs_write.internal_modify_uuid(uu, &ml).expect("directory write");
        wr.commit().expect("commit directory write");
        self.cmp(&line, model, "ok");
        self.rep.count(&format!("dir:{}", op["op"].as_str().unwrap()));
        self.cmp_state(Some(uu)).await;
    }
}

/// Run one scenario; returns the oracle failures found in it (unshrunk).
async fn run_scenario(sc: &Json, drv: Option<&mut Driver>, rep: &mut Report, count: bool) -> Vec<Failure> {
    let mut drv = drv;
    if let Some(d) = drv.as_mut() {
        assert_eq!(d.ask("reset"), "ok", "driver reset");
    }
    let (w, lines) = World::new(sc).await;
    let mut scratch = Report::new("scratch", "");
    let trace = std::env::var_os("C39_TRACE").is_some();
    let mut ex = Exec { w, drv, rep: if count { rep } else { &mut scratch }, model_fail: 0, oracle_fail: vec![], scenario: sc.clone(), op_index: 0, trace };
    for l in lines {
        let r = ex.ask(&l);
        ex.cmp(&l, r, "ok");
    }
    let ops = sc["ops"].as_array().unwrap().clone();
    for (i, op) in ops.iter().enumerate() {
        ex.op_index = i;
        if trace {
            eprintln!("op {i}: {op}");
        }
        match op["op"].as_str().unwrap() {
            "authz" => ex.op_authz(op).await,
            "xcode" => ex.op_xcode(op).await,
            "xrefresh" => ex.op_xrefresh(op).await,
            "xcc" => ex.op_xcc(op).await,
            "introspect" => ex.op_introspect(op).await,
            "userinfo" => ex.op_userinfo(op).await,
            "revoke" => ex.op_revoke(op).await,
            "sessrevoke" | "setexpire" | "setvalidfrom" | "touch" => ex.op_directory(op).await,
            o => panic!("bad op {o}"),
        }
        // keep going past the recorded findings; anything else ends the scenario
        if ex.oracle_fail.iter().any(|f| !is_finding(&f.class)) {
            break;
        }
    }
    ex.oracle_fail
}

// ------------------------------------------------------------------------------------------------
// scenarios
// ------------------------------------------------------------------------------------------------
const SCOPES: [&str; 5] = ["openid", "email", "read", "write", "profile"];
const MS: u64 = 1_000_000;
const S: u64 = 1_000_000_000;

fn std_clients() -> Json {
    json!([
        {"name": "c39basic", "basic": true, "disable_pkce": null, "refresh_expiry": null, "uris": ["https://rs0.example.com/cb", "https://rs0.example.com/cb2"],
         "scopes": ["openid", "email", "read", "write"], "sup": ["groups"], "cc_scopes": ["svc"], "cc_sup": ["svcsup"]},
        {"name": "c39legacy", "basic": true, "disable_pkce": true, "refresh_expiry": 600, "uris": ["https://rs1.example.com/cb", "http://rs1.example.com/cb"],
         "scopes": ["openid", "read", "profile"], "sup": [], "cc_scopes": [], "cc_sup": []},
        {"name": "c39pub", "basic": false, "disable_pkce": null, "refresh_expiry": 3600, "uris": ["https://rs2.example.com/cb", "app://c39pub/cb"],
         "scopes": ["openid", "email", "profile"], "sup": [], "cc_scopes": ["svc"], "cc_sup": []}
    ])
}
fn std_users() -> Json {
    json!([{"valid_from": null, "expire": null, "sessions": [{"exp": null}, {"exp": 60}]}, {"valid_from": null, "expire": null, "sessions": [{"exp": null}]}])
}
fn right(k: u64) -> Json {
    json!({"client": k, "how": "right"})
}
fn authz(k: u64, u: u64, s: u64, scopes: &[&str], pkce: Option<u64>, dt: u64) -> Json {
    json!({"op": "authz", "client": k, "user": u, "session": s, "scopes": scopes, "pkce": pkce, "uri": 0, "nonce": "n", "dt_ns": dt})
}
fn xcode(k: u64, sel: &str, dt: u64) -> Json {
    json!({"op": "xcode", "auth": right(k), "sel": {"kind": sel, "nth": 0}, "uri": "same", "verifier": "right", "dt_ns": dt})
}
fn xrefresh(k: u64, sel: &str, scopes: Json, dt: u64) -> Json {
    json!({"op": "xrefresh", "auth": right(k), "sel": {"kind": sel, "nth": 0}, "scopes": scopes, "dt_ns": dt})
}
fn present(op: &str, sel: &str, dt: u64) -> Json {
    json!({"op": op, "sel": {"kind": sel, "nth": 0}, "dt_ns": dt})
}
fn at(mut op: Json, rel: &str, delta: i64) -> Json {
    op["at"] = json!({"rel": rel, "delta_ns": delta});
    op
}

/// Scripted scenarios: the regression witnesses (D12) and every near miss of the statement.
fn corpus() -> Vec<(String, Json)> {
    let mk = |ops: Vec<Json>| json!({"clients": std_clients(), "users": std_users(), "ops": ops});
    let mut out = vec![];
    // the plain flow on each client kind, rotation, replay one second later, everything dead
    for (k, pk) in [(0u64, Some(0u64)), (1, None), (2, Some(1))] {
        out.push((
            format!("flow-client{k}"),
            mk(vec![
                authz(k, 0, 0, &["openid", "read"], pk, S),
                xcode(k, "code_fresh", 100 * MS),
                present("introspect", "access", 100 * MS),
                present("userinfo", "access", 100 * MS),
                xrefresh(k, "refresh_fresh", Json::Null, 2 * S),
                xrefresh(k, "refresh_fresh", json!("first"), 2 * S),
                xrefresh(k, "refresh_fresh", json!("root"), 2 * S),
                xrefresh(k, "refresh_fresh", json!("plus"), 2 * S),
                present("introspect", "access", S),
                xrefresh(k, "refresh_rotated", Json::Null, 2 * S),
                present("introspect", "access", 100 * MS),
                present("userinfo", "access", 100 * MS),
                xrefresh(k, "refresh_fresh", Json::Null, S),
            ]),
        ));
    }
    // D12 (fixed in 4408804): code exchanged after the account expired / the session was revoked
    out.push(("d12-account-expired".into(), mk(vec![authz(0, 0, 0, &["openid"], Some(0), S), json!({"op": "setexpire", "user": 0, "rel_ns": -1, "dt_ns": S}), xcode(0, "code_fresh", S)])));
    out.push(("d12-session-revoked".into(), mk(vec![authz(0, 0, 0, &["openid"], Some(0), S), json!({"op": "sessrevoke", "user": 0, "session": 0, "dt_ns": S}), xcode(0, "code_fresh", S)])));
    out.push(("account-not-yet-valid".into(), mk(vec![authz(0, 0, 0, &["openid"], Some(0), S), json!({"op": "setvalidfrom", "user": 0, "rel_ns": 30 * S, "dt_ns": S}), xcode(0, "code_fresh", S)])));
    // rotation inside the second the token was issued in, then the rotated token again
    out.push((
        "replay-same-second".into(),
        mk(vec![
            authz(0, 0, 0, &["openid", "read"], Some(0), S),
            xcode(0, "code_fresh", 100 * MS),
            xrefresh(0, "refresh_fresh", Json::Null, 100 * MS),
            xrefresh(0, "refresh_rotated", Json::Null, 5 * S),
            present("introspect", "access", 100 * MS),
        ]),
    ));
    // the login session (expires at T0+60 s) ends between authorisation and exchange
    out.push(("code-after-login-session-expiry".into(), mk(vec![authz(0, 0, 1, &["openid"], Some(0), 40 * S), xcode(0, "code_fresh", 15 * S)])));
    // … or after the exchange: presentations and refresh afterwards, no write in between
    out.push((
        "tokens-after-login-session-expiry".into(),
        mk(vec![
            authz(0, 0, 1, &["openid"], Some(0), S),
            xcode(0, "code_fresh", S),
            at(present("introspect", "access", 0), "sess_exp", S as i64),
            present("userinfo", "access", MS),
            xrefresh(0, "refresh_fresh", Json::Null, MS),
            present("introspect", "access", MS),
        ]),
    ));
    // a refresh lifetime (600 s) shorter than the access token's (900 s)
    out.push((
        "access-after-oauth2-session-expiry".into(),
        mk(vec![authz(1, 0, 0, &["openid"], None, S), xcode(1, "code_fresh", S), at(present("introspect", "access", 0), "exp", -(200 * S as i64)), present("userinfo", "access", MS)]),
    ));
    // swapping between clients, wrong secrets, every mutation of the exchange on a fresh code each
    let mut ops = vec![];
    let muts: Vec<(&str, Json)> = vec![
        ("auth", json!({"client": 1, "how": "right"})),
        ("auth", json!({"client": 2, "how": "right"})),
        ("auth", json!({"client": 0, "how": "wrong_secret"})),
        ("auth", json!({"client": 0, "how": "nosecret"})),
        ("auth", json!({"client": 0, "how": "none"})),
        ("auth", json!({"client": 0, "how": "unknown"})),
        ("auth", json!({"client": 0, "how": "upper"})),
        ("auth", json!({"client": 0, "how": "right", "via": "post"})),
        ("uri", json!("other")),
        ("uri", json!("slash")),
        ("uri", json!("query")),
        ("uri", json!("http")),
        ("uri", json!("case")),
        ("uri", json!("stranger")),
        ("verifier", json!("none")),
        ("verifier", json!("wrong")),
        ("verifier", json!("near")),
    ];
    for (field, v) in &muts {
        ops.push(authz(0, 0, 0, &["openid", "email"], Some(0), S));
        let mut x = xcode(0, "code_fresh", S);
        x[*field] = v.clone();
        ops.push(x);
        ops.push(xcode(0, "code_fresh", MS));
    }
    // the code's expiry second and its neighbours
    for d in [-(S as i64), -1, 0, S as i64] {
        ops.push(authz(0, 0, 0, &["openid"], Some(0), S));
        ops.push(at(xcode(0, "code_fresh", 0), "exp", d));
    }
    // a code twice, wrong kinds of token at each endpoint, tampered tokens
    ops.push(authz(0, 0, 0, &["openid"], Some(0), S));
    ops.push(xcode(0, "code_fresh", S));
    ops.push(xcode(0, "code_used", S));
    for kind in ["access", "refresh", "idtoken", "garbage"] {
        ops.push(xcode(0, kind, MS));
    }
    for kind in ["access", "code", "idtoken", "garbage"] {
        ops.push(xrefresh(0, kind, Json::Null, MS));
    }
    for kind in ["refresh", "code", "idtoken", "garbage"] {
        ops.push(present("introspect", kind, MS));
        ops.push(present("userinfo", kind, MS));
    }
    for m in ["flip", "trunc"] {
        for (op, kind) in [("xrefresh", "refresh_fresh"), ("introspect", "access"), ("userinfo", "access"), ("revoke", "access")] {
            ops.push(json!({"op": op, "auth": right(0), "sel": {"kind": kind, "nth": 0, "mut": m}, "scopes": null, "dt_ns": MS}));
        }
    }
    out.push(("mutations".into(), mk(ops)));
    // legacy client (no PKCE): a verifier where no challenge was recorded; public client: secret ignored
    out.push((
        "pkce-matrix".into(),
        mk(vec![
            authz(1, 0, 0, &["openid"], None, S),
            { let mut x = xcode(1, "code_fresh", S); x["verifier"] = json!("stray"); x },
            xcode(1, "code_fresh", S),
            authz(1, 0, 0, &["openid"], Some(2), S),
            { let mut x = xcode(1, "code_fresh", S); x["verifier"] = json!("none"); x },
            xcode(1, "code_fresh", S),
            authz(2, 1, 0, &["openid"], Some(3), S),
            { let mut x = xcode(2, "code_fresh", S); x["auth"] = json!({"client": 2, "how": "wrong_secret"}); x },
        ]),
    ));
    // refresh tokens across clients, around their expiry, access tokens around expiry and grace
    out.push((
        "refresh-and-access-boundaries".into(),
        mk(vec![
            authz(1, 1, 0, &["openid", "read"], None, S),
            xcode(1, "code_fresh", 500 * MS),
            authz(0, 1, 0, &["openid", "read"], Some(0), S),
            xcode(0, "code_fresh", 500 * MS),
            { let mut x = xrefresh(0, "refresh_fresh", Json::Null, S); x["sel"]["nth"] = json!(1); x },
            { let mut x = xrefresh(1, "refresh_fresh", Json::Null, S); x["sel"]["nth"] = json!(0); x },
            json!({"op": "userinfo", "client": 1, "sel": {"kind": "access", "nth": 0}, "dt_ns": MS}),
            json!({"op": "userinfo", "client": 0, "sel": {"kind": "access", "nth": 0}, "dt_ns": MS}),
            json!({"op": "userinfo", "unknown_client": true, "sel": {"kind": "access", "nth": 0}, "dt_ns": MS}),
            at(present("introspect", "access", 0), "grace", -1),
            at(present("introspect", "access", 0), "grace", 0),
            at(present("introspect", "access", 0), "exp", -(S as i64)),
            at(present("userinfo", "access", 0), "exp", -1),
            at(present("introspect", "access", 0), "exp", 0),
            at(present("userinfo", "access", 0), "exp", 0),
            at({ let mut x = xrefresh(1, "refresh_fresh", Json::Null, 0); x["sel"]["nth"] = json!(1); x }, "exp", -(S as i64)),
            at(xrefresh(1, "refresh_fresh", Json::Null, 0), "exp", 0),
        ]),
    ));
    // revocation endpoint, login-session revocation, account expiry after issue; client credentials
    out.push((
        "revocations".into(),
        mk(vec![
            authz(0, 0, 0, &["openid"], Some(0), S),
            xcode(0, "code_fresh", S),
            authz(0, 1, 0, &["openid"], Some(0), S),
            xcode(0, "code_fresh", S),
            present("revoke", "access", S),
            present("introspect", "access", MS),
            xrefresh(0, "refresh_fresh", Json::Null, MS),
            json!({"op": "sessrevoke", "user": 0, "session": 0, "dt_ns": S}),
            json!({"op": "introspect", "sel": {"kind": "access", "nth": 1}, "dt_ns": MS}),
            json!({"op": "userinfo", "sel": {"kind": "access", "nth": 1}, "dt_ns": MS}),
            { let mut x = xrefresh(0, "refresh_fresh", Json::Null, MS); x["sel"]["nth"] = json!(1); x },
            json!({"op": "xcc", "auth": right(0), "scopes": ["svc"], "dt_ns": S}),
            json!({"op": "xcc", "auth": right(0), "scopes": ["svc", "read"], "dt_ns": S}),
            json!({"op": "xcc", "auth": {"client": 0, "how": "wrong_secret"}, "scopes": ["svc"], "dt_ns": S}),
            json!({"op": "xcc", "auth": right(2), "scopes": ["svc"], "dt_ns": S}),
            json!({"op": "xcc", "auth": right(0), "scopes": null, "dt_ns": S}),
            present("introspect", "caccess", MS),
            present("revoke", "caccess", MS),
            present("introspect", "caccess", MS),
        ]),
    ));
    out.push((
        "account-expiry-after-issue".into(),
        mk(vec![
            authz(0, 0, 0, &["openid"], Some(0), S),
            xcode(0, "code_fresh", S),
            json!({"op": "setexpire", "user": 0, "rel_ns": 10 * S, "dt_ns": S}),
            at(present("introspect", "access", 0), "acct_expire", 0),
            at(present("introspect", "access", 0), "acct_expire", 1),
            present("userinfo", "access", MS),
            xrefresh(0, "refresh_fresh", Json::Null, MS),
            json!({"op": "setexpire", "user": 0, "rel_ns": null, "dt_ns": S}),
            present("introspect", "access", MS),
            xrefresh(0, "refresh_fresh", Json::Null, MS),
        ]),
    ));
    out
}

fn gen_scenario(seed: u64, i: u64, boundary: bool) -> Json {
    let mut r = Rng::for_case(seed, i);
    let mut clients = std_clients();
    for c in clients.as_array_mut().unwrap() {
        c["refresh_expiry"] = match r.below(7) {
            0 => json!(60),
            1 => json!(600),
            2 => json!(900),
            3 => json!(901),
            4 => json!(3600),
            _ => Json::Null,
        };
        if c["basic"].as_bool() == Some(true) && r.chance(1, 3) {
            c["disable_pkce"] = json!(*r.pick(&[Some(true), Some(false), None]));
        }
    }
    let nclients = 3u64;
    let sess = |r: &mut Rng| if r.chance(1, 4) { json!({"exp": *r.pick(&[45i64, 90, 400, 1200])}) } else { json!({"exp": null}) };
    let users = json!([
        {"valid_from": if r.chance(1, 12) { json!(*r.pick(&[5i64, 15])) } else { Json::Null }, "expire": if r.chance(1, 8) { json!(*r.pick(&[100i64, 700, 2000])) } else { Json::Null },
         "sessions": [sess(&mut r), sess(&mut r), sess(&mut r)]},
        {"valid_from": null, "expire": null, "sessions": [sess(&mut r), sess(&mut r)]}
    ]);
    let dt = |r: &mut Rng| -> u64 {
        match r.below(10) {
            0 => 0,
            1 => r.range(1, 999) * MS,
            2 => S - 1,
            3 => S,
            4 => r.range(2, 30) * S,
            5 if boundary => r.range(50, 70) * S,
            6 if boundary => r.range(290, 310) * S,
            _ => r.range(1, 3000) * MS,
        }
    };
    let auth = |r: &mut Rng, k: u64| -> Json {
        match r.below(if boundary { 14 } else { 22 }) {
            0 => json!({"client": (k + 1 + r.below(2)) % nclients, "how": "right"}),
            1 => json!({"client": k, "how": "wrong_secret"}),
            2 => json!({"client": k, "how": *r.pick(&["nosecret", "none", "unknown", "upper"])}),
            3 => json!({"client": k, "how": "right", "via": "post"}),
            _ => json!({"client": k, "how": "right"}),
        }
    };
    let rel = |r: &mut Rng, op: Json, rels: &[&str]| -> Json {
        if r.chance(1, if boundary { 3 } else { 8 }) {
            let d = *r.pick(&[-(S as i64), -1, 0, 1, S as i64]);
            at(op, r.pick(rels), d)
        } else {
            op
        }
    };
    let mut ops: Vec<Json> = vec![];
    let mut pending_restore: Vec<(usize, Json)> = vec![];
    let episodes = r.range(5, 9);
    for _ in 0..episodes {
        // one grant: authorise, exchange (sometimes mutated, then usually properly), then use the tokens
        let k = r.below(nclients);
        let avail: Vec<String> = str_set(&clients[k as usize]["scopes"]).into_iter().collect();
        let mut sc: Vec<&str> = avail.iter().filter(|_| r.chance(3, 5)).map(|s| s.as_str()).collect();
        if sc.is_empty() {
            sc.push(avail[0].as_str());
        }
        let needs = clients[k as usize]["basic"].as_bool() != Some(true) || clients[k as usize]["disable_pkce"].as_bool() != Some(true);
        let pk = if needs || r.chance(1, 2) { Some(r.below(4)) } else { None };
        let u = r.below(2);
        let mut a = authz(k, u, r.below(3), &sc, pk, dt(&mut r));
        a["uri"] = json!(r.below(2));
        ops.push(a);
        let attempts = if r.chance(1, 3) { 2 } else { 1 };
        for n in 0..attempts {
            let mut x = xcode(k, "code_fresh", dt(&mut r));
            if n + 1 < attempts || r.chance(1, 4) {
                match r.below(4) {
                    0 => x["auth"] = auth(&mut r, k),
                    1 => x["uri"] = json!(*r.pick(&["other", "slash", "query", "http", "case", "stranger"])),
                    2 => x["verifier"] = json!(*r.pick(&["none", "wrong", "near", "stray"])),
                    _ => x["sel"] = json!({"kind": *r.pick(&["code_used", "code", "any", "garbage"]), "nth": r.below(3)}),
                }
            }
            ops.push(rel(&mut r, x, &["exp", "sess_exp", "acct_expire"]));
        }
        let follow = r.range(3, 9);
        for _ in 0..follow {
            match r.below(100) {
                0..=39 => {
                    let kind = *r.pick(&["refresh_fresh", "refresh_fresh", "refresh_fresh", "refresh_fresh", "refresh_rotated", "refresh_rotated", "refresh", "any", "garbage"]);
                    let scopes = match r.below(9) {
                        0 => json!("same"),
                        1 => json!("first"),
                        2 => json!("root"),
                        3 => json!("plus"),
                        4 => json!("empty"),
                        _ => Json::Null,
                    };
                    let mut x = xrefresh(k, kind, scopes, dt(&mut r));
                    x["extra"] = json!(*r.pick(&SCOPES));
                    x["sel"]["nth"] = json!(if r.chance(2, 3) { 0 } else { r.below(4) });
                    if r.chance(1, 14) {
                        x["sel"]["mut"] = json!(*r.pick(&["flip", "trunc"]));
                    }
                    x["auth"] = auth(&mut r, k);
                    ops.push(rel(&mut r, x, &["exp", "iat", "sess_exp", "acct_expire", "grace"]));
                }
                40..=64 => {
                    let which = *r.pick(&["introspect", "userinfo"]);
                    let mut x = present(which, *r.pick(&["access", "access", "access", "access", "any", "caccess", "refresh", "idtoken", "code"]), dt(&mut r));
                    x["sel"]["nth"] = json!(if r.chance(1, 2) { 0 } else { r.below(5) });
                    if which == "userinfo" && r.chance(1, 4) {
                        x["client"] = json!(r.below(nclients));
                    }
                    if r.chance(1, 15) {
                        x["sel"]["mut"] = json!("flip");
                    }
                    ops.push(rel(&mut r, x, &["exp", "grace", "sess_exp", "acct_expire"]));
                }
                65..=70 => {
                    let mut x = present("revoke", *r.pick(&["access", "refresh", "any", "caccess"]), dt(&mut r));
                    x["sel"]["nth"] = json!(r.below(3));
                    ops.push(rel(&mut r, x, &["exp"]));
                }
                71..=74 => ops.push(json!({"op": "sessrevoke", "user": r.below(2), "session": r.below(3), "dt_ns": dt(&mut r)})),
                75..=80 => {
                    let uu = r.below(2);
                    ops.push(json!({"op": "setexpire", "user": uu, "rel_ns": *r.pick(&[-1i64, 0, 1, S as i64, 30 * S as i64, 400 * S as i64]), "dt_ns": dt(&mut r)}));
                    if r.chance(2, 3) {
                        pending_restore.push((ops.len() + r.range(1, 5) as usize, json!({"op": "setexpire", "user": uu, "rel_ns": null, "dt_ns": S})));
                    }
                }
                81..=83 => {
                    let uu = r.below(2);
                    ops.push(json!({"op": "setvalidfrom", "user": uu, "rel_ns": *r.pick(&[-1i64, 0, 1, 20 * S as i64]), "dt_ns": dt(&mut r)}));
                    if r.chance(2, 3) {
                        pending_restore.push((ops.len() + r.range(1, 5) as usize, json!({"op": "setvalidfrom", "user": uu, "rel_ns": null, "dt_ns": S})));
                    }
                }
                84..=89 => ops.push(json!({"op": "touch", "user": r.below(2), "dt_ns": dt(&mut r)})),
                90..=94 => {
                    // an older code, at any client
                    let kk = r.below(nclients);
                    let mut x = xcode(kk, *r.pick(&["code_used", "code", "code_fresh"]), dt(&mut r));
                    x["sel"]["nth"] = json!(r.below(4));
                    ops.push(rel(&mut r, x, &["exp"]));
                }
                _ => {
                    let kk = r.below(nclients);
                    let scopes = match r.below(4) {
                        0 => Json::Null,
                        1 => json!(["svc"]),
                        2 => json!(["svc", "read"]),
                        _ => json!([]),
                    };
                    ops.push(json!({"op": "xcc", "auth": auth(&mut r, kk), "scopes": scopes, "dt_ns": dt(&mut r)}));
                }
            }
            let due: Vec<Json> = pending_restore.iter().filter(|(at, _)| *at <= ops.len()).map(|(_, o)| o.clone()).collect();
            pending_restore.retain(|(at, _)| *at > ops.len());
            ops.extend(due);
        }
    }
    json!({"clients": clients, "users": users, "ops": ops})
}

/// Shrink a failing scenario: drop ops while an oracle failure of the same class remains.
async fn shrink(sc: &Json, class: &str, drv: &mut Option<Driver>, rep: &mut Report) -> Json {
    let mut cur = sc["ops"].as_array().unwrap().clone();
    let mut chunk = cur.len().max(1) / 2;
    let mut budget = 80;
    while chunk >= 1 && budget > 0 {
        let mut i = 0;
        let mut progressed = false;
        while i + chunk <= cur.len() && budget > 0 {
            let mut cand = cur.clone();
            cand.drain(i..i + chunk);
            let mut s = sc.clone();
            s["ops"] = Json::Array(cand.clone());
            budget -= 1;
            let f = run_scenario(&s, drv.as_mut(), rep, false).await;
            if f.iter().any(|x| x.class == class) {
                cur = cand;
                progressed = true;
            } else {
                i += chunk;
            }
        }
        if !progressed {
            if chunk == 1 {
                break;
            }
            chunk /= 2;
        }
    }
    let mut s = sc.clone();
    s["ops"] = Json::Array(cur);
    s
}

fn main() {
    if std::env::var_os("RUST_LOG").is_none() {
        std::env::set_var("RUST_LOG", "off");
    }
    let args = Args::parse();
    let rt = tokio::runtime::Builder::new_current_thread().enable_all().build().unwrap();
    let mut rep = Report::new(
        "oauth2-token",
        "scripted corpus + random histories on a real IdmServer; a case = one token-endpoint, introspection or userinfo op; \
         non-trivial = the presented token is of the kind the endpoint redeems and the presenter names a registered client \
         (exchange / refresh), or any server-issued token (introspect / userinfo); distinct = distinct (model line, outcome)",
    );
    let mut drv: Option<Driver> = if std::env::var_os("C39_NOMODEL").is_some() { None } else { Some(Driver::spawn(&args.driver)) };
    rt.block_on(async {
        if let Some(path) = &args.replay {
            let v: Json = serde_json::from_str(&std::fs::read_to_string(path).unwrap()).unwrap();
            let sc = if v["input"].is_object() { v["input"].clone() } else { v.clone() };
            if !sc["ops"].is_array() {
                return;
            }
            let fails = run_scenario(&sc, drv.as_mut(), &mut rep, true).await;
            for f in fails {
                rep.fail(f);
            }
            return;
        }
        let mut scenarios: Vec<(String, Json)> = corpus();
        if let Some(only) = std::env::var_os("C39_ONLY") {
            let only = only.to_string_lossy().to_string();
            scenarios.retain(|(n, _)| *n == only);
        } else {
            let n = args.cases(12, 240);
            for i in 0..n {
                scenarios.push((format!("random{i}"), gen_scenario(args.seed, i, args.budget > 1 || i % 3 == 2)));
            }
        }
        let mut seen: BTreeSet<String> = BTreeSet::new();
        for (name, sc) in scenarios {
            let fails = run_scenario(&sc, drv.as_mut(), &mut rep, true).await;
            let mut stop = false;
            for first in fails {
                if !seen.insert(first.class.clone()) {
                    continue;
                }
                rep.note(format!("oracle failure {} in scenario {name}", first.class));
                if is_finding(&first.class) && !name.starts_with("random") {
                    // the scripted witness of a recorded finding: already minimal
                    rep.fail(first);
                    continue;
                }
                // anything else: shrink, report, stop searching
                let small = shrink(&first.input, &first.class, &mut drv, &mut rep).await;
                let again = run_scenario(&small, drv.as_mut(), &mut rep, false).await;
                let f = again.into_iter().find(|x| x.class == first.class).unwrap_or_else(|| first.clone());
                stop = stop || !is_finding(&f.class);
                rep.fail(f);
            }
            if stop {
                break;
            }
        }
    });
    rep.model_requests = drv.as_ref().map(|d| d.requests).unwrap_or(0);
    rep.write(&args.out);
    println!("c39: {} cases, {} distinct non-trivial, {} failures", rep.evaluations, rep.nontrivial_keys.len(), rep.failures.len());
}
