//! C24 — writes need matching grants; protected objects stay protected. Stream `access-write`.
//!
//! A real, migrated in-memory server per *world*: the builtin access control profiles are deleted
//! and replaced by a random set of modify / create / delete profiles stored as real ACP entries
//! (so the ACP parser and the reload path run), random groups and memberships, users, and target
//! entries of every kind (plain, entry-managed, builtin, system-protected, dyngroup, synced,
//! recycled, tombstone). Per case one operation is evaluated twice on the real code:
//!   * decision level: `modify_allow_operation` / `batch_modify_allow_operation` /
//!     `create_allow_operation` / `delete_allow_operation` of the server's `AccessControls`
//!   * operation level: `QueryServerWriteTransaction::{modify, create, delete, revive_recycled}` in a
//!     write transaction that is dropped afterwards (the world never changes)
//! and both answers are compared with the Lean model (`km_c24`: `mod/bat/cre/del` and
//! `modop/creop/delop/revop`).
//!
//! Independent oracle (from the property text only; own filter evaluator over the harness's own
//! description of the profiles — it never asks the model): whenever the real code allows a
//! user/sync identity, the identity is a read-write user, every added/removed attribute and class is
//! granted by an enabled profile whose receiver matches the user and whose target matches the
//! entry, no protected class is added or removed (except `recycled`), the entry is no tombstone,
//! `class` is not purged, a deleted entry is neither builtin nor protected; after a successful
//! operation the stored entry's protected classes are unchanged (revive: exactly `recycled` gone).
use hlib::*;
use kanidm_proto::internal::Filter as ProtoFilter;
use kanidmd_lib::entry::{Entry, EntryCommitted, EntryInit, EntryNew, EntrySealed};
use kanidmd_lib::event::ReviveRecycledEvent;
use kanidmd_lib::filter::{f_and, f_andnot, f_eq, f_or, f_pres, f_self, Filter, FilterInvalid, FC};
use kanidmd_lib::modify::{Modify, ModifyInvalid, ModifyList};
use kanidmd_lib::prelude::*;
use kanidmd_lib::server::identity::{AccessScope, IdentType, InternalRole};
use kanidmd_lib::testkit::{setup_test, TestConfiguration};
use kanidmd_lib::valueset;
use serde_json::{json, Value as J};
use std::collections::{BTreeMap, BTreeSet};
use std::sync::Arc;

type Sealed = Entry<EntrySealed, EntryCommitted>;
type NewE = Entry<EntryInit, EntryNew>;

const DAY: u64 = 86_400;

// ---------------------------------------------------------------------------------------------
// atoms
// ---------------------------------------------------------------------------------------------

struct Names {
    cls: BTreeMap<String, u64>,
    attr: BTreeMap<String, u64>,
}

impl Names {
    fn from_driver(d: &mut Driver) -> Names {
        let r = d.ask("tables");
        let mut cls = BTreeMap::new();
        let mut attr = BTreeMap::new();
        for part in r.split(';') {
            let (k, v) = part.split_once('=').expect("tables reply");
            let m = if k == "classes" { &mut cls } else { &mut attr };
            for (i, n) in v.split(',').enumerate() {
                m.insert(n.to_string(), i as u64);
            }
        }
        assert!(cls.len() > 40 && attr.len() > 100, "tables reply too small: {r}");
        Names { cls, attr }
    }
    fn c(&mut self, n: &str) -> u64 {
        let next = 1000 + self.cls.len() as u64;
        *self.cls.entry(n.to_string()).or_insert(next)
    }
    fn a(&mut self, n: &str) -> u64 {
        let next = 1000 + self.attr.len() as u64;
        *self.attr.entry(n.to_string()).or_insert(next)
    }
}

fn list<T: ToString>(xs: impl IntoIterator<Item = T>) -> String {
    let v: Vec<String> = xs.into_iter().map(|x| x.to_string()).collect();
    if v.is_empty() {
        "-".into()
    } else {
        v.join(",")
    }
}

fn sval(s: &str) -> String {
    format!("s{}", s.chars().map(|c| (c as u32).to_string()).collect::<Vec<_>>().join("."))
}

// ---------------------------------------------------------------------------------------------
// the harness's own description of filters, profiles, identities
// ---------------------------------------------------------------------------------------------

#[derive(Clone, Debug)]
enum Flt {
    EqClass(String),
    EqName(String),
    EqUuid(Uuid),
    EqMemberOf(Uuid),
    Pres(String),
    SelfUuid,
    And(Vec<Flt>),
    Or(Vec<Flt>),
    AndNot(Box<Flt>),
}

impl Flt {
    fn proto(&self) -> ProtoFilter {
        match self {
            Flt::EqClass(c) => ProtoFilter::Eq("class".into(), c.clone()),
            Flt::EqName(n) => ProtoFilter::Eq("name".into(), n.clone()),
            Flt::EqUuid(u) => ProtoFilter::Eq("uuid".into(), u.to_string()),
            Flt::EqMemberOf(u) => ProtoFilter::Eq("memberof".into(), u.to_string()),
            Flt::Pres(a) => ProtoFilter::Pres(a.clone()),
            Flt::SelfUuid => ProtoFilter::SelfUuid,
            Flt::And(l) => ProtoFilter::And(l.iter().map(|f| f.proto()).collect()),
            Flt::Or(l) => ProtoFilter::Or(l.iter().map(|f| f.proto()).collect()),
            Flt::AndNot(f) => ProtoFilter::AndNot(Box::new(f.proto())),
        }
    }
    fn sexp(&self, n: &mut Names) -> String {
        match self {
            Flt::EqClass(c) => format!("(eq {} s{})", n.a("class"), n.c(c)),
            Flt::EqName(s) => format!("(eq {} {})", n.a("name"), sval(s)),
            Flt::EqUuid(u) => format!("(eq {} n{})", n.a("uuid"), u.as_u128()),
            Flt::EqMemberOf(u) => format!("(eq {} n{})", n.a("memberof"), u.as_u128()),
            Flt::Pres(a) => format!("(pres {})", n.a(a)),
            Flt::SelfUuid => "(self)".into(),
            Flt::And(l) => format!("(and {})", l.iter().map(|f| f.sexp(n)).collect::<Vec<_>>().join(" ")),
            Flt::Or(l) => format!("(or {})", l.iter().map(|f| f.sexp(n)).collect::<Vec<_>>().join(" ")),
            Flt::AndNot(f) => format!("(not {})", f.sexp(n)),
        }
    }
    /// The oracle's own reading of a target filter on an entry view.
    fn holds(&self, v: &View, self_uuid: Uuid) -> bool {
        match self {
            Flt::EqClass(c) => v.classes.contains(c),
            Flt::EqName(s) => v.name.as_deref() == Some(s.as_str()),
            Flt::EqUuid(u) => v.uuid == Some(*u),
            Flt::EqMemberOf(u) => v.memberof.contains(u),
            Flt::Pres(a) => v.attrs.contains(a),
            Flt::SelfUuid => v.uuid == Some(self_uuid),
            Flt::And(l) => l.iter().all(|f| f.holds(v, self_uuid)),
            Flt::Or(l) => l.iter().any(|f| f.holds(v, self_uuid)),
            Flt::AndNot(f) => !f.holds(v, self_uuid),
        }
    }
}

#[derive(Clone, Debug, PartialEq)]
enum Recv {
    None,
    Groups(Vec<Uuid>),
    EntryManager,
}

#[derive(Clone, Debug, PartialEq)]
enum Kind {
    Modify,
    Create,
    Delete,
}

#[derive(Clone, Debug)]
struct AcpSpec {
    kind: Kind,
    name: String,
    uuid: Uuid,
    enabled: bool,
    recv: Recv,
    target: Option<Flt>,
    pres: Vec<String>,
    rem: Vec<String>,
    legacy_cls: Vec<String>,
    pres_cls: Vec<String>,
    rem_cls: Vec<String>,
    c_attrs: Vec<String>,
    c_classes: Vec<String>,
}

impl AcpSpec {
    /// `acp_modify_present_class` if present, else the legacy `acp_modify_class`.
    fn eff_pres_cls(&self) -> &Vec<String> {
        if self.pres_cls.is_empty() {
            &self.legacy_cls
        } else {
            &self.pres_cls
        }
    }
    fn eff_rem_cls(&self) -> &Vec<String> {
        if self.rem_cls.is_empty() {
            &self.legacy_cls
        } else {
            &self.rem_cls
        }
    }
    fn entry(&self) -> NewE {
        let mut e: NewE = Entry::new();
        e.add_ava(Attribute::Class, EntryClass::Object.to_value());
        e.add_ava(Attribute::Class, EntryClass::AccessControlProfile.to_value());
        e.add_ava(
            Attribute::Class,
            match self.kind {
                Kind::Modify => EntryClass::AccessControlModify,
                Kind::Create => EntryClass::AccessControlCreate,
                Kind::Delete => EntryClass::AccessControlDelete,
            }
            .to_value(),
        );
        e.add_ava(Attribute::Name, Value::new_iname(&self.name));
        e.add_ava(Attribute::Uuid, Value::Uuid(self.uuid));
        e.add_ava(Attribute::Description, Value::new_utf8s(&self.name));
        if !self.enabled {
            e.add_ava(Attribute::AcpEnable, Value::Bool(false));
        }
        match &self.recv {
            Recv::None => {}
            Recv::Groups(gs) => {
                e.add_ava(Attribute::Class, EntryClass::AccessControlReceiverGroup.to_value());
                for g in gs {
                    e.add_ava(Attribute::AcpReceiverGroup, Value::Refer(*g));
                }
            }
            Recv::EntryManager => {
                e.add_ava(Attribute::Class, EntryClass::AccessControlReceiverEntryManager.to_value());
            }
        }
        if let Some(t) = &self.target {
            e.add_ava(Attribute::Class, EntryClass::AccessControlTargetScope.to_value());
            e.add_ava(Attribute::AcpTargetScope, Value::JsonFilt(t.proto()));
        }
        for a in &self.pres {
            e.add_ava(Attribute::AcpModifyPresentAttr, Value::new_iutf8(a));
        }
        for a in &self.rem {
            e.add_ava(Attribute::AcpModifyRemovedAttr, Value::new_iutf8(a));
        }
        for a in &self.legacy_cls {
            e.add_ava(Attribute::AcpModifyClass, Value::new_iutf8(a));
        }
        for a in &self.pres_cls {
            e.add_ava(Attribute::AcpModifyPresentClass, Value::new_iutf8(a));
        }
        for a in &self.rem_cls {
            e.add_ava(Attribute::AcpModifyRemoveClass, Value::new_iutf8(a));
        }
        for a in &self.c_attrs {
            e.add_ava(Attribute::AcpCreateAttr, Value::new_iutf8(a));
        }
        for a in &self.c_classes {
            e.add_ava(Attribute::AcpCreateClass, Value::new_iutf8(a));
        }
        e
    }
    fn recv_txt(&self) -> String {
        match &self.recv {
            Recv::None => "N".into(),
            Recv::EntryManager => "M".into(),
            Recv::Groups(gs) => {
                // a BTreeSet on the server: duplicates collapse
                let s: BTreeSet<u128> = gs.iter().map(|g| g.as_u128()).collect();
                format!("G:{}", list(s))
            }
        }
    }
    fn target_txt(&self, n: &mut Names) -> String {
        match &self.target {
            None => "!".into(),
            Some(f) => f.sexp(n),
        }
    }
    fn model_txt(&self, n: &mut Names) -> String {
        let al = |n: &mut Names, xs: &Vec<String>| list(xs.iter().map(|x| n.a(x)).collect::<Vec<_>>());
        let cl = |n: &mut Names, xs: &Vec<String>| list(xs.iter().map(|x| n.c(x)).collect::<Vec<_>>());
        match self.kind {
            Kind::Modify => format!(
                "{}~{}~{}~{}~{}~{}",
                self.recv_txt(),
                self.target_txt(n),
                al(n, &self.pres),
                al(n, &self.rem),
                cl(n, self.eff_pres_cls()),
                cl(n, self.eff_rem_cls())
            ),
            Kind::Create => format!(
                "{}~{}~{}~{}",
                self.recv_txt(),
                self.target_txt(n),
                al(n, &self.c_attrs),
                cl(n, &self.c_classes)
            ),
            Kind::Delete => format!("{}~{}", self.recv_txt(), self.target_txt(n)),
        }
    }
    /// Oracle: does this profile's receiver match the user and its target the entry?
    fn matches(&self, user: &UserView, v: &View) -> bool {
        if !self.enabled {
            return false;
        }
        let r = match &self.recv {
            Recv::None => false,
            Recv::Groups(gs) => gs.iter().any(|g| user.memberof.contains(g)),
            Recv::EntryManager => match &v.managed_by {
                None => false,
                Some(ms) => ms.contains(&user.uuid) || ms.iter().any(|m| user.memberof.contains(m)),
            },
        };
        r && match &self.target {
            None => false,
            Some(f) => f.holds(v, user.uuid),
        }
    }
}

/// What the oracle knows about an entry (read through public getters / the create request).
#[derive(Clone, Debug, Default)]
struct View {
    uuid: Option<Uuid>,
    classes: BTreeSet<String>,
    name: Option<String>,
    memberof: BTreeSet<Uuid>,
    managed_by: Option<BTreeSet<Uuid>>,
    attrs: BTreeSet<String>,
}

#[derive(Clone, Debug)]
struct UserView {
    uuid: Uuid,
    memberof: BTreeSet<Uuid>,
}

fn view_of(e: &Sealed) -> View {
    View {
        uuid: Some(e.get_uuid()),
        classes: e.get_ava_as_iutf8(Attribute::Class).cloned().unwrap_or_default(),
        name: e
            .get_ava_set(Attribute::Name)
            .and_then(|vs| vs.to_proto_string_clone_iter().next()),
        memberof: e.get_ava_refer(Attribute::MemberOf).cloned().unwrap_or_default(),
        managed_by: e.get_ava_refer(Attribute::EntryManagedBy).cloned(),
        attrs: e.get_ava_names().map(|s| s.to_string()).collect(),
    }
}

const PROTECTED: [&str; 8] = [
    "system",
    "domain_info",
    "system_info",
    "system_config",
    "dyngroup",
    "sync_object",
    "tombstone",
    "recycled",
];
/// 00000000-0000-0000-0000-ffffffffffff: everything at or below is builtin
const ANON: u128 = 0xffff_ffff_ffff;

#[derive(Clone, Debug)]
enum IdentSpec {
    User(usize, u8),
    Synch(u64, u8),
    Internal(u8, u8),
}

fn scope_of(s: u8) -> AccessScope {
    match s {
        0 => AccessScope::ReadOnly,
        1 => AccessScope::ReadWrite,
        _ => AccessScope::Synchronise,
    }
}

include!("../bin_c24/world.rs");
include!("../bin_c24/ops.rs");
