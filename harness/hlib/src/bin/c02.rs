//! C02 — filter rewriting preserves meaning: correspondence + oracles on the real code.
//!
//! Every case is a filter tree `T` over a small alphabet (4 real attributes of 4 syntaxes, a few
//! values each), a construction route (`fc`: `Filter::new(FC)`; `scim`: `Filter::from_scim_ro`,
//! the production source of `Stw`/`Enw`) and a resolution mode (no index metadata → `resolve_no_idx`
//! + `fast_optimise`; an `IdxMeta` layout → `resolve_idx` + `optimise`). The real pipeline
//! `validate → resolve` yields the rewritten filter R. The *un-rewritten* resolved filter O is
//! obtained from the real code too: `resolve(AndNot(T))` — `optimise`/`fast_optimise` leave a
//! top-level `AndNot` untouched — and the harness checks that O is `T` verbatim.
//!
//! Per case:
//!   model  : `res`  Lean `resolveIdx/resolveNoIdx T`            == O           (exact, with slopes)
//!            `opt`  Lean `optimise/fastOptimise O`              == R           (exact, or equal up
//!                   to the order of `cmp`-ties — the freedom of `sort_unstable`)
//!            `cert` Lean `isOptimiseOf O R`                     accepted       (proved sound)
//!            `mm`   Lean `matches` of O and of R on every entry == real `entry_match_no_index`
//!   oracle1: real `entry_match_no_index(R, e)` == !real `entry_match_no_index(AndNot(O), e)`
//!   oracle2: real `entry_match_no_index(R, e)` == a plain evaluator of `T` written in this file
//!            for every entry e of the universe (all value subsets of the attributes involved).
use hlib::*;
use kanidm_proto::scim_v1::{AttrPath, ScimFilter};
use kanidmd_lib::be::IdxMeta;
use kanidmd_lib::entry::{Entry, EntryInit, EntryNew};
use kanidmd_lib::filter::{FilterResolved, FilterValidResolved};
use kanidmd_lib::prelude::*;
use kanidmd_lib::testkit::{setup_test, TestConfiguration};
use kanidmd_lib::verif_hooks::c02::idxmeta;
use serde_json::{json, Value as Json};
use std::collections::BTreeSet;

// ---------------------------------------------------------------------------------------------
// the small alphabet

#[derive(Clone, Debug, PartialEq, Eq, Hash, PartialOrd, Ord)]
enum V {
    S(Vec<u8>),
    N(u64),
}

#[derive(Clone, Debug, PartialEq, Eq, Hash)]
enum T {
    Eq(usize, V),
    Cnt(usize, V),
    Stw(usize, V),
    Enw(usize, V),
    Pres(usize),
    Lt(usize, V),
    Or(Vec<T>),
    And(Vec<T>),
    Inc(Vec<T>),
    Not(Box<T>),
    SelfU,
    Inv(usize),
}

#[derive(Clone, Copy, PartialEq, Debug)]
enum AK {
    Iutf8,
    Iname,
    U32,
    Uuid,
}

struct World {
    attrs: Vec<Attribute>,
    kinds: Vec<AK>,
    uuids: Vec<Uuid>,
    self_n: u64,
    uuid_a: usize,
    name_a: usize,
    /// the two values an entry may hold per attribute
    evals: Vec<[V; 2]>,
}

fn str_of(s: &[u8]) -> String {
    s.iter().map(|b| (b'a' + *b) as char).collect()
}
fn bytes_of(s: &str) -> Vec<u8> {
    s.bytes().map(|b| b - b'a').collect()
}

impl World {
    fn new(self_uuid: Uuid) -> World {
        let mut av = vec![
            (Attribute::Class, AK::Iutf8),
            (Attribute::Name, AK::Iname),
            (Attribute::GidNumber, AK::U32),
            (Attribute::Uuid, AK::Uuid),
        ];
        // atoms follow the real `Ord` of `Attribute`, so that the model's `cmp` sees the same order
        av.sort_by(|a, b| a.0.cmp(&b.0));
        let mut uuids = vec![UUID_ADMIN, UUID_IDM_ADMIN, UUID_ANONYMOUS];
        if !uuids.contains(&self_uuid) {
            uuids.push(self_uuid);
        }
        uuids.sort();
        let self_n = uuids.iter().position(|u| *u == self_uuid).unwrap() as u64;
        let attrs: Vec<Attribute> = av.iter().map(|x| x.0.clone()).collect();
        let kinds: Vec<AK> = av.iter().map(|x| x.1).collect();
        let uuid_a = attrs.iter().position(|a| *a == Attribute::Uuid).unwrap();
        let name_a = attrs.iter().position(|a| *a == Attribute::Name).unwrap();
        let evals = kinds
            .iter()
            .map(|k| match k {
                AK::Iutf8 => [V::S(vec![0, 1]), V::S(vec![1])],
                AK::Iname => [V::S(vec![1, 0]), V::S(vec![0])],
                AK::U32 => [V::N(2), V::N(4)],
                AK::Uuid => [V::N(self_n), V::N((uuids.len() - 1) as u64)],
            })
            .collect();
        World { attrs, kinds, uuids, self_n, uuid_a, name_a, evals }
    }
    /// well-typed partial value, `None` if `v` is of the wrong family for the attribute
    fn pv(&self, a: usize, v: &V) -> Option<PartialValue> {
        match (self.kinds[a], v) {
            (AK::Iutf8, V::S(s)) => Some(PartialValue::new_iutf8(&str_of(s))),
            (AK::Iname, V::S(s)) => Some(PartialValue::new_iname(&str_of(s))),
            (AK::U32, V::N(n)) => Some(PartialValue::Uint32(*n as u32)),
            (AK::Uuid, V::N(n)) => self.uuids.get(*n as usize).map(|u| PartialValue::Uuid(*u)),
            _ => None,
        }
    }
    /// deliberately ill-typed value (malformed stream)
    fn pv_wrong(&self, a: usize) -> PartialValue {
        match self.kinds[a] {
            AK::Iutf8 | AK::Iname => PartialValue::Uint32(7),
            AK::U32 | AK::Uuid => PartialValue::new_iutf8("a"),
        }
    }
    fn value(&self, a: usize, v: &V) -> Value {
        match (self.kinds[a], v) {
            (AK::Iutf8, V::S(s)) => Value::new_iutf8(&str_of(s)),
            (AK::Iname, V::S(s)) => Value::new_iname(&str_of(s)),
            (AK::U32, V::N(n)) => Value::Uint32(*n as u32),
            (AK::Uuid, V::N(n)) => Value::Uuid(self.uuids[*n as usize]),
            _ => panic!("ill-typed entry value"),
        }
    }
    fn atom(&self, a: &Attribute) -> usize {
        self.attrs.iter().position(|x| x == a).unwrap_or(99)
    }
    fn back(&self, pv: &PartialValue) -> V {
        match pv {
            PartialValue::Iutf8(s) | PartialValue::Iname(s) | PartialValue::Utf8(s) => V::S(bytes_of(s)),
            PartialValue::Uint32(n) => V::N(*n as u64),
            PartialValue::Uuid(u) => V::N(self.uuids.iter().position(|x| x == u).map(|p| p as u64).unwrap_or(999)),
            _ => V::N(998),
        }
    }
}

fn show_v(v: &V) -> String {
    match v {
        V::S(s) => format!("s{}", s.iter().map(|b| b.to_string()).collect::<Vec<_>>().join(".")),
        V::N(n) => format!("n{n}"),
    }
}

// ---------------------------------------------------------------------------------------------
// T: text form (FC s-expression of the Lean driver), parser (replay), accessors

fn show_t(t: &T) -> String {
    match t {
        T::Eq(a, v) => format!("(eq {a} {})", show_v(v)),
        T::Cnt(a, v) => format!("(cnt {a} {})", show_v(v)),
        T::Stw(a, v) => format!("(stw {a} {})", show_v(v)),
        T::Enw(a, v) => format!("(enw {a} {})", show_v(v)),
        T::Pres(a) => format!("(pres {a})"),
        T::Lt(a, v) => format!("(lt {a} {})", show_v(v)),
        T::Or(l) => format!("(or{})", l.iter().map(|x| format!(" {}", show_t(x))).collect::<String>()),
        T::And(l) => format!("(and{})", l.iter().map(|x| format!(" {}", show_t(x))).collect::<String>()),
        T::Inc(l) => format!("(inc{})", l.iter().map(|x| format!(" {}", show_t(x))).collect::<String>()),
        T::Not(f) => format!("(not {})", show_t(f)),
        T::SelfU => "(self)".into(),
        T::Inv(a) => format!("(inv {a})"),
    }
}

/// `T` with `SelfUuid` spelled out — what the un-rewritten resolved filter must look like
fn show_t_resolved(t: &T, w: &World) -> String {
    match t {
        T::SelfU => format!("(eq {} n{})", w.uuid_a, w.self_n),
        T::Or(l) => format!("(or{})", l.iter().map(|x| format!(" {}", show_t_resolved(x, w))).collect::<String>()),
        T::And(l) => format!("(and{})", l.iter().map(|x| format!(" {}", show_t_resolved(x, w))).collect::<String>()),
        T::Inc(l) => format!("(inc{})", l.iter().map(|x| format!(" {}", show_t_resolved(x, w))).collect::<String>()),
        T::Not(f) => format!("(not {})", show_t_resolved(f, w)),
        other => show_t(other),
    }
}

fn parse_v(s: &str) -> V {
    if let Some(r) = s.strip_prefix('n') {
        V::N(r.parse().unwrap())
    } else {
        let r = &s[1..];
        V::S(if r.is_empty() { vec![] } else { r.split('.').map(|x| x.parse().unwrap()).collect() })
    }
}

fn parse_t(s: &str) -> T {
    let toks: Vec<String> = s.replace('(', " ( ").replace(')', " ) ").split_whitespace().map(|x| x.to_string()).collect();
    fn go(toks: &[String], i: &mut usize) -> T {
        assert_eq!(toks[*i], "(");
        *i += 1;
        let head = toks[*i].clone();
        *i += 1;
        let t = match head.as_str() {
            "or" | "and" | "inc" => {
                let mut l = vec![];
                while toks[*i] != ")" {
                    l.push(go(toks, i));
                }
                match head.as_str() {
                    "or" => T::Or(l),
                    "and" => T::And(l),
                    _ => T::Inc(l),
                }
            }
            "not" => T::Not(Box::new(go(toks, i))),
            "self" => T::SelfU,
            "pres" | "inv" => {
                let a: usize = toks[*i].parse().unwrap();
                *i += 1;
                if head == "pres" { T::Pres(a) } else { T::Inv(a) }
            }
            _ => {
                let a: usize = toks[*i].parse().unwrap();
                let v = parse_v(&toks[*i + 1]);
                *i += 2;
                match head.as_str() {
                    "eq" => T::Eq(a, v),
                    "cnt" => T::Cnt(a, v),
                    "stw" => T::Stw(a, v),
                    "enw" => T::Enw(a, v),
                    "lt" => T::Lt(a, v),
                    h => panic!("bad head {h}"),
                }
            }
        };
        assert_eq!(toks[*i], ")");
        *i += 1;
        t
    }
    let mut i = 0;
    go(&toks, &mut i)
}

fn attrs_of(t: &T, w: &World, out: &mut BTreeSet<usize>) {
    match t {
        T::Eq(a, _) | T::Cnt(a, _) | T::Stw(a, _) | T::Enw(a, _) | T::Pres(a) | T::Lt(a, _) | T::Inv(a) => {
            out.insert(*a);
        }
        T::Or(l) | T::And(l) | T::Inc(l) => l.iter().for_each(|x| attrs_of(x, w, out)),
        T::Not(f) => attrs_of(f, w, out),
        T::SelfU => {
            out.insert(w.uuid_a);
        }
    }
}

fn conn_kinds(t: &T, out: &mut BTreeSet<&'static str>) {
    match t {
        T::Or(l) => { out.insert("or"); l.iter().for_each(|x| conn_kinds(x, out)); }
        T::And(l) => { out.insert("and"); l.iter().for_each(|x| conn_kinds(x, out)); }
        T::Inc(l) => { out.insert("inc"); l.iter().for_each(|x| conn_kinds(x, out)); }
        T::Not(f) => { out.insert("not"); conn_kinds(f, out); }
        _ => {}
    }
}

fn depth(t: &T) -> usize {
    match t {
        T::Or(l) | T::And(l) | T::Inc(l) => 1 + l.iter().map(depth).max().unwrap_or(0),
        T::Not(f) => 1 + depth(f),
        _ => 1,
    }
}

// ---------------------------------------------------------------------------------------------
// routes into the real code

fn to_fc(t: &T, w: &World) -> Option<FC> {
    Some(match t {
        T::Eq(a, v) => FC::Eq(w.attrs[*a].clone(), w.pv(*a, v)?),
        T::Cnt(a, v) => FC::Cnt(w.attrs[*a].clone(), w.pv(*a, v)?),
        T::Stw(..) | T::Enw(..) => return None,
        T::Pres(a) => FC::Pres(w.attrs[*a].clone()),
        T::Lt(a, v) => FC::LessThan(w.attrs[*a].clone(), w.pv(*a, v)?),
        T::Or(l) => FC::Or(l.iter().map(|x| to_fc(x, w)).collect::<Option<Vec<_>>>()?),
        T::And(l) => FC::And(l.iter().map(|x| to_fc(x, w)).collect::<Option<Vec<_>>>()?),
        T::Inc(l) => FC::Inclusion(l.iter().map(|x| to_fc(x, w)).collect::<Option<Vec<_>>>()?),
        T::Not(f) => FC::AndNot(Box::new(to_fc(f, w)?)),
        T::SelfU => FC::SelfUuid,
        T::Inv(a) => FC::Invalid(w.attrs[*a].clone()),
    })
}

fn to_scim(t: &T, w: &World) -> Option<ScimFilter> {
    let path = |a: &usize| AttrPath { a: w.attrs[*a].clone(), s: None };
    let sv = |a: &usize, v: &V| -> Option<Json> {
        match (w.kinds[*a], v) {
            (AK::Iutf8, V::S(s)) | (AK::Iname, V::S(s)) => Some(json!(str_of(s))),
            _ => None,
        }
    };
    Some(match t {
        T::Eq(a, v) => ScimFilter::Equal(path(a), sv(a, v)?),
        T::Cnt(a, v) => ScimFilter::Contains(path(a), sv(a, v)?),
        T::Stw(a, v) => ScimFilter::StartsWith(path(a), sv(a, v)?),
        T::Enw(a, v) => ScimFilter::EndsWith(path(a), sv(a, v)?),
        T::Lt(a, v) => ScimFilter::Less(path(a), sv(a, v)?),
        T::Pres(a) => ScimFilter::Present(path(a)),
        T::Or(l) if l.len() == 2 => ScimFilter::Or(Box::new(to_scim(&l[0], w)?), Box::new(to_scim(&l[1], w)?)),
        T::And(l) if l.len() == 2 => ScimFilter::And(Box::new(to_scim(&l[0], w)?), Box::new(to_scim(&l[1], w)?)),
        T::Not(f) => ScimFilter::Not(Box::new(to_scim(f, w)?)),
        _ => return None,
    })
}

fn slope_s(s: &Option<std::num::NonZeroU8>) -> String {
    match s {
        Some(n) => n.get().to_string(),
        None => "-".into(),
    }
}

/// F s-expression of the Lean driver; `slopes = false` gives the FC-shaped text (shape check)
fn show_fr(f: &FilterResolved, w: &World, slopes: bool) -> String {
    let sl = |s: &Option<std::num::NonZeroU8>| if slopes { format!(" {}", slope_s(s)) } else { String::new() };
    let lst = |l: &Vec<FilterResolved>| l.iter().map(|x| format!(" {}", show_fr(x, w, slopes))).collect::<String>();
    match f {
        FilterResolved::Eq(a, v, s) => format!("(eq {} {}{})", w.atom(a), show_v(&w.back(v)), sl(s)),
        FilterResolved::Cnt(a, v, s) => format!("(cnt {} {}{})", w.atom(a), show_v(&w.back(v)), sl(s)),
        FilterResolved::Stw(a, v, s) => format!("(stw {} {}{})", w.atom(a), show_v(&w.back(v)), sl(s)),
        FilterResolved::Enw(a, v, s) => format!("(enw {} {}{})", w.atom(a), show_v(&w.back(v)), sl(s)),
        FilterResolved::Pres(a, s) => format!("(pres {}{})", w.atom(a), sl(s)),
        FilterResolved::LessThan(a, v, s) => format!("(lt {} {}{})", w.atom(a), show_v(&w.back(v)), sl(s)),
        FilterResolved::Or(l, s) => format!("(or{}{})", sl(s), lst(l)),
        FilterResolved::And(l, s) => format!("(and{}{})", sl(s), lst(l)),
        FilterResolved::Invalid(a) => format!("(inv {})", w.atom(a)),
        FilterResolved::Inclusion(l, s) => format!("(inc{}{})", sl(s), lst(l)),
        FilterResolved::AndNot(f, s) => format!("(not{} {})", sl(s), show_fr(f, w, slopes)),
    }
}

// ---------------------------------------------------------------------------------------------
// oracle 2: what a filter means on an entry, from the property text only

type PlainEntry = Vec<Vec<V>>; // attribute atom -> values

fn has_sub(x: &[u8], n: &[u8]) -> bool {
    n.is_empty() || x.windows(n.len()).any(|w| w == n)
}

fn plain(t: &T, e: &PlainEntry, w: &World) -> bool {
    let strs = |a: &usize, v: &V, p: &dyn Fn(&[u8], &[u8]) -> bool| match v {
        V::S(n) => e[*a].iter().any(|x| matches!(x, V::S(x) if p(x, n))),
        _ => false,
    };
    match t {
        T::Eq(a, v) => e[*a].contains(v),
        T::Cnt(a, v) => strs(a, v, &|x, n| has_sub(x, n)),
        T::Stw(a, v) => strs(a, v, &|x, n| x.starts_with(n)),
        T::Enw(a, v) => strs(a, v, &|x, n| x.ends_with(n)),
        T::Pres(a) => !e[*a].is_empty(),
        T::Lt(a, v) => match v {
            V::N(b) => e[*a].iter().any(|x| matches!(x, V::N(x) if x < b)),
            _ => false,
        },
        T::Or(l) => l.iter().any(|x| plain(x, e, w)),
        T::And(l) => l.iter().all(|x| plain(x, e, w)),
        // an inclusion only has a meaning for `exists` over a database; on one entry it is false
        T::Inc(_) => false,
        T::Not(f) => !plain(f, e, w),
        T::SelfU => e[w.uuid_a].contains(&V::N(w.self_n)),
        T::Inv(_) => false,
    }
}

// ---------------------------------------------------------------------------------------------
// entry universe: every entry over the alphabet = every subset of the two values per attribute

struct Universe {
    real: Vec<Entry<EntryInit, EntryNew>>, // 256, index = 2 bits per attribute
    plain: Vec<PlainEntry>,
    text: Vec<String>,
}

impl Universe {
    fn new(w: &World) -> Universe {
        let mut u = Universe { real: vec![], plain: vec![], text: vec![] };
        for idx in 0..256usize {
            let mut e: Entry<EntryInit, EntryNew> = Entry::new();
            let mut p: PlainEntry = vec![vec![]; 4];
            let mut parts = vec![];
            for a in 0..4 {
                let bits = (idx >> (2 * a)) & 3;
                let mut vs = vec![];
                for k in 0..2 {
                    if bits & (1 << k) != 0 {
                        let v = w.evals[a][k].clone();
                        e.add_ava(w.attrs[a].clone(), w.value(a, &v));
                        vs.push(v);
                    }
                }
                if !vs.is_empty() {
                    parts.push(format!("{a}={}", vs.iter().map(show_v).collect::<Vec<_>>().join("+")));
                }
                p[a] = vs;
            }
            u.real.push(e);
            u.plain.push(p);
            u.text.push(if parts.is_empty() { "-".into() } else { parts.join(",") });
        }
        u
    }
    /// indices of the entries that only use attributes in `mask`
    fn select(&self, mask: usize) -> Vec<usize> {
        (0..256usize)
            .filter(|idx| (0..4).all(|a| mask & (1 << a) != 0 || (idx >> (2 * a)) & 3 == 0))
            .collect()
    }
}

// ---------------------------------------------------------------------------------------------

#[derive(Clone, Debug, PartialEq)]
enum Mode {
    NoIdx,
    Idx(Vec<(usize, IndexType, u8)>),
}

fn it_char(t: &IndexType) -> char {
    match t {
        IndexType::Equality => 'e',
        IndexType::SubString => 's',
        IndexType::Presence => 'p',
        IndexType::Ordering => 'o',
    }
}
fn it_of(c: &str) -> IndexType {
    match c {
        "e" => IndexType::Equality,
        "s" => IndexType::SubString,
        "p" => IndexType::Presence,
        _ => IndexType::Ordering,
    }
}

impl Mode {
    fn layout_text(&self) -> String {
        match self {
            Mode::NoIdx => "-".into(),
            Mode::Idx(l) if l.is_empty() => "-".into(),
            Mode::Idx(l) => l.iter().map(|(a, t, s)| format!("{a}:{}:{s}", it_char(t))).collect::<Vec<_>>().join(","),
        }
    }
    fn name(&self) -> &'static str {
        match self {
            Mode::NoIdx => "noidx",
            Mode::Idx(_) => "idx",
        }
    }
    fn to_meta(&self, w: &World) -> Option<IdxMeta> {
        match self {
            Mode::NoIdx => None,
            Mode::Idx(l) => Some(idxmeta(&l.iter().map(|(a, t, s)| (w.attrs[*a].clone(), *t, *s)).collect::<Vec<_>>())),
        }
    }
}

struct Ctx<'a, 'b> {
    w: World,
    u: Universe,
    ident: Identity,
    qs: &'b mut QueryServerReadTransaction<'a>,
    drv: Driver,
    rep: Report,
    cur_mask: usize,
    sel: Vec<usize>,
}

#[derive(Debug)]
enum Built {
    Rejected(String),
    Ok(Box<(Filter<FilterValidResolved>, Filter<FilterValidResolved>)>),
}

impl<'a, 'b> Ctx<'a, 'b> {
    /// real pipeline: (R = resolve(T), N = resolve(AndNot(T)))
    fn build(&mut self, t: &T, route: &str, mode: &Mode) -> Built {
        let tn = T::Not(Box::new(t.clone()));
        let mk = |ctx: &mut Self, x: &T| -> Result<Filter<FilterInvalid>, String> {
            if route == "scim" {
                let sf = to_scim(x, &ctx.w).ok_or("not-scim-expressible")?;
                Filter::from_scim_ro(&ctx.ident, &sf, ctx.qs).map_err(|e| format!("{e:?}"))
            } else {
                Ok(Filter::new(to_fc(x, &ctx.w).ok_or("not-fc-expressible")?))
            }
        };
        let meta = mode.to_meta(&self.w);
        let mut out = vec![];
        for x in [t, &tn] {
            let fi = match mk(self, x) {
                Ok(f) => f,
                Err(e) => return Built::Rejected(e),
            };
            let fv = match fi.validate(self.qs.get_schema()) {
                Ok(f) => f,
                Err(e) => return Built::Rejected(format!("{e:?}")),
            };
            match fv.resolve(&self.ident, meta.as_ref(), None) {
                Ok(f) => out.push(f),
                Err(e) => return Built::Rejected(format!("{e:?}")),
            }
        }
        let n = out.pop().unwrap();
        let r = out.pop().unwrap();
        Built::Ok(Box::new((r, n)))
    }

    fn set_universe(&mut self, mask: usize) {
        if mask != self.cur_mask {
            self.sel = self.u.select(mask);
            let line = format!("ents | {}", self.sel.iter().map(|i| self.u.text[*i].clone()).collect::<Vec<_>>().join(";"));
            let r = self.drv.ask(&line);
            assert!(r.starts_with("ok "), "driver refused the entry universe: {r}");
            self.cur_mask = mask;
        }
    }

    /// Runs one case; returns the failures it produced (not yet recorded) and statistics keys.
    fn eval(&mut self, t: &T, route: &str, mode: &Mode, full_universe: bool, stats: bool) -> Vec<Failure> {
        let mut fails = vec![];
        let input = json!({"t": show_t(t), "route": route, "mode": mode.name(), "layout": mode.layout_text(), "full_universe": full_universe});
        let (r, n) = match self.build(t, route, mode) {
            Built::Rejected(e) => {
                if stats {
                    self.rep.count(&format!("rejected:{}", e.split('(').next().unwrap_or("?")));
                    self.rep.case(None);
                }
                return fails;
            }
            Built::Ok(b) => *b,
        };
        let mut fail = |kind: &str, class: &str, expected: String, observed: String| {
            fails.push(Failure { kind: kind.into(), class: class.into(), input: input.clone(), expected, observed });
        };
        let r_text = show_fr(r.to_inner(), &self.w, true);
        // the un-rewritten resolved filter, from the real code
        let o_inner = match n.to_inner() {
            FilterResolved::AndNot(inner, None) => inner.as_ref().clone(),
            other => {
                fail("impl-vs-model", "andnot-wrapper-rewritten", "(not - <T verbatim>)".into(), show_fr(other, &self.w, true));
                return fails;
            }
        };
        let o_text = show_fr(&o_inner, &self.w, true);
        let o_shape = show_fr(&o_inner, &self.w, false);
        let t_shape = show_t_resolved(t, &self.w);
        if o_shape != t_shape {
            fail("impl-vs-model", "andnot-inner-not-verbatim", t_shape.clone(), o_shape.clone());
            return fails;
        }
        // universe
        let mut used = BTreeSet::new();
        attrs_of(t, &self.w, &mut used);
        let mask = if full_universe { 15 } else { used.iter().fold(0usize, |m, a| m | (1 << a)) };
        self.set_universe(mask);
        // real evaluations
        let mut bits_r = String::with_capacity(self.sel.len());
        let mut bits_o = String::with_capacity(self.sel.len());
        let mut first_o1: Option<usize> = None;
        let mut first_o2: Option<usize> = None;
        for &i in &self.sel {
            let e = &self.u.real[i];
            let mr = e.entry_match_no_index(&r);
            let mo = !e.entry_match_no_index(&n);
            let mp = plain(t, &self.u.plain[i], &self.w);
            bits_r.push(if mr { '1' } else { '0' });
            bits_o.push(if mo { '1' } else { '0' });
            if mr != mo && first_o1.is_none() {
                first_o1 = Some(i);
            }
            if mr != mp && first_o2.is_none() {
                first_o2 = Some(i);
            }
        }
        if let Some(i) = first_o1 {
            fail(
                "impl-vs-oracle",
                "unclassified",
                format!("entry [{}]: original {} matches={}", self.u.text[i], o_text, bits_o.as_bytes()[self.sel.iter().position(|x| *x == i).unwrap()] as char),
                format!("rewritten {} matches={}", r_text, bits_r.as_bytes()[self.sel.iter().position(|x| *x == i).unwrap()] as char),
            );
        }
        if let Some(i) = first_o2 {
            fail(
                "impl-vs-oracle",
                "unclassified",
                format!("entry [{}]: filter {} by its plain reading matches={}", self.u.text[i], show_t(t), plain(t, &self.u.plain[i], &self.w)),
                format!("rewritten {} matches={}", r_text, !plain(t, &self.u.plain[i], &self.w)),
            );
        }
        // model
        let lines = vec![
            format!("res {} n{} {} {} {} | {} | {}", mode.name(), self.w.self_n, self.w.uuid_a, self.w.name_a, mode.layout_text(), show_t(t), o_text),
            format!("opt {} | {} | {}", if *mode == Mode::NoIdx { "fast" } else { "full" }, o_text, r_text),
            format!("mm | {o_text}"),
            format!("mm | {r_text}"),
        ];
        let total: usize = lines.iter().map(|l| l.len() + 1).sum();
        let replies = if total < 40_000 { self.drv.ask_batch(&lines) } else { lines.iter().map(|l| self.drv.ask(l)).collect() };
        if replies[0] != "same" {
            fail("impl-vs-model", "unclassified", format!("resolve: model {}", replies[0]), o_text.clone());
        }
        let mut parts = replies[1].splitn(3, ' ');
        let verdict = parts.next().unwrap_or("").to_string();
        let cert = parts.next().unwrap_or("").to_string();
        if verdict != "exact" && verdict != "tie" {
            fail("impl-vs-model", "unclassified", format!("optimise: model {}", parts.next().unwrap_or(&replies[1])), r_text.clone());
        }
        if cert != "cert" {
            fail("impl-vs-model", "unclassified", "isOptimiseOf original rewritten = true".into(), format!("{} for {} => {}", replies[1], o_text, r_text));
        }
        if replies[2] != bits_o {
            fail("impl-vs-model", "unclassified", format!("matches(model) of {o_text} = {}", replies[2]), format!("entry_match_no_index = {bits_o}"));
        }
        if replies[3] != bits_r {
            fail("impl-vs-model", "unclassified", format!("matches(model) of {r_text} = {}", replies[3]), format!("entry_match_no_index = {bits_r}"));
        }
        if stats {
            let rewritten = show_fr(r.to_inner(), &self.w, false) != o_shape;
            let nonconst = bits_r.contains('1') && bits_r.contains('0');
            let mut kinds = BTreeSet::new();
            conn_kinds(t, &mut kinds);
            self.rep.count(&format!("route:{route}"));
            self.rep.count(&format!("mode:{}", mode.name()));
            self.rep.count(&format!("depth:{}", depth(t)));
            self.rep.count(&format!("opt:{verdict}"));
            self.rep.count(if rewritten { "rewritten:yes" } else { "rewritten:no" });
            self.rep.count(if nonconst { "truth-table:mixed" } else { "truth-table:constant" });
            self.rep.count_n("entry-evaluations", 2 * self.sel.len() as u64);
            for k in &kinds {
                self.rep.count(&format!("has:{k}"));
            }
            let key = if rewritten && nonconst { Some(format!("{}|{}|{}", o_text, mode.name(), route)) } else { None };
            self.rep.case(key);
            if self.rep.evaluations % 7919 == 1 {
                self.rep.sample(json!({"t": show_t(t), "route": route, "mode": mode.name(), "layout": mode.layout_text(),
                    "original": o_text, "rewritten": r_text, "model": replies[1], "matches": bits_r}));
            }
        }
        fails
    }

    /// evaluate, and on failure shrink the tree before recording
    fn run(&mut self, t: &T, route: &str, mode: &Mode, full_universe: bool) {
        let fails = self.eval(t, route, mode, full_universe, true);
        if fails.is_empty() {
            return;
        }
        let kind0 = fails[0].kind.clone();
        let mut cur = t.clone();
        let mut cur_fails = fails;
        let mut budget = 300;
        'outer: loop {
            for cand in shrinks(&cur) {
                if budget == 0 {
                    break 'outer;
                }
                budget -= 1;
                let f = self.eval(&cand, route, mode, full_universe, false);
                if f.iter().any(|x| x.kind == kind0) {
                    cur = cand;
                    cur_fails = f;
                    continue 'outer;
                }
            }
            break;
        }
        for f in cur_fails {
            self.rep.fail(f);
        }
    }
}

/// one-step simplifications of a tree
fn shrinks(t: &T) -> Vec<T> {
    let mut out = vec![];
    match t {
        T::Or(l) | T::And(l) | T::Inc(l) => {
            let mk = |v: Vec<T>| match t {
                T::Or(_) => T::Or(v),
                T::And(_) => T::And(v),
                _ => T::Inc(v),
            };
            for c in l {
                out.push(c.clone());
            }
            if l.len() > 1 {
                for i in 0..l.len() {
                    let mut v = l.clone();
                    v.remove(i);
                    out.push(mk(v));
                }
            }
            for i in 0..l.len() {
                for s in shrinks(&l[i]) {
                    let mut v = l.clone();
                    v[i] = s;
                    out.push(mk(v));
                }
            }
        }
        T::Not(f) => {
            out.push((**f).clone());
            for s in shrinks(f) {
                out.push(T::Not(Box::new(s)));
            }
        }
        _ => {}
    }
    out
}

// ---------------------------------------------------------------------------------------------
// exhaustive enumeration by index (no materialised lists)

struct Spec {
    leaves: Vec<T>,
    conns: Vec<u8>, // 0 = And, 1 = Or, 2 = Inc
    widths: Vec<usize>,
    not: bool,
}

impl Spec {
    fn count(&self, d: usize) -> u64 {
        if d <= 1 {
            return self.leaves.len() as u64;
        }
        let c = self.count(d - 1);
        let mut n = self.leaves.len() as u64;
        for _ in &self.conns {
            for k in &self.widths {
                n += c.pow(*k as u32);
            }
        }
        if self.not {
            n += c;
        }
        n
    }
    fn nth(&self, d: usize, mut n: u64) -> T {
        if n < self.leaves.len() as u64 {
            return self.leaves[n as usize].clone();
        }
        n -= self.leaves.len() as u64;
        let c = self.count(d - 1);
        for conn in &self.conns {
            for k in &self.widths {
                let block = c.pow(*k as u32);
                if n < block {
                    let mut kids = vec![];
                    for _ in 0..*k {
                        kids.push(self.nth(d - 1, n % c));
                        n /= c;
                    }
                    return match conn {
                        0 => T::And(kids),
                        1 => T::Or(kids),
                        _ => T::Inc(kids),
                    };
                }
                n -= block;
            }
        }
        T::Not(Box::new(self.nth(d - 1, n)))
    }
}

// ---------------------------------------------------------------------------------------------
// generators

fn s(x: &str) -> V {
    V::S(bytes_of(x))
}

/// leaf alphabet: every kind × attributes × boundary values (well-typed)
fn leaf_alphabet(w: &World, scim: bool) -> Vec<T> {
    let mut l = vec![];
    for a in 0..4 {
        match w.kinds[a] {
            AK::Iutf8 | AK::Iname => {
                l.push(T::Pres(a));
                for v in ["a", "b", "ab", "ba"] {
                    l.push(T::Eq(a, s(v)));
                    l.push(T::Cnt(a, s(v)));
                    if scim {
                        l.push(T::Stw(a, s(v)));
                        l.push(T::Enw(a, s(v)));
                    }
                }
                l.push(T::Cnt(a, s("")));
                l.push(T::Lt(a, s("b")));
            }
            AK::U32 if !scim => {
                l.push(T::Pres(a));
                for n in [2, 3, 4] {
                    l.push(T::Eq(a, V::N(n)));
                }
                for n in [2, 3, 4, 5] {
                    l.push(T::Lt(a, V::N(n)));
                }
            }
            AK::Uuid if !scim => {
                l.push(T::Pres(a));
                l.push(T::SelfU);
                for n in 0..w.uuids.len() as u64 {
                    l.push(T::Eq(a, V::N(n)));
                    l.push(T::Lt(a, V::N(n)));
                }
                l.push(T::Inv(a));
            }
            _ => {}
        }
    }
    if !scim {
        l.push(T::Inv(0));
    }
    l
}

fn random_tree(r: &mut Rng, leaves: &[T], depth: usize, maxw: usize, scim: bool) -> T {
    if depth <= 1 || r.chance(1, 4) {
        // favour a small pool so that duplicates (dedup) and equal slopes (ties) occur
        let pool = if r.chance(2, 3) { &leaves[..leaves.len().min(6 + (r.below(6) as usize))] } else { leaves };
        return r.pick(pool).clone();
    }
    let k = r.below(if scim { 3 } else { 4 });
    match k {
        0 | 1 => {
            let wd = if scim { 2 } else { r.range(1, maxw as u64) as usize };
            let kids: Vec<T> = (0..wd).map(|_| random_tree(r, leaves, depth - 1, maxw, scim)).collect();
            // duplicate a child now and then
            let kids = if !scim && kids.len() >= 2 && r.chance(1, 4) {
                let mut k2 = kids.clone();
                let i = r.below(kids.len() as u64) as usize;
                let j = r.below(kids.len() as u64) as usize;
                k2[i] = kids[j].clone();
                k2
            } else {
                kids
            };
            if k == 0 { T::And(kids) } else { T::Or(kids) }
        }
        2 => T::Not(Box::new(random_tree(r, leaves, depth - 1, maxw, scim))),
        _ => {
            let wd = r.range(1, maxw as u64) as usize;
            T::Inc((0..wd).map(|_| random_tree(r, leaves, depth - 1, maxw, scim)).collect())
        }
    }
}

fn random_layout(r: &mut Rng) -> Mode {
    let mut l = vec![];
    let slopes: &[u8] = if r.chance(1, 3) { &[5] } else { &[0, 1, 2, 5, 5, 200, 255] };
    for a in 0..4 {
        for t in [IndexType::Equality, IndexType::SubString, IndexType::Presence, IndexType::Ordering] {
            if r.chance(3, 5) {
                l.push((a, t, *r.pick(slopes)));
            }
        }
    }
    Mode::Idx(l)
}

fn fixed_layouts(w: &World) -> Vec<Mode> {
    let all = [IndexType::Equality, IndexType::SubString, IndexType::Presence, IndexType::Ordering];
    // realistic: equality cheap on name/uuid, dearer on class, substring on name, presence everywhere dear
    let mut real = vec![];
    for a in 0..4 {
        let eqs = match w.kinds[a] {
            AK::Iname => 1,
            AK::Uuid => 1,
            AK::U32 => 40,
            AK::Iutf8 => 200,
        };
        real.push((a, IndexType::Equality, eqs));
        real.push((a, IndexType::Presence, 250));
    }
    real.push((w.name_a, IndexType::SubString, 90));
    // every slope equal: maximal number of cmp-ties, kind rank decides
    let mut ties = vec![];
    for a in 0..4 {
        for t in all {
            ties.push((a, t, 5));
        }
    }
    vec![Mode::Idx(real), Mode::Idx(ties), Mode::Idx(vec![])]
}

fn main() {
    let args = Args::parse();
    let rt = tokio::runtime::Builder::new_current_thread().enable_all().build().unwrap();
    rt.block_on(async {
        let qs = setup_test(TestConfiguration::default()).await;
        let mut qs_read = qs.read().await.expect("read txn");
        let entry = qs_read.internal_search_uuid(UUID_IDM_ADMIN).expect("idm_admin");
        let ident = Identity::from_impersonate_entry_readwrite(entry);
        let w = World::new(ident.get_uuid());
        let u = Universe::new(&w);
        let mut ctx = Ctx {
            w,
            u,
            ident,
            qs: &mut qs_read,
            drv: Driver::spawn(&args.driver),
            rep: Report::new(
                "filter-rewrite",
                "filter trees over 4 real attributes (class/Iutf8, name/Iname, gidnumber/Uint32, uuid/Uuid) built through Filter::new(FC) or \
                 Filter::from_scim_ro, resolved with and without index metadata; exhaustive strata (depth<=2 width<=3 full leaf alphabet; depth<=3 \
                 width<=2/3 small leaf alphabets; SCIM binary depth<=3) + random deeper/wider trees and layouts + a malformed stream; every case \
                 evaluated on every entry over the attributes involved (all 256 entries for a sample). non-trivial = the rewriting changed the \
                 filter's shape AND its truth table over the universe is not constant; distinct = distinct (resolved original, mode, route)",
            ),
            cur_mask: usize::MAX,
            sel: vec![],
        };
        run_all(&args, &mut ctx);
        ctx.rep.model_requests = ctx.drv.requests;
        ctx.rep.write(&args.out);
        println!("c02: {} cases, {} distinct non-trivial, {} failures", ctx.rep.evaluations, ctx.rep.nontrivial_keys.len(), ctx.rep.failures.len());
    });
}

fn run_all(args: &Args, ctx: &mut Ctx) {
    if let Some(path) = &args.replay {
        let v: Json = serde_json::from_str(&std::fs::read_to_string(path).unwrap()).unwrap();
        let inp = &v["input"];
        let t = parse_t(inp["t"].as_str().unwrap());
        let route = inp["route"].as_str().unwrap().to_string();
        let mode = if inp["mode"].as_str().unwrap() == "noidx" {
            Mode::NoIdx
        } else {
            let lt = inp["layout"].as_str().unwrap();
            Mode::Idx(if lt == "-" { vec![] } else {
                lt.split(',').map(|it| {
                    let p: Vec<&str> = it.split(':').collect();
                    (p[0].parse().unwrap(), it_of(p[1]), p[2].parse().unwrap())
                }).collect()
            })
        };
        let full = inp["full_universe"].as_bool().unwrap_or(false);
        ctx.run(&t, &route, &mode, full);
        return;
    }
    let thorough = args.thorough();
    let layouts = fixed_layouts(&ctx.w);
    let w = &ctx.w;
    let (cl, na, gi, uu) = (
        w.kinds.iter().position(|k| *k == AK::Iutf8).unwrap(),
        w.name_a,
        w.kinds.iter().position(|k| *k == AK::U32).unwrap(),
        w.uuid_a,
    );
    // leaf alphabets of the exhaustive strata
    let la_full: Vec<T> = vec![
        T::Eq(cl, s("b")), T::Eq(cl, s("ab")), T::Eq(na, s("a")), T::Eq(na, s("ba")), T::Eq(gi, V::N(2)), T::SelfU,
        T::Pres(cl), T::Pres(gi), T::Lt(gi, V::N(3)), T::Lt(gi, V::N(5)), T::Cnt(cl, s("a")), T::Cnt(na, s("b")),
        T::Inv(cl), T::Eq(uu, V::N(ctx.w.self_n)),
    ];
    let la_small: Vec<T> = vec![T::Eq(na, s("a")), T::Pres(cl), T::Cnt(cl, s("a")), T::Lt(gi, V::N(3))];
    let la_mid: Vec<T> = vec![T::Eq(na, s("a")), T::Pres(cl), T::Cnt(cl, s("a")), T::Lt(gi, V::N(3)), T::Eq(cl, s("b")), T::SelfU];
    let la_pair1: Vec<T> = vec![T::Eq(cl, s("b")), T::Pres(na)];
    let la_pair2: Vec<T> = vec![T::Eq(na, s("a")), T::Cnt(cl, s("a"))];
    let la_scim: Vec<T> = vec![T::Stw(cl, s("a")), T::Enw(cl, s("b")), T::Eq(na, s("a")), T::Pres(na), T::Cnt(cl, s("b"))];
    let la_scim_big: Vec<T> = vec![
        T::Stw(cl, s("a")), T::Enw(cl, s("b")), T::Eq(na, s("a")), T::Pres(na), T::Cnt(cl, s("b")),
        T::Stw(na, s("b")), T::Enw(na, s("a")), T::Eq(cl, s("ab")),
    ];
    let all3 = vec![0u8, 1, 2];
    let mut strata: Vec<(&str, Spec, usize, &str, Vec<Mode>)> = vec![];
    let m_all = vec![Mode::NoIdx, layouts[0].clone(), layouts[1].clone()];
    let m_two = vec![Mode::NoIdx, layouts[0].clone()];
    strata.push(("x1:d2w3-full-alphabet", Spec { leaves: la_full, conns: all3.clone(), widths: vec![1, 2, 3], not: true }, 2, "fc", m_all.clone()));
    if thorough {
        strata.push(("x2:d3w2-six-leaves", Spec { leaves: la_mid, conns: all3.clone(), widths: vec![1, 2], not: true }, 3, "fc", m_all.clone()));
        strata.push(("x3:d3w3-pair1", Spec { leaves: la_pair1, conns: all3.clone(), widths: vec![1, 2, 3], not: true }, 3, "fc", m_two.clone()));
        strata.push(("x3:d3w3-pair2", Spec { leaves: la_pair2, conns: all3.clone(), widths: vec![1, 2, 3], not: true }, 3, "fc", vec![layouts[1].clone()]));
        strata.push(("xs:scim-d3-eight-leaves", Spec { leaves: la_scim_big, conns: vec![0, 1], widths: vec![2], not: true }, 3, "scim", m_two.clone()));
    } else {
        strata.push(("x2:d3w2-four-leaves", Spec { leaves: la_small, conns: all3.clone(), widths: vec![1, 2], not: true }, 3, "fc", m_two.clone()));
        strata.push(("xs:scim-d3-five-leaves", Spec { leaves: la_scim, conns: vec![0, 1], widths: vec![2], not: true }, 3, "scim", m_two.clone()));
    }
    for (name, spec, d, route, modes) in &strata {
        let total = spec.count(*d);
        for n in 0..total {
            let t = spec.nth(*d, n);
            for m in modes {
                ctx.run(&t, route, m, false);
            }
        }
        ctx.rep.note(format!("exhaustive {name}: {total} trees x {} modes", modes.len()));
        ctx.rep.count_n(&format!("stratum:{name}"), total * modes.len() as u64);
    }
    ctx.rep.exhaustive = true;
    // random deeper / wider
    let leaves_fc = leaf_alphabet(&ctx.w, false);
    let leaves_scim = leaf_alphabet(&ctx.w, true);
    let nrand = args.cases(4_000, 120_000);
    for i in 0..nrand {
        let mut r = Rng::for_case(args.seed, i);
        let scim = r.chance(1, 4);
        let (dmax, wmax) = if scim { (6, 2) } else { (*r.pick(&[3usize, 4, 5]), *r.pick(&[3usize, 4, 5])) };
        let mut lv = if scim { leaves_scim.clone() } else { leaves_fc.clone() };
        r.shuffle(&mut lv);
        let t = random_tree(&mut r, &lv, dmax, wmax, scim);
        let mode = match r.below(6) {
            0 | 1 => Mode::NoIdx,
            2 => layouts[r.below(3) as usize].clone(),
            _ => random_layout(&mut r),
        };
        let full = r.chance(1, 8);
        ctx.rep.count("stream:random");
        ctx.run(&t, if scim { "scim" } else { "fc" }, &mode, full);
    }
    // malformed: ill-typed values and empty groups must be rejected by validation, never rewritten
    let nmal = args.cases(300, 3_000);
    for i in 0..nmal {
        let mut r = Rng::for_case(args.seed ^ 0x5eed, i);
        let a = r.below(4) as usize;
        let bad: FC = match r.below(4) {
            0 => FC::And(vec![]),
            1 => FC::Or(vec![FC::Pres(ctx.w.attrs[a].clone()), FC::Inclusion(vec![])]),
            2 => FC::Eq(ctx.w.attrs[a].clone(), ctx.w.pv_wrong(a)),
            _ => FC::And(vec![FC::Pres(ctx.w.attrs[a].clone()), FC::AndNot(Box::new(FC::Cnt(ctx.w.attrs[a].clone(), ctx.w.pv_wrong(a))))]),
        };
        let res = Filter::new(bad.clone()).validate(ctx.qs.get_schema());
        ctx.rep.count("stream:malformed");
        ctx.rep.case(None);
        if res.is_ok() {
            ctx.rep.fail(Failure {
                kind: "impl-vs-model".into(),
                class: "malformed-accepted".into(),
                input: json!({"fc": format!("{bad:?}")}),
                expected: "validate rejects an empty group / an ill-typed value".into(),
                observed: "Ok".into(),
            });
        }
    }
}
