//! C18 — dynamic groups contain exactly the matching entries.
//!
//! Every case boots its own migrated in-memory server (`testkit::setup_test`) and its own Lean
//! driver (`km_c18`) and runs one history of committed write transactions through both:
//! create / modify / delete / revive of candidate entries (groups, persons, service accounts) and
//! of dynamic groups (create, filter change, other attribute change, delete, revive), internal
//! identity, random `dyngroup_filter`s over class / name / description / displayname.
//!
//! After **every** operation the whole database is read back and
//! * **oracle** (implementation only, from the property text): for every live dynamic group of
//!   the database — the built-in `idm_all_persons` / `idm_all_accounts` included — `dynmember` must
//!   be exactly the set of live entries that satisfy the group's stored filter under the plain
//!   boolean evaluator below (NOT = complement), which reads the entries' values through
//!   `to_proto_string_clone_iter`; the evaluator is cross-checked against `entry_match_no_index`
//!   of the real resolved filter on every (group, entry) pair (`matcher` failures);
//! * **correspondence**: status, filter-visible attributes, dynmember, member and
//!   recycled_directmemberof of every dyngroup and every history entry equal the model's state
//!   (the model transcribes the code, so it predicts the defective memberships too), and the
//!   operation's ok / error result agrees;
//! * **oracle-vs-spec**: the oracle's expected member sets equal the specification's
//!   (`FC.matches` on the model state, the sets the theorems speak about).
//!
//! Failure classes (recognisers run on the minimised witness and on the implementation only; every
//! discrepancy that appears with the failing operation must be explained, classes are reported
//! separately when they differ):
//! * `D1:isolated-not` — the group's filter has a NOT that is not guarded by a positive AND
//!   sibling, and the discrepancy is absent from the same history with every such NOT guarded by
//!   `And[pres class, …]` (same meaning);
//! * `C18-F1:dyngroup-entry-not-candidate` — the entry in excess / missing is itself a dynamic
//!   group (the hooks partition dyngroups out of the candidate set);
//! * `C18-F2:revive-skips-unchanged-match` — the missing entry was revived by the operation that
//!   made the discrepancy appear (D34, repaired in the source by the `mask_recycled_ts` guards of
//!   the incremental tests: no longer a known finding, so a VIOLATION if it comes back);
//! * anything else `unclassified`.
//!
//! A case runs on its own thread under a watchdog; `--replay` re-runs the stored history.
use hlib::*;
use kanidm_proto::internal::Filter as ProtoFilter;
use kanidmd_lib::entry::{Entry, EntryInit, EntryNew, EntrySealedCommitted};
use kanidmd_lib::event::ReviveRecycledEvent;
use kanidmd_lib::prelude::*;
use kanidmd_lib::schema::SchemaTransaction;
use kanidmd_lib::testkit::{setup_test, TestConfiguration};
use kanidmd_lib::value::IndexType;
use serde_json::{json, Value as J};
use std::collections::{BTreeMap, BTreeSet};
use std::sync::atomic::{AtomicU64, Ordering as AO};
use std::sync::mpsc::channel;
use std::sync::{Arc, Mutex};
use std::time::{Duration as StdDuration, Instant};

// ---------------------------------------------------------------------------------------------
// alphabet

const CLASS: usize = 0;
const NAME: usize = 1;
const DESC: usize = 2;
const DISP: usize = 3;
const UNKNOWN: usize = 99;
const NATTR: usize = 4;
/// atom of `Attribute::Uuid` in the model (only `SelfUuid` reads it)
const UUID_A: usize = 9;

fn attr_of(a: usize) -> Attribute {
    match a {
        CLASS => Attribute::Class,
        NAME => Attribute::Name,
        DESC => Attribute::Description,
        DISP => Attribute::DisplayName,
        _ => panic!("attr {a}"),
    }
}
fn attr_name(a: usize) -> String {
    if a == UNKNOWN {
        "c18nosuchattribute".into()
    } else {
        attr_of(a).to_string()
    }
}
fn atom_of_name(s: &str) -> Option<usize> {
    (0..NATTR).find(|a| attr_name(*a) == s)
}

/// class values the model sees (everything else — `memberof`, `builtin`, … — is dropped from the
/// model's view of an entry; filters only ever test these)
const CLASS_POOL: [&str; 8] = ["object", "group", "dyngroup", "account", "person", "service_account", "recycled", "tombstone"];

#[derive(Clone, Debug, PartialEq, Eq, Hash, PartialOrd, Ord)]
enum T {
    Eq(usize, String),
    Cnt(usize, String),
    Pres(usize),
    Or(Vec<T>),
    And(Vec<T>),
    Not(Box<T>),
    SelfU,
}

fn show_s(s: &str) -> String {
    format!("s{}", s.bytes().map(|b| b.to_string()).collect::<Vec<_>>().join("."))
}
fn parse_s(s: &str) -> String {
    let r = &s[1..];
    if r.is_empty() {
        String::new()
    } else {
        String::from_utf8(r.split('.').map(|x| x.parse::<u8>().unwrap()).collect()).unwrap()
    }
}

/// the Lean `FC` s-expression (an unknown attribute is `(inv 99)`: it fails validation)
fn show_t(t: &T) -> String {
    let lst = |l: &Vec<T>| l.iter().map(|x| format!(" {}", show_t(x))).collect::<String>();
    match t {
        T::Eq(a, _) | T::Cnt(a, _) | T::Pres(a) if *a == UNKNOWN => "(inv 99)".into(),
        T::Eq(a, v) => format!("(eq {a} {})", show_s(v)),
        // `contains` on a Utf8String attribute compares lower-cased text (valueset/utf8.rs l.89):
        // the model sees the lower-cased values as attribute `a + 10`
        T::Cnt(a, v) if *a == DESC || *a == DISP => format!("(cnt {} {})", a + 10, show_s(&v.to_lowercase())),
        T::Cnt(a, v) => format!("(cnt {a} {})", show_s(v)),
        T::Pres(a) => format!("(pres {a})"),
        T::Or(l) => format!("(or{})", lst(l)),
        T::And(l) => format!("(and{})", lst(l)),
        T::Not(f) => format!("(not {})", show_t(f)),
        T::SelfU => "(self)".into(),
    }
}
/// replay text: like `show_t` but keeps the unknown attribute's term kind
fn show_t_replay(t: &T) -> String {
    let lst = |l: &Vec<T>| l.iter().map(|x| format!(" {}", show_t_replay(x))).collect::<String>();
    match t {
        T::Eq(a, v) => format!("(eq {a} {})", show_s(v)),
        T::Cnt(a, v) => format!("(cnt {a} {})", show_s(v)),
        T::Pres(a) => format!("(pres {a})"),
        T::Or(l) => format!("(or{})", lst(l)),
        T::And(l) => format!("(and{})", lst(l)),
        T::Not(f) => format!("(not {})", show_t_replay(f)),
        T::SelfU => "(self)".into(),
    }
}
fn parse_t(s: &str) -> T {
    let toks: Vec<String> = s.replace('(', " ( ").replace(')', " ) ").split_whitespace().map(|x| x.to_string()).collect();
    fn go(toks: &[String], i: &mut usize) -> T {
        assert_eq!(toks[*i], "(");
        *i += 1;
        let head = toks[*i].clone();
        *i += 1;
        let t = match head.as_str() {
            "or" | "and" => {
                let mut l = vec![];
                while toks[*i] != ")" {
                    l.push(go(toks, i));
                }
                if head == "or" {
                    T::Or(l)
                } else {
                    T::And(l)
                }
            }
            "not" => T::Not(Box::new(go(toks, i))),
            "self" => T::SelfU,
            "pres" => {
                let a: usize = toks[*i].parse().unwrap();
                *i += 1;
                T::Pres(a)
            }
            "eq" | "cnt" => {
                let a: usize = toks[*i].parse().unwrap();
                let v = parse_s(&toks[*i + 1]);
                *i += 2;
                if head == "eq" {
                    T::Eq(a, v)
                } else {
                    T::Cnt(a, v)
                }
            }
            h => panic!("bad head {h}"),
        };
        assert_eq!(toks[*i], ")");
        *i += 1;
        t
    }
    let mut i = 0;
    go(&toks, &mut i)
}

fn to_proto(t: &T) -> ProtoFilter {
    match t {
        T::Eq(a, v) => ProtoFilter::Eq(attr_name(*a), v.clone()),
        T::Cnt(a, v) => ProtoFilter::Cnt(attr_name(*a), v.clone()),
        T::Pres(a) => ProtoFilter::Pres(attr_name(*a)),
        T::Or(l) => ProtoFilter::Or(l.iter().map(to_proto).collect()),
        T::And(l) => ProtoFilter::And(l.iter().map(to_proto).collect()),
        T::Not(f) => ProtoFilter::AndNot(Box::new(to_proto(f))),
        T::SelfU => ProtoFilter::SelfUuid,
    }
}
/// a stored filter back into the alphabet (`None` = it mentions something outside of it)
fn from_proto(p: &ProtoFilter) -> Option<T> {
    Some(match p {
        ProtoFilter::Eq(a, v) => T::Eq(atom_of_name(a)?, v.to_lowercase()),
        ProtoFilter::Cnt(a, v) => T::Cnt(atom_of_name(a)?, v.to_lowercase()),
        ProtoFilter::Pres(a) => T::Pres(atom_of_name(a)?),
        ProtoFilter::Or(l) => T::Or(l.iter().map(from_proto).collect::<Option<Vec<_>>>()?),
        ProtoFilter::And(l) => T::And(l.iter().map(from_proto).collect::<Option<Vec<_>>>()?),
        ProtoFilter::AndNot(f) => T::Not(Box::new(from_proto(f)?)),
        ProtoFilter::SelfUuid => T::SelfU,
    })
}
fn pv(a: usize, v: &str) -> PartialValue {
    match a {
        CLASS => PartialValue::new_iutf8(v),
        NAME => PartialValue::new_iname(v),
        _ => PartialValue::new_utf8s(v),
    }
}
fn to_fc(t: &T) -> Option<FC> {
    Some(match t {
        T::Eq(a, _) | T::Cnt(a, _) | T::Pres(a) if *a == UNKNOWN => return None,
        T::Eq(a, v) => FC::Eq(attr_of(*a), pv(*a, v)),
        T::Cnt(a, v) => FC::Cnt(attr_of(*a), pv(*a, v)),
        T::Pres(a) => FC::Pres(attr_of(*a)),
        T::Or(l) => FC::Or(l.iter().map(to_fc).collect::<Option<Vec<_>>>()?),
        T::And(l) => FC::And(l.iter().map(to_fc).collect::<Option<Vec<_>>>()?),
        T::Not(f) => FC::AndNot(Box::new(to_fc(f)?)),
        T::SelfU => FC::SelfUuid,
    })
}

/// A NOT that is not a direct child of an AND with a non-NOT sibling (defect D1's shape).
fn has_isolated_not(t: &T, guarded_here: bool) -> bool {
    match t {
        T::Not(f) => !guarded_here || has_isolated_not(f, false),
        T::And(l) => {
            let pos = l.iter().any(|x| !matches!(x, T::Not(_)));
            l.iter().any(|x| has_isolated_not(x, pos))
        }
        T::Or(l) => l.iter().any(|x| has_isolated_not(x, false)),
        _ => false,
    }
}
/// Every isolated NOT `n` becomes `And[pres class, n]` (same meaning: every entry has a class).
fn guard_nots(t: &T, guarded_here: bool) -> T {
    match t {
        T::Not(f) => {
            let inner = T::Not(Box::new(guard_nots(f, false)));
            if guarded_here {
                inner
            } else {
                T::And(vec![T::Pres(CLASS), inner])
            }
        }
        T::And(l) => {
            let pos = l.iter().any(|x| !matches!(x, T::Not(_)));
            T::And(l.iter().map(|x| guard_nots(x, pos)).collect())
        }
        T::Or(l) => T::Or(l.iter().map(|x| guard_nots(x, false)).collect()),
        other => other.clone(),
    }
}
fn conn_kinds(t: &T, out: &mut BTreeSet<&'static str>) {
    match t {
        T::Or(l) => {
            out.insert("or");
            l.iter().for_each(|x| conn_kinds(x, out));
        }
        T::And(l) => {
            out.insert("and");
            l.iter().for_each(|x| conn_kinds(x, out));
        }
        T::Not(f) => {
            out.insert("not");
            conn_kinds(f, out);
        }
        _ => {}
    }
}

// ---------------------------------------------------------------------------------------------
// the oracle's evaluator: ordinary boolean semantics on plain strings (property text only)

type Plain = [Vec<String>; NATTR];

fn plain(t: &T, e: &Plain, uuid: &Uuid) -> bool {
    match t {
        T::Eq(a, _) | T::Cnt(a, _) | T::Pres(a) if *a >= NATTR => false,
        T::Eq(a, v) => e[*a].iter().any(|x| x == v),
        // substring tests on Utf8String attributes are case-insensitive, on Iname / Iutf8 the stored
        // and the asserted text are both normalised already
        T::Cnt(a, v) if *a == DESC || *a == DISP => e[*a].iter().any(|x| x.to_lowercase().contains(v.to_lowercase().as_str())),
        T::Cnt(a, v) => e[*a].iter().any(|x| x.contains(v.as_str())),
        T::Pres(a) => !e[*a].is_empty(),
        T::Or(l) => l.iter().any(|x| plain(x, e, uuid)),
        T::And(l) => l.iter().all(|x| plain(x, e, uuid)),
        T::Not(f) => !plain(f, e, uuid),
        // the internal identity's uuid
        T::SelfU => *uuid == UUID_SYSTEM,
    }
}

// ---------------------------------------------------------------------------------------------
// operations

#[derive(Clone, Debug, PartialEq, Eq, Hash)]
struct NewEnt {
    id: u8,
    kind: char, // g group, p person, s service account, d dyngroup
    name: String,
    desc: Option<String>,
    disp: Option<String>,
    filt: Option<T>,
}

#[derive(Clone, Debug, PartialEq, Eq, Hash)]
enum Op {
    Create(Vec<NewEnt>),
    /// `Purged(attr)` + `Present(attr, value)` (or only the purge)
    Mod(Vec<u8>, usize, Option<String>),
    Filt(Vec<u8>, T),
    Del(Vec<u8>),
    Rev(u8),
}

fn show_ids(v: &[u8]) -> String {
    if v.is_empty() {
        "-".into()
    } else {
        v.iter().map(|x| x.to_string()).collect::<Vec<_>>().join(",")
    }
}
fn parse_ids(s: &str) -> Vec<u8> {
    if s == "-" || s.is_empty() {
        vec![]
    } else {
        s.split(',').map(|x| x.parse().expect("id")).collect()
    }
}
fn opt_s(s: &Option<String>) -> String {
    s.clone().unwrap_or_else(|| "-".into())
}
fn s_opt(s: &str) -> Option<String> {
    if s == "-" {
        None
    } else {
        Some(s.to_string())
    }
}

impl Op {
    /// replay text
    fn token(&self) -> String {
        match self {
            Op::Create(es) => format!(
                "c {}",
                es.iter()
                    .map(|e| format!(
                        "{} {} {} {} {} {}",
                        e.id,
                        e.kind,
                        e.name,
                        opt_s(&e.desc),
                        opt_s(&e.disp),
                        e.filt.as_ref().map(show_t_replay).unwrap_or_else(|| "-".into())
                    ))
                    .collect::<Vec<_>>()
                    .join(" ;; ")
            ),
            Op::Mod(ids, a, v) => format!("m {} {a} {}", show_ids(ids), opt_s(v)),
            Op::Filt(ids, t) => format!("f {} {}", show_ids(ids), show_t_replay(t)),
            Op::Del(ids) => format!("d {}", show_ids(ids)),
            Op::Rev(i) => format!("r {i}"),
        }
    }
    fn parse(s: &str) -> Op {
        let (head, rest) = s.split_once(' ').expect("op");
        match head {
            "c" => Op::Create(
                rest.split(" ;; ")
                    .map(|e| {
                        let p: Vec<&str> = e.splitn(6, ' ').collect();
                        NewEnt {
                            id: p[0].parse().unwrap(),
                            kind: p[1].chars().next().unwrap(),
                            name: p[2].to_string(),
                            desc: s_opt(p[3]),
                            disp: s_opt(p[4]),
                            filt: if p[5] == "-" { None } else { Some(parse_t(p[5])) },
                        }
                    })
                    .collect(),
            ),
            "m" => {
                let p: Vec<&str> = rest.splitn(3, ' ').collect();
                Op::Mod(parse_ids(p[0]), p[1].parse().unwrap(), s_opt(p[2]))
            }
            "f" => {
                let (ids, t) = rest.split_once(' ').unwrap();
                Op::Filt(parse_ids(ids), parse_t(t))
            }
            "d" => Op::Del(parse_ids(rest)),
            "r" => Op::Rev(rest.parse().unwrap()),
            h => panic!("bad op {h}"),
        }
    }
    fn kind(&self) -> &'static str {
        match self {
            Op::Create(es) if es.iter().any(|e| e.kind == 'd') => "create-dyngroup",
            Op::Create(_) => "create",
            Op::Mod(..) => "modify",
            Op::Filt(..) => "filter-change",
            Op::Del(_) => "delete",
            Op::Rev(_) => "revive",
        }
    }
    fn map_filters(&self, f: &dyn Fn(&T) -> T) -> Op {
        match self {
            Op::Create(es) => Op::Create(es.iter().map(|e| NewEnt { filt: e.filt.as_ref().map(f), ..e.clone() }).collect()),
            Op::Filt(ids, t) => Op::Filt(ids.clone(), f(t)),
            o => o.clone(),
        }
    }
}

fn classes_of(kind: char) -> Vec<&'static str> {
    match kind {
        'g' => vec!["object", "group"],
        'p' => vec!["object", "account", "person"],
        's' => vec!["object", "account", "service_account"],
        'd' => vec!["object", "group", "dyngroup"],
        k => panic!("kind {k}"),
    }
}

const UBASE: u64 = 0x1800_0000;
fn uuid_of(id: u8) -> Uuid {
    nat_uuid(UBASE + id as u64)
}
fn nat_of(u: &Uuid) -> u128 {
    u.as_u128()
}
fn track_lo() -> u128 {
    nat_of(&nat_uuid(UBASE))
}
fn short(u: &Uuid) -> String {
    let lo = track_lo();
    let v = nat_of(u);
    if v >= lo && v < lo + 256 {
        format!("#{}", v - lo)
    } else {
        u.to_string()
    }
}

fn model_attrs(uuid: &Uuid, classes: &[String], name: &[String], desc: &[String], disp: &[String]) -> String {
    let render = |vs: &[String]| {
        let mut r: Vec<String> = vs.iter().map(|s| show_s(s)).collect();
        r.sort();
        r.join("+")
    };
    let cl: Vec<String> = classes.iter().filter(|c| CLASS_POOL.contains(&c.as_str())).cloned().collect();
    let desc_l: Vec<String> = desc.iter().map(|s| s.to_lowercase()).collect();
    let disp_l: Vec<String> = disp.iter().map(|s| s.to_lowercase()).collect();
    let mut parts: Vec<(usize, String)> = vec![(UUID_A, format!("n{}", nat_of(uuid)))];
    for (a, vs) in [(CLASS, &cl[..]), (NAME, name), (DESC, desc), (DISP, disp), (DESC + 10, &desc_l[..]), (DISP + 10, &disp_l[..])] {
        if !vs.is_empty() {
            parts.push((a, render(vs)));
        }
    }
    parts.sort_by_key(|x| x.0);
    parts.into_iter().map(|(a, v)| format!("{a}={v}")).collect::<Vec<_>>().join(",")
}

/// the model's request for an operation
fn model_req(op: &Op) -> String {
    let ids = |v: &[u8]| {
        if v.is_empty() {
            "-".to_string()
        } else {
            v.iter().map(|i| nat_of(&uuid_of(*i)).to_string()).collect::<Vec<_>>().join(".")
        }
    };
    match op {
        Op::Create(es) => format!(
            "op create | {}",
            es.iter()
                .map(|e| {
                    let cl: Vec<String> = classes_of(e.kind).iter().map(|s| s.to_string()).collect();
                    format!(
                        "{}/{}/{}",
                        nat_of(&uuid_of(e.id)),
                        model_attrs(&uuid_of(e.id), &cl, &[e.name.clone()], &e.desc.clone().into_iter().collect::<Vec<_>>(), &e.disp.clone().into_iter().collect::<Vec<_>>()),
                        e.filt.as_ref().map(show_t).unwrap_or_else(|| "-".into())
                    )
                })
                .collect::<Vec<_>>()
                .join(";")
        ),
        Op::Mod(t, a, v) => {
            let val = |s: &Option<String>| s.as_ref().map(|s| show_s(s)).unwrap_or_else(|| "-".into());
            let mut ch = format!("{a}={}", val(v));
            if *a == DESC || *a == DISP {
                ch.push_str(&format!(",{}={}", a + 10, val(&v.as_ref().map(|s| s.to_lowercase()))));
            }
            format!("op mod | {} | {ch}", ids(t))
        }
        Op::Filt(t, f) => format!("op filt | {} | {}", ids(t), show_t(f)),
        Op::Del(t) => format!("op del | {}", ids(t)),
        Op::Rev(i) => format!("op rev | {}", nat_of(&uuid_of(*i))),
    }
}

// ---------------------------------------------------------------------------------------------
// the implementation side

/// the internal system identity (crate-private constructor; committed hook of C23)
fn ident_internal() -> Identity {
    kanidmd_lib::verif_hooks::c23::ident_internal(0).expect("internal identity")
}

fn value_of(a: usize, v: &str) -> Value {
    match a {
        CLASS => Value::new_iutf8(v),
        NAME => Value::new_iname(v),
        _ => Value::new_utf8s(v),
    }
}

fn exec_op(qs: &QueryServer, rt: &tokio::runtime::Runtime, ct: Duration, op: &Op) -> Result<(), String> {
    let mut w = rt.block_on(qs.write(ct)).map_err(|e| format!("write:{e:?}"))?;
    let targets = |ids: &[u8]| Filter::new_ignore_hidden(f_or(ids.iter().map(|i| f_eq(Attribute::Uuid, PartialValue::Uuid(uuid_of(*i)))).collect()));
    let r: Result<(), OperationError> = match op {
        Op::Create(es) => {
            let ents: Vec<Entry<EntryInit, EntryNew>> = es
                .iter()
                .map(|ne| {
                    let mut e: Entry<EntryInit, EntryNew> = Entry::new();
                    for c in classes_of(ne.kind) {
                        e.add_ava(Attribute::Class, Value::new_iutf8(c));
                    }
                    e.add_ava(Attribute::Uuid, Value::Uuid(uuid_of(ne.id)));
                    e.add_ava(Attribute::Name, Value::new_iname(&ne.name));
                    if let Some(d) = &ne.desc {
                        e.add_ava(Attribute::Description, Value::new_utf8s(d));
                    }
                    if let Some(d) = &ne.disp {
                        e.add_ava(Attribute::DisplayName, Value::new_utf8s(d));
                    }
                    if let Some(f) = &ne.filt {
                        e.add_ava(Attribute::DynGroupFilter, Value::JsonFilt(to_proto(f)));
                    }
                    e
                })
                .collect();
            w.internal_create(ents)
        }
        Op::Mod(ids, a, v) => {
            let mut mods = vec![Modify::Purged(attr_of(*a))];
            if let Some(v) = v {
                mods.push(Modify::Present(attr_of(*a), value_of(*a, v)));
            }
            w.internal_modify(&targets(ids), &ModifyList::new_list(mods))
        }
        Op::Filt(ids, t) => w.internal_modify(
            &targets(ids),
            &ModifyList::new_list(vec![
                Modify::Purged(Attribute::DynGroupFilter),
                Modify::Present(Attribute::DynGroupFilter, Value::JsonFilt(to_proto(t))),
            ]),
        ),
        Op::Del(ids) => w.internal_delete(&targets(ids)),
        Op::Rev(i) => {
            let f = Filter::new(f_eq(Attribute::Uuid, PartialValue::Uuid(uuid_of(*i))));
            match ReviveRecycledEvent::from_parts(ident_internal(), &f, &w) {
                Ok(re) => w.revive_recycled(&re),
                Err(e) => Err(e),
            }
        }
    };
    match r {
        Ok(()) => w.commit().map_err(|e| format!("commit:{e:?}")),
        Err(e) => Err(format!("{e:?}")),
    }
}

#[derive(Clone, Debug)]
struct EntObs {
    uuid: Uuid,
    plain: Plain,
    live: bool,
    is_dyn: bool,
    /// `Some(Err(text))` = a stored filter outside the alphabet
    filt: Option<Result<T, String>>,
    dynm: BTreeSet<Uuid>,
    mem: BTreeSet<Uuid>,
    rdmo: BTreeSet<Uuid>,
}

#[derive(Clone, Debug, PartialEq, Eq, PartialOrd, Ord)]
struct Disc {
    group: Uuid,
    entry: Uuid,
    kind: &'static str, // "extra" | "missing" | "matcher"
}

#[derive(Clone, Debug, Default)]
struct Observed {
    ents: Vec<EntObs>,
    discs: Vec<Disc>,
    /// oracle's expected member sets of the live dyngroups, in the model's `exact` format
    expected: String,
    view: String,
}

fn refer_set(e: &EntrySealedCommitted, a: Attribute) -> BTreeSet<Uuid> {
    e.get_ava_refer(a).cloned().unwrap_or_default()
}

fn fmt_uuids(s: &BTreeSet<Uuid>) -> String {
    if s.is_empty() {
        "-".into()
    } else {
        s.iter().map(|u| nat_of(u).to_string()).collect::<Vec<_>>().join(".")
    }
}

fn observe(qs: &QueryServer, rt: &tokio::runtime::Runtime) -> Result<Observed, String> {
    let mut r = rt.block_on(qs.read()).map_err(|e| format!("read:{e:?}"))?;
    let all = r.internal_search(Filter::new(f_pres(Attribute::Class))).map_err(|e| format!("search-all:{e:?}"))?;
    let mut obs = Observed::default();
    for e in all.iter() {
        let mut p: Plain = Default::default();
        for a in 0..NATTR {
            if let Some(vs) = e.get_ava_set(attr_of(a)) {
                p[a] = vs.to_proto_string_clone_iter().collect();
            }
        }
        let live = !(p[CLASS].iter().any(|c| c == "recycled" || c == "tombstone"));
        let is_dyn = p[CLASS].iter().any(|c| c == "dyngroup");
        let filt = e.get_ava_single_protofilter(Attribute::DynGroupFilter).map(|pf| from_proto(pf).ok_or_else(|| format!("{pf:?}")));
        obs.ents.push(EntObs {
            uuid: e.get_uuid(),
            plain: p,
            live,
            is_dyn,
            filt,
            dynm: refer_set(e, Attribute::DynMember),
            mem: refer_set(e, Attribute::Member),
            rdmo: refer_set(e, Attribute::RecycledDirectMemberOf),
        });
    }
    obs.ents.sort_by_key(|e| e.uuid);
    // ---- oracle
    let ident = ident_internal();
    let mut exp_parts = vec![];
    for (gi, g) in obs.ents.iter().enumerate() {
        if !(g.live && g.is_dyn) {
            continue;
        }
        let t = match &g.filt {
            Some(Ok(t)) => t,
            Some(Err(txt)) => return Err(format!("dyngroup {} has a filter outside the alphabet: {txt}", g.uuid)),
            None => continue,
        };
        // the real matcher on the real resolved filter, for the cross-check
        let real = to_fc(t).and_then(|fc| Filter::new(fc).validate(r.get_schema()).ok()).and_then(|f| f.resolve(&ident, None, None).ok());
        let mut expected: BTreeSet<Uuid> = BTreeSet::new();
        for (ei, e) in obs.ents.iter().enumerate() {
            let m = plain(t, &e.plain, &e.uuid);
            if let Some(rf) = &real {
                if all.iter().find(|x| x.get_uuid() == e.uuid).map(|x| x.entry_match_no_index(rf)) != Some(m) {
                    obs.discs.push(Disc { group: g.uuid, entry: e.uuid, kind: "matcher" });
                }
            }
            let _ = (gi, ei);
            if e.live && m {
                expected.insert(e.uuid);
            }
        }
        for u in g.dynm.difference(&expected) {
            obs.discs.push(Disc { group: g.uuid, entry: *u, kind: "extra" });
        }
        for u in expected.difference(&g.dynm) {
            obs.discs.push(Disc { group: g.uuid, entry: *u, kind: "missing" });
        }
        exp_parts.push(format!("{}={}", nat_of(&g.uuid), fmt_uuids(&expected)));
    }
    obs.expected = if exp_parts.is_empty() { "-".into() } else { exp_parts.join(";") };
    // ---- the model's view
    let lo = track_lo();
    let parts: Vec<String> = obs
        .ents
        .iter()
        .filter(|e| e.filt.is_some() || nat_of(&e.uuid) >= lo)
        .map(|e| {
            format!(
                "{}/{}/{}/{}/{}/{}",
                nat_of(&e.uuid),
                if e.live { "L" } else { "R" },
                model_attrs(&e.uuid, &e.plain[CLASS], &e.plain[NAME], &e.plain[DESC], &e.plain[DISP]),
                fmt_uuids(&e.dynm),
                fmt_uuids(&e.mem),
                fmt_uuids(&e.rdmo)
            )
        })
        .collect();
    obs.view = if parts.is_empty() { "-".into() } else { parts.join(";") };
    Ok(obs)
}

/// index layout of the alphabet's attributes, from the schema (`Schema::reload_idxmeta`)
fn layout(qs: &QueryServer, rt: &tokio::runtime::Runtime) -> Result<String, String> {
    let r = rt.block_on(qs.read()).map_err(|e| format!("read:{e:?}"))?;
    let attrs = r.get_schema().get_attributes();
    let mut parts = vec![];
    for a in (0..NATTR).chain([UUID_A]) {
        let sa = attrs.get(&if a == UUID_A { Attribute::Uuid } else { attr_of(a) }).ok_or(format!("no schema attribute {a}"))?;
        if sa.indexed || sa.unique {
            for it in sa.syntax.index_types() {
                parts.push(format!(
                    "{a}:{}",
                    match it {
                        IndexType::Equality => 'e',
                        IndexType::Presence => 'p',
                        IndexType::SubString => 's',
                        IndexType::Ordering => 'o',
                    }
                ));
            }
        }
    }
    Ok(if parts.is_empty() { "-".into() } else { parts.join(",") })
}

fn init_req(obs: &Observed, layout: &str) -> String {
    let ents: Vec<String> = obs
        .ents
        .iter()
        .map(|e| {
            format!(
                "{}/{}/{}/{}/{}/{}",
                nat_of(&e.uuid),
                model_attrs(&e.uuid, &e.plain[CLASS], &e.plain[NAME], &e.plain[DESC], &e.plain[DISP]),
                match &e.filt {
                    Some(Ok(t)) => show_t(t),
                    _ => "-".into(),
                },
                fmt_uuids(&e.dynm),
                fmt_uuids(&e.mem),
                fmt_uuids(&e.rdmo)
            )
        })
        .collect();
    format!(
        "init | {CLASS} {NAME} {UUID_A} {} | {} {} {} n{} | {layout} | {}",
        track_lo(),
        show_s("recycled"),
        show_s("tombstone"),
        show_s("dyngroup"),
        nat_of(&UUID_SYSTEM),
        ents.join(";")
    )
}

// ---------------------------------------------------------------------------------------------
// one history

#[derive(Clone, Debug)]
struct Event {
    kind: &'static str, // "impl-vs-oracle" | "impl-vs-model"
    class: String,
    at: usize,
    expected: String,
    observed: String,
}

#[derive(Clone, Debug, Default)]
struct Outcome {
    events: Vec<Event>,
    /// discrepancies that appeared, with the operation index and whether the entry was revived by it
    fresh: Vec<(usize, Disc, DiscCtx)>,
    ok_ops: usize,
    err_ops: usize,
    op_kinds: BTreeMap<&'static str, u64>,
    grew: usize,
    shrank: usize,
    max_members: usize,
    proper_subset: bool,
    builtin_changed: bool,
    /// the model says the start state and every committed operation so far are in the scope of
    /// `dyn_exact_partial` (`initB`, `opSafeB`, `noDynB`)
    covered_all: bool,
    covered_ops: usize,
    requests: u64,
    fatal: Option<String>,
}

#[derive(Clone, Debug, Default)]
struct DiscCtx {
    entry_is_dyngroup: bool,
    revived_now: bool,
    isolated_not: bool,
}

fn run_history(driver_path: &str, ops: &[Op], stop_at_first_oracle: bool) -> Outcome {
    let mut out = Outcome::default();
    let rt = tokio::runtime::Builder::new_current_thread().enable_all().build().unwrap();
    let mut ct = duration_from_epoch_now();
    let qs = rt.block_on(setup_test(TestConfiguration::default()));
    let mut drv = Driver::spawn(driver_path);
    let obs0 = match observe(&qs, &rt) {
        Ok(o) => o,
        Err(e) => {
            out.fatal = Some(e);
            return out;
        }
    };
    let lay = match layout(&qs, &rt) {
        Ok(l) => l,
        Err(e) => {
            out.fatal = Some(e);
            return out;
        }
    };
    let reply = drv.ask(&init_req(&obs0, &lay));
    if !reply.starts_with("ok ") {
        out.fatal = Some(format!("model init: {reply}"));
        return out;
    }
    if !reply.ends_with(" 1") {
        // the freshly migrated server must be a start state the theorem covers
        out.events.push(Event {
            kind: "impl-vs-model",
            class: "initial-state-out-of-scope".into(),
            at: 0,
            expected: "initB = 1 on the freshly migrated server".into(),
            observed: reply.clone(),
        });
    }
    out.covered_all = reply.ends_with(" 1");
    let mut in_step = true;
    // the initial state must satisfy the property and agree with the model
    let mut prev_discs: BTreeSet<Disc> = obs0.discs.iter().cloned().collect();
    if !prev_discs.is_empty() {
        out.events.push(Event {
            kind: "impl-vs-oracle",
            class: "unclassified".into(),
            at: 0,
            expected: "a freshly migrated server satisfies the property".into(),
            observed: format!("{:?}", obs0.discs),
        });
    }
    let v0 = drv.ask("view");
    if v0 != obs0.view {
        out.events.push(Event { kind: "impl-vs-model", class: "initial-state".into(), at: 0, expected: v0, observed: obs0.view.clone() });
        in_step = false;
    }
    let mut prev = obs0;
    for (k, op) in ops.iter().enumerate() {
        ct += Duration::from_secs(1);
        *out.op_kinds.entry(op.kind()).or_insert(0) += 1;
        let res = std::panic::catch_unwind(std::panic::AssertUnwindSafe(|| exec_op(&qs, &rt, ct, op)));
        let ires = match &res {
            Ok(Ok(())) => "ok".to_string(),
            Ok(Err(e)) => format!("err:{e}"),
            Err(_) => "panic".to_string(),
        };
        if ires == "ok" {
            out.ok_ops += 1;
        } else {
            out.err_ops += 1;
        }
        let obs = match observe(&qs, &rt) {
            Ok(o) => o,
            Err(e) => {
                out.fatal = Some(format!("observe after op {k}: {e}"));
                return out;
            }
        };
        if std::env::var_os("C18_TRACE").is_some() {
            let pre = &track_lo().to_string()[..30];
            let v: Vec<String> = obs.view.split(';').filter(|p| p.starts_with(pre)).map(|p| p.replace(pre, "~")).collect();
            eprintln!("{:>3} {} -> {ires}\n      {}", k, op.token(), v.join("\n      "));
        }
        // ---- correspondence
        if in_step {
            let reply = drv.ask(&model_req(op));
            let (mres, mview) = reply.split_once(' ').unwrap_or((reply.as_str(), ""));
            let short_res = if ires == "ok" { "ok" } else { "err" };
            if mres != short_res || mview != obs.view {
                out.events.push(Event {
                    kind: "impl-vs-model",
                    class: "unclassified".into(),
                    at: k,
                    expected: format!("{mres} {mview}"),
                    observed: format!("{ires} {}", obs.view),
                });
                in_step = false; // the two sides are out of step; the oracle goes on alone
                out.covered_all = false;
            } else {
                let spec = drv.ask("exact");
                if spec != obs.expected {
                    out.events.push(Event {
                        kind: "impl-vs-model",
                        class: "oracle-vs-spec".into(),
                        at: k,
                        expected: format!("specification: {spec}"),
                        observed: format!("oracle: {}", obs.expected),
                    });
                }
                // the theorem's scope test and the property test, evaluated by the model on this history
                let scope = drv.ask("scope");
                let (covered, exact) = scope.split_once(' ').unwrap_or(("0", "0"));
                let oracle_clean = !obs.discs.iter().any(|d| d.kind != "matcher");
                if (exact == "1") != oracle_clean {
                    out.events.push(Event {
                        kind: "impl-vs-model",
                        class: "oracle-vs-spec".into(),
                        at: k,
                        expected: format!("exactB = {exact}"),
                        observed: format!("oracle discrepancies: {:?}", obs.discs),
                    });
                }
                if covered == "1" {
                    out.covered_ops += 1;
                    if !oracle_clean {
                        // `dyn_exact_partial` says this cannot happen while model = implementation
                        out.events.push(Event {
                            kind: "impl-vs-model",
                            class: "in-scope-but-inexact".into(),
                            at: k,
                            expected: "a history in the scope of dyn_exact_partial is exact".into(),
                            observed: format!("{:?}", obs.discs),
                        });
                    }
                } else {
                    out.covered_all = false;
                }
            }
        }
        // ---- statistics on custom groups
        let lo = track_lo();
        for g in obs.ents.iter().filter(|g| g.live && g.is_dyn) {
            let before = prev.ents.iter().find(|x| x.uuid == g.uuid);
            let custom = nat_of(&g.uuid) >= lo;
            if let Some(b) = before {
                if b.dynm != g.dynm {
                    if custom {
                        if g.dynm.difference(&b.dynm).next().is_some() {
                            out.grew += 1;
                        }
                        if b.dynm.difference(&g.dynm).next().is_some() {
                            out.shrank += 1;
                        }
                    } else {
                        out.builtin_changed = true;
                    }
                }
            }
            if custom {
                out.max_members = out.max_members.max(g.dynm.len());
                let tracked_live = obs.ents.iter().filter(|e| e.live && nat_of(&e.uuid) >= lo).count();
                let tracked_members = g.dynm.iter().filter(|u| nat_of(u) >= lo).count();
                if tracked_members > 0 && tracked_members < tracked_live {
                    out.proper_subset = true;
                }
            }
        }
        // ---- oracle
        let cur: BTreeSet<Disc> = obs.discs.iter().cloned().collect();
        let fresh: Vec<Disc> = cur.difference(&prev_discs).cloned().collect();
        if !fresh.is_empty() {
            for d in &fresh {
                let g = obs.ents.iter().find(|e| e.uuid == d.group);
                let e = obs.ents.iter().find(|e| e.uuid == d.entry);
                let cx = DiscCtx {
                    entry_is_dyngroup: e.map(|e| e.is_dyn).unwrap_or(false),
                    revived_now: matches!(op, Op::Rev(i) if uuid_of(*i) == d.entry),
                    isolated_not: matches!(g.and_then(|g| g.filt.clone()), Some(Ok(t)) if has_isolated_not(&t, false)),
                };
                out.fresh.push((k, d.clone(), cx));
            }
            out.events.push(Event {
                kind: "impl-vs-oracle",
                class: "pending".into(),
                at: k,
                expected: "dynmember = live entries satisfying the filter, for every live dyngroup".into(),
                observed: fresh
                    .iter()
                    .map(|d| {
                        let f = obs.ents.iter().find(|e| e.uuid == d.group).and_then(|g| g.filt.clone()).and_then(|r| r.ok()).map(|t| show_t_replay(&t)).unwrap_or_default();
                        format!("{} {} in dynmember of {} [{}]", d.kind, short(&d.entry), short(&d.group), f)
                    })
                    .collect::<Vec<_>>()
                    .join("; "),
            });
            if stop_at_first_oracle {
                out.requests = drv.requests;
                return out;
            }
        }
        prev_discs = cur;
        prev = obs;
    }
    out.requests = drv.requests;
    out
}

/// Run one history on its own thread under a watchdog. `None` = it did not finish.
fn exec_case(driver_path: &str, ops: &[Op], stop_at_first_oracle: bool, watchdog: StdDuration) -> Option<Outcome> {
    let (tx, rx) = channel::<Outcome>();
    let ops = ops.to_vec();
    let dp = driver_path.to_string();
    std::thread::Builder::new()
        .name("c18-case".into())
        .stack_size(32 << 20)
        .spawn(move || {
            let r = std::panic::catch_unwind(std::panic::AssertUnwindSafe(|| run_history(&dp, &ops, stop_at_first_oracle)));
            let out = match r {
                Ok(o) => o,
                Err(p) => Outcome {
                    fatal: Some(format!(
                        "harness panic: {}",
                        p.downcast_ref::<String>().cloned().or_else(|| p.downcast_ref::<&str>().map(|s| s.to_string())).unwrap_or_default()
                    )),
                    ..Default::default()
                },
            };
            let _ = tx.send(out);
        })
        .expect("spawn case");
    rx.recv_timeout(watchdog).ok()
}

// ---------------------------------------------------------------------------------------------
// classification (implementation only)

const D1: &str = "D1:isolated-not";
const F1: &str = "C18-F1:dyngroup-entry-not-candidate";
const F2: &str = "C18-F2:revive-skips-unchanged-match";

fn oracle_events(o: &Outcome) -> Vec<&Event> {
    o.events.iter().filter(|e| e.kind == "impl-vs-oracle").collect()
}

/// Classes of the first oracle failure of a (minimised) history, joined by `+` when the
/// discrepancies that appear with that operation have different explanations. Every discrepancy
/// must be explained, otherwise the whole failure is `unclassified`:
/// * D1 — the group's filter has an isolated NOT and the discrepancy is absent from the same
///   history with every isolated NOT guarded by `And[pres class, …]` (same meaning);
/// * F1 — the entry in excess / missing is itself a dyngroup;
/// * F2 — the missing entry was revived by this very operation.
fn classify(driver_path: &str, ops: &[Op], out: &Outcome, watchdog: StdDuration) -> String {
    let first_at = match oracle_events(out).first() {
        Some(e) => e.at,
        None => return "none".into(),
    };
    let fresh: Vec<&(usize, Disc, DiscCtx)> = out.fresh.iter().filter(|(k, _, _)| *k == first_at).collect();
    if fresh.iter().any(|(_, d, _)| d.kind == "matcher") {
        return "unclassified".into();
    }
    // the discrepancies of the guarded history up to the same operation
    let guarded_discs: Option<BTreeSet<Disc>> = if fresh.iter().any(|(_, _, c)| c.isolated_not) {
        let guarded: Vec<Op> = ops.iter().map(|o| o.map_filters(&|t| guard_nots(t, false))).collect();
        match exec_case(driver_path, &guarded[..=first_at.min(guarded.len() - 1)], false, watchdog) {
            Some(g) if g.fatal.is_none() => Some(g.fresh.iter().map(|(_, d, _)| d.clone()).collect()),
            _ => None,
        }
    } else {
        None
    };
    let mut classes: BTreeSet<&'static str> = BTreeSet::new();
    for (_, d, c) in &fresh {
        if c.isolated_not && guarded_discs.as_ref().map(|g| !g.contains(d)).unwrap_or(false) {
            classes.insert(D1);
        } else if c.entry_is_dyngroup {
            classes.insert(F1);
        } else if c.revived_now && d.kind == "missing" {
            classes.insert(F2);
        } else {
            return "unclassified".into();
        }
    }
    classes.into_iter().collect::<Vec<_>>().join("+")
}

// ---------------------------------------------------------------------------------------------
// generators

const DESCS: [&str; 6] = ["red", "green", "redgreen", "blue", "bluered", "x"];
const DISPS: [&str; 4] = ["ann", "bob", "annbob", "carol"];
const NEEDLES: [&str; 6] = ["red", "green", "blu", "e", "ann", "bob"];

fn name_of(id: u8, variant: u8) -> String {
    format!("c18{}{:02}", (b'a' + variant) as char, id)
}

fn gen_leaf(rng: &mut Rng, ids: &[u8]) -> T {
    match rng.below(12) {
        0 | 1 => T::Eq(CLASS, rng.pick(&["group", "person", "account", "service_account"]).to_string()),
        2 | 3 => T::Eq(DESC, rng.pick(&DESCS).to_string()),
        4 => T::Cnt(DESC, rng.pick(&NEEDLES).to_string()),
        5 => T::Pres(DESC),
        6 => T::Eq(DISP, rng.pick(&DISPS).to_string()),
        7 => T::Cnt(DISP, rng.pick(&NEEDLES).to_string()),
        8 => T::Pres(DISP),
        9 => T::Eq(NAME, name_of(*rng.pick(ids), rng.below(2) as u8)),
        10 => T::Cnt(NAME, rng.pick(&["c18a", "c18b", "a0", "b0", "01", "02", "c18"]).to_string()),
        _ => T::Cnt(DESC, rng.pick(&["re", "ee", "dg"]).to_string()),
    }
}

/// `unguarded` = NOTs may appear anywhere (D1 territory); otherwise every NOT sits under an AND
/// next to a positive term
fn gen_filter(rng: &mut Rng, ids: &[u8], depth: u32, unguarded: bool) -> T {
    if depth == 0 || rng.chance(1, 3) {
        return gen_leaf(rng, ids);
    }
    match rng.below(if unguarded { 4 } else { 3 }) {
        0 => T::Or((0..rng.range(2, 3)).map(|_| gen_filter(rng, ids, depth - 1, unguarded)).collect()),
        1 => T::And((0..rng.range(2, 3)).map(|_| gen_filter(rng, ids, depth - 1, unguarded)).collect()),
        2 => {
            // And with a positive term and a NOT
            let mut l = vec![gen_filter(rng, ids, depth - 1, unguarded), T::Not(Box::new(gen_filter(rng, ids, depth - 1, unguarded)))];
            if rng.chance(1, 3) {
                l.push(gen_filter(rng, ids, depth - 1, unguarded));
            }
            rng.shuffle(&mut l);
            T::And(l)
        }
        _ => T::Not(Box::new(gen_filter(rng, ids, depth - 1, unguarded))),
    }
}

/// conjoin "is not a dyngroup" so that dynamic groups are never candidates (finding F1's territory)
fn no_dyn(t: T) -> T {
    match t {
        T::And(mut l) => {
            l.push(T::Not(Box::new(T::Eq(CLASS, "dyngroup".into()))));
            T::And(l)
        }
        other => T::And(vec![other, T::Not(Box::new(T::Eq(CLASS, "dyngroup".into())))]),
    }
}

#[derive(Clone, Copy, PartialEq)]
enum Flavor {
    /// guarded filters, dyngroups excluded from every filter, revive only of entries whose groups are unchanged
    Clean,
    /// guarded filters; dyngroups may match filters, any revive
    Guarded,
    /// NOTs anywhere
    Free,
}

fn gen_history(rng: &mut Rng, flavor: Flavor, len: usize) -> Vec<Op> {
    let cand_ids: Vec<u8> = (1..=8).collect();
    let dyn_ids: Vec<u8> = (20..=23).collect();
    let mut kind: BTreeMap<u8, char> = BTreeMap::new();
    let mut live: BTreeSet<u8> = BTreeSet::new();
    let mut recycled: BTreeSet<u8> = BTreeSet::new();
    let mut ops = vec![];
    let mkfilter = |rng: &mut Rng| {
        let depth = 2 + rng.below(2) as u32;
        let unguarded = flavor == Flavor::Free && rng.chance(1, 2);
        let f = gen_filter(rng, &cand_ids, depth, unguarded);
        if flavor == Flavor::Clean {
            no_dyn(f)
        } else {
            f
        }
    };
    let new_cand = |rng: &mut Rng, id: u8| -> NewEnt {
        let k = *rng.pick(&['g', 'g', 'p', 'p', 's']);
        NewEnt {
            id,
            kind: k,
            name: name_of(id, 0),
            desc: if rng.chance(2, 3) { Some(rng.pick(&DESCS).to_string()) } else { None },
            disp: if k == 'g' { None } else { Some(rng.pick(&DISPS).to_string()) },
            filt: None,
        }
    };
    // start: a few candidates, one dyngroup (either order)
    let mut first = vec![];
    for id in cand_ids.iter().take(rng.range(2, 4) as usize) {
        let e = new_cand(rng, *id);
        kind.insert(*id, e.kind);
        live.insert(*id);
        first.push(e);
    }
    let dg = |rng: &mut Rng, id: u8, f: T| NewEnt {
        id,
        kind: 'd',
        name: name_of(id, 0),
        desc: if rng.chance(1, 3) { Some(rng.pick(&DESCS).to_string()) } else { None },
        disp: None,
        filt: Some(f),
    };
    let f0 = mkfilter(rng);
    let d0 = dg(rng, dyn_ids[0], f0);
    kind.insert(dyn_ids[0], 'd');
    live.insert(dyn_ids[0]);
    match rng.below(3) {
        0 => {
            ops.push(Op::Create(vec![d0]));
            ops.push(Op::Create(first));
        }
        1 => {
            ops.push(Op::Create(first));
            ops.push(Op::Create(vec![d0]));
        }
        _ => {
            first.push(d0);
            rng.shuffle(&mut first);
            ops.push(Op::Create(first));
        }
    }
    while ops.len() < len {
        let live_c: Vec<u8> = live.iter().copied().filter(|i| kind[i] != 'd').collect();
        let live_d: Vec<u8> = live.iter().copied().filter(|i| kind[i] == 'd').collect();
        let fresh_c: Vec<u8> = cand_ids.iter().copied().filter(|i| !kind.contains_key(i)).collect();
        let fresh_d: Vec<u8> = dyn_ids.iter().copied().filter(|i| !kind.contains_key(i)).collect();
        match rng.below(20) {
            0..=3 if !fresh_c.is_empty() => {
                let n = rng.range(1, 2.min(fresh_c.len() as u64)) as usize;
                let mut es = vec![];
                for id in fresh_c.iter().take(n) {
                    let e = new_cand(rng, *id);
                    kind.insert(*id, e.kind);
                    live.insert(*id);
                    es.push(e);
                }
                if rng.chance(1, 6) && !fresh_d.is_empty() {
                    let f = mkfilter(rng);
                    es.push(dg(rng, fresh_d[0], f));
                    kind.insert(fresh_d[0], 'd');
                    live.insert(fresh_d[0]);
                }
                ops.push(Op::Create(es));
            }
            4 if !fresh_d.is_empty() => {
                let f = mkfilter(rng);
                ops.push(Op::Create(vec![dg(rng, fresh_d[0], f)]));
                kind.insert(fresh_d[0], 'd');
                live.insert(fresh_d[0]);
            }
            5..=9 if !live_c.is_empty() => {
                // modify candidates
                let mut t: Vec<u8> = live_c.clone();
                rng.shuffle(&mut t);
                t.truncate(rng.range(1, 2) as usize);
                match rng.below(6) {
                    0 if t.iter().all(|i| kind[i] != 'g') => ops.push(Op::Mod(t, DISP, Some(rng.pick(&DISPS).to_string()))),
                    1 => {
                        let i = t[0];
                        ops.push(Op::Mod(vec![i], NAME, Some(name_of(i, rng.below(2) as u8))));
                    }
                    2 => ops.push(Op::Mod(t, DESC, None)),
                    _ => {
                        // now and then a dyngroup is changed in the same request: full re-evaluation
                        // of that group and incremental tests of the candidates in one hook call
                        if rng.chance(1, 5) && !live_d.is_empty() {
                            t.push(*rng.pick(&live_d));
                        }
                        ops.push(Op::Mod(t, DESC, Some(rng.pick(&DESCS).to_string())))
                    }
                }
            }
            10..=12 if !live_d.is_empty() => {
                let g = *rng.pick(&live_d);
                let f = mkfilter(rng);
                ops.push(Op::Filt(vec![g], f));
            }
            13 if !live_d.is_empty() => {
                // another attribute of the group: full re-evaluation too
                let g = *rng.pick(&live_d);
                ops.push(Op::Mod(vec![g], DESC, if rng.chance(1, 3) { None } else { Some(rng.pick(&DESCS).to_string()) }));
            }
            14..=16 if !live_c.is_empty() => {
                let mut t: Vec<u8> = live_c.clone();
                rng.shuffle(&mut t);
                t.truncate(rng.range(1, 2) as usize);
                if rng.chance(1, 8) && !live_d.is_empty() {
                    t.push(*rng.pick(&live_d));
                }
                for i in &t {
                    live.remove(i);
                    recycled.insert(*i);
                }
                ops.push(Op::Del(t));
            }
            17 if !live_d.is_empty() => {
                let g = *rng.pick(&live_d);
                live.remove(&g);
                recycled.insert(g);
                ops.push(Op::Del(vec![g]));
            }
            18 | 19 if !recycled.is_empty() => {
                let v: Vec<u8> = recycled.iter().copied().collect();
                let i = *rng.pick(&v);
                if flavor == Flavor::Clean && kind[&i] != 'd' {
                    // a clean revive: no filter may have changed and no group may have been created
                    // since the deletion — approximated by reviving right after the deletion only
                    if !matches!(ops.last(), Some(Op::Del(t)) if t.contains(&i)) {
                        continue;
                    }
                }
                recycled.remove(&i);
                live.insert(i);
                ops.push(Op::Rev(i));
            }
            _ => {}
        }
    }
    ops
}

fn corpus() -> Vec<(&'static str, Vec<&'static str>)> {
    vec![
        // D10 (fixed in edffff2): a recycled entry that matches must not come back at a re-evaluation
        (
            "d10-recycled-at-reevaluation",
            vec![
                "c 1 g c18a01 red - - ;; 2 g c18a02 red - -",
                "c 20 d c18a20 - - (eq 2 s114.101.100)",
                "d 1",
                "m 20 2 blue",
                "f 20 (or (eq 2 s114.101.100) (eq 2 s120))",
                "r 1",
            ],
        ),
        // the built-in dyngroups follow persons and service accounts
        (
            "builtin-all-persons-accounts",
            vec!["c 1 p c18a01 - ann -", "c 2 s c18a02 red bob -", "m 1 3 carol", "d 1", "r 1", "d 1,2"],
        ),
        // filter change in both directions, candidates modified in and out
        (
            "filter-follows",
            vec![
                "c 1 g c18a01 red - - ;; 2 p c18a02 green ann - ;; 20 d c18a20 - - (and (eq 2 s114.101.100) (not (eq 0 s100.121.110.103.114.111.117.112)))",
                "m 2 2 red",
                "m 1 2 green",
                "f 20 (and (cnt 2 s101) (not (eq 0 s100.121.110.103.114.111.117.112)))",
                "m 1,2 2 -",
                "d 20",
                "c 3 g c18a03 red - -",
                "r 20",
            ],
        ),
    ]
}

/// A fixed walk through every transition the property turns on, for one filter `f` and a second
/// filter `g`: candidates of every kind created before and after the group; each candidate's
/// description moved through every pool value (into / out of / within / outside the filter);
/// displayname and name changes; the group's own attribute changed (full re-evaluation); the
/// filter replaced and restored; each candidate deleted and revived; the group deleted, candidates
/// changed meanwhile, the group revived.
fn systematic(f: &T, g: &T) -> Vec<Op> {
    let e = |id: u8, kind: char, desc: Option<&str>, disp: Option<&str>| NewEnt {
        id,
        kind,
        name: name_of(id, 0),
        desc: desc.map(|s| s.to_string()),
        disp: disp.map(|s| s.to_string()),
        filt: None,
    };
    let mut ops = vec![
        Op::Create(vec![e(1, 'g', Some("red"), None), e(2, 'p', None, Some("ann"))]),
        Op::Create(vec![NewEnt { id: 20, kind: 'd', name: name_of(20, 0), desc: None, disp: None, filt: Some(f.clone()) }]),
        Op::Create(vec![e(3, 's', Some("green"), Some("bob")), e(4, 'g', None, None)]),
    ];
    for d in DESCS {
        ops.push(Op::Mod(vec![1, 3], DESC, Some(d.to_string())));
        ops.push(Op::Mod(vec![2, 4], DESC, Some(d.to_string())));
        ops.push(Op::Mod(vec![1], DESC, None));
    }
    for d in DISPS {
        ops.push(Op::Mod(vec![2, 3], DISP, Some(d.to_string())));
    }
    ops.push(Op::Mod(vec![1], NAME, Some(name_of(1, 1))));
    ops.push(Op::Mod(vec![20], DESC, Some("blue".into())));
    ops.push(Op::Filt(vec![20], g.clone()));
    ops.push(Op::Mod(vec![1, 2, 3, 4], DESC, Some("redgreen".into())));
    ops.push(Op::Filt(vec![20], f.clone()));
    for i in 1..=4u8 {
        ops.push(Op::Del(vec![i]));
        ops.push(Op::Rev(i));
    }
    ops.push(Op::Del(vec![1, 2]));
    ops.push(Op::Filt(vec![20], g.clone()));
    ops.push(Op::Rev(1));
    ops.push(Op::Del(vec![20]));
    ops.push(Op::Mod(vec![3, 4], DESC, Some("bluered".into())));
    ops.push(Op::Rev(2));
    ops.push(Op::Rev(20));
    ops
}

fn systematic_filters() -> Vec<T> {
    let nd = |t: T| no_dyn(t);
    let eq = |a: usize, v: &str| T::Eq(a, v.to_string());
    let cnt = |a: usize, v: &str| T::Cnt(a, v.to_string());
    vec![
        nd(eq(DESC, "red")),
        nd(cnt(DESC, "red")),
        nd(T::Or(vec![eq(DESC, "green"), eq(DISP, "ann")])),
        nd(T::And(vec![eq(CLASS, "group"), T::Not(Box::new(cnt(DESC, "blu")))])),
        nd(T::And(vec![T::Pres(DISP), T::Not(Box::new(eq(CLASS, "person")))])),
        nd(T::And(vec![eq(CLASS, "account"), T::Or(vec![cnt(DISP, "bob"), T::Pres(DESC)])])),
        nd(T::Or(vec![T::And(vec![T::Pres(DESC), T::Not(Box::new(cnt(DESC, "e")))]), cnt(NAME, "b01")])),
        nd(T::And(vec![T::Pres(CLASS), T::Not(Box::new(eq(CLASS, "recycled"))), T::Not(Box::new(T::Pres(DESC)))])),
        nd(eq(CLASS, "recycled")),
        nd(T::And(vec![T::Or(vec![eq(DESC, "x"), eq(DESC, "bluered")]), T::Or(vec![eq(CLASS, "group"), eq(CLASS, "service_account")])])),
    ]
}

/// operations the server must refuse (or ignore) without touching any dyngroup: unresolvable and
/// invalid filters, duplicate uuids, filter on a non-dyngroup, dyngroup without filter, targets that
/// do not exist, revive of a live entry
fn malformed() -> Vec<Vec<&'static str>> {
    vec![
        vec![
            "c 1 g c18a01 red - - ;; 2 p c18a02 - ann -",
            "c 20 d c18a20 - - (self)",
            "c 20 d c18a20 - - (and (eq 2 s114.101.100) (self))",
            "c 20 d c18a20 - - (eq 99 s120)",
            "c 20 d c18a20 - - (or (pres 99) (eq 2 s114.101.100))",
            "c 20 d c18a20 - - (eq 2 s114.101.100)",
            "c 20 d c18b20 - - (eq 2 s114.101.100)",
            "f 20 (self)",
            "f 20 (cnt 99 s120)",
            "f 1 (eq 2 s114.101.100)",
            "c 21 d c18a21 - - -",
            "m 7 2 red",
            "d 7",
            "r 7",
            "r 1",
            "f 20 (and)",
            "c 3 g c18a03 red - -",
            "f 20 (or)",
            "f 20 (and (or) (eq 2 s114.101.100))",
            "d 1,7",
            "r 1",
        ],
        vec![
            "c 20 d c18a20 - - (and)",
            "c 1 g c18a01 red - - ;; 1 g c18b01 red - -",
            "c 1 g c18a01 red - -",
            "c 2 g c18a02 red - - ;; 21 d c18a21 - - (self)",
            "c 2 g c18a02 blue - -",
            "d 20",
            "f 20 (eq 2 s114.101.100)",
            "c 3 g c18a03 red - -",
            "r 20",
            "d 1,2,3,20",
            "r 20",
            "r 2",
        ],
    ]
}

// ---------------------------------------------------------------------------------------------
// main

struct Case {
    label: String,
    ops: Vec<Op>,
}

fn history_json(ops: &[Op]) -> J {
    json!({ "ops": ops.iter().map(|o| o.token()).collect::<Vec<_>>() })
}

fn main() {
    if std::env::var_os("RUST_LOG").is_none() {
        std::env::set_var("RUST_LOG", "off");
    }
    let args = Args::parse();
    let watchdog = StdDuration::from_secs(120);
    let mut rep = Report::new(
        "dyngroup",
        "histories of committed create / modify / delete / revive operations on candidates and dynamic groups on a migrated in-memory server; \
         after every operation: dynmember of every live dyngroup (built-ins included) = live entries satisfying its filter (plain evaluator), \
         and the whole tracked state = the Lean model's. non-trivial = a custom dyngroup gained members at >= 1 operation and lost members at >= 1 \
         operation after its creation, and at some point held a non-empty proper subset of the live history entries",
    );
    // ---- replay
    if let Some(path) = &args.replay {
        let v: J = serde_json::from_str(&std::fs::read_to_string(path).expect("replay file")).expect("json");
        let input = v.get("input").cloned().unwrap_or(v);
        let ops: Vec<Op> = input["ops"].as_array().expect("ops").iter().map(|s| Op::parse(s.as_str().unwrap())).collect();
        match exec_case(&args.driver, &ops, false, watchdog) {
            None => rep.fail(Failure {
                kind: "impl-vs-oracle".into(),
                class: "unclassified".into(),
                input: history_json(&ops),
                expected: "the history finishes".into(),
                observed: "watchdog".into(),
            }),
            Some(out) => {
                report_case(&mut rep, &args, "replay", &ops, &out, watchdog, &mut BTreeMap::new());
            }
        }
        rep.case(None);
        rep.write(&args.out);
        println!("c18 replay: {} failure(s)", rep.failures.len());
        std::process::exit(0);
    }
    // ---- the cases
    let mut cases: Vec<Case> = vec![];
    for (label, ops) in corpus() {
        cases.push(Case { label: format!("corpus:{label}"), ops: ops.iter().map(|s| Op::parse(s)).collect() });
    }
    // committed witnesses (corpus/C18/*.json, same format as a replay file, plus `expect`)
    let mut expect_of: BTreeMap<String, String> = BTreeMap::new();
    let dir = ["corpus/C18", "/verif/corpus/C18"].iter().find(|d| std::path::Path::new(d).is_dir()).copied();
    let mut files: Vec<std::path::PathBuf> = dir
        .and_then(|d| std::fs::read_dir(d).ok())
        .map(|d| d.filter_map(|e| e.ok()).map(|e| e.path()).filter(|p| p.extension().map(|x| x == "json").unwrap_or(false)).collect())
        .unwrap_or_default();
    files.sort();
    if files.is_empty() {
        rep.fail(Failure {
            kind: "impl-vs-model".into(),
            class: "harness-setup".into(),
            input: json!({}),
            expected: "corpus/C18/*.json present".into(),
            observed: "no corpus file found".into(),
        });
    }
    for f in files {
        let v: J = serde_json::from_str(&std::fs::read_to_string(&f).expect("corpus file")).expect("corpus json");
        let ops: Vec<Op> = v["input"]["ops"].as_array().expect("ops").iter().map(|s| Op::parse(s.as_str().unwrap())).collect();
        let label = format!("corpusfile:{}", f.file_stem().unwrap().to_string_lossy());
        expect_of.insert(label.clone(), v["expect"].as_str().unwrap_or("pass").to_string());
        cases.push(Case { label, ops });
    }
    for (i, ops) in malformed().into_iter().enumerate() {
        cases.push(Case { label: format!("malformed:{i}"), ops: ops.iter().map(|s| Op::parse(s)).collect() });
    }
    let sf = systematic_filters();
    let n_sys = if args.thorough() { sf.len() } else { 3 };
    for i in 0..n_sys {
        // the quick tier rotates through the pool with the seed
        let k = (i + (args.seed as usize) * n_sys) % sf.len();
        cases.push(Case { label: format!("systematic:{k}"), ops: systematic(&sf[k], &sf[(k + 1) % sf.len()]) });
    }
    let n_random = args.cases(72, 2400);
    for i in 0..n_random {
        let mut rng = Rng::for_case(args.seed, i);
        // while a failing input is being searched for (budget > 1) every flavour gets equal weight
        let flavor = match (i % 6, args.budget > 1) {
            (0 | 1 | 2, false) | (0 | 1, true) => Flavor::Clean,
            (3 | 4, false) | (2 | 3, true) => Flavor::Guarded,
            _ => Flavor::Free,
        };
        let len = rng.range(8, 16) as usize;
        let label = match flavor {
            Flavor::Clean => "random-clean",
            Flavor::Guarded => "random-guarded",
            Flavor::Free => "random-free",
        };
        cases.push(Case { label: label.into(), ops: gen_history(&mut rng, flavor, len) });
    }
    // ---- run them on a few lanes
    let lanes = std::env::var("C18_LANES").ok().and_then(|s| s.parse().ok()).unwrap_or(8usize);
    let cases = Arc::new(cases);
    let next = Arc::new(AtomicU64::new(0));
    let results: Arc<Mutex<BTreeMap<usize, Option<Outcome>>>> = Arc::new(Mutex::new(BTreeMap::new()));
    let t0 = Instant::now();
    let mut handles = vec![];
    for _ in 0..lanes {
        let (cases, next, results, dp) = (cases.clone(), next.clone(), results.clone(), args.driver.clone());
        handles.push(std::thread::spawn(move || loop {
            let i = next.fetch_add(1, AO::SeqCst) as usize;
            if i >= cases.len() {
                break;
            }
            let out = exec_case(&dp, &cases[i].ops, false, watchdog);
            results.lock().unwrap().insert(i, out);
        }));
    }
    for h in handles {
        let _ = h.join();
    }
    let results = std::mem::take(&mut *results.lock().unwrap());
    let t_run = t0.elapsed().as_secs_f64();
    let mut shrunk_per_class: BTreeMap<String, u32> = BTreeMap::new();
    for (i, c) in cases.iter().enumerate() {
        rep.count(&format!("stream:{}", c.label.split(':').next().unwrap()));
        match results.get(&i).cloned().flatten() {
            None => {
                rep.fail(Failure {
                    kind: "impl-vs-oracle".into(),
                    class: "unclassified".into(),
                    input: history_json(&c.ops),
                    expected: "every operation commits or fails".into(),
                    observed: format!("history `{}` did not finish within {watchdog:?}", c.label),
                });
                rep.case(None);
            }
            Some(out) => {
                let got = report_case(&mut rep, &args, &c.label, &c.ops, &out, watchdog, &mut shrunk_per_class);
                if let Some(exp) = expect_of.get(&c.label) {
                    match (&got, exp.as_str()) {
                        (None, "pass") => rep.count("corpus-regression-pass"),
                        (None, _) => {
                            rep.note(format!("{}: the recorded finding `{exp}` no longer reproduces (repaired?)", c.label));
                            rep.count("corpus-finding-not-reproduced");
                        }
                        (Some(g), e) if g.split('+').any(|p| p == e) => rep.count("corpus-finding-reproduced"),
                        (Some(g), e) => rep.note(format!("{}: recorded as `{e}`, now classified `{g}`", c.label)),
                    }
                }
            }
        }
    }
    rep.note(format!("{} histories on {lanes} lanes in {t_run:.1} s, classification and minimisation {:.1} s", cases.len(), t0.elapsed().as_secs_f64() - t_run));
    rep.write(&args.out);
    println!(
        "c18 dyngroup: {} histories, {} non-trivial, {} failure(s), {:.1} s",
        rep.evaluations,
        rep.nontrivial_keys.len(),
        rep.failures.len(),
        t0.elapsed().as_secs_f64()
    );
    std::process::exit(0);
}

/// Returns the class of the history's first oracle failure, if any.
fn report_case(rep: &mut Report, args: &Args, label: &str, ops: &[Op], out: &Outcome, watchdog: StdDuration, shrunk: &mut BTreeMap<String, u32>) -> Option<String> {
    rep.model_requests += out.requests;
    if let Some(f) = &out.fatal {
        rep.fail(Failure { kind: "impl-vs-model".into(), class: "harness".into(), input: history_json(ops), expected: "the case runs".into(), observed: f.clone() });
        rep.case(None);
        return None;
    }
    for (k, n) in &out.op_kinds {
        rep.count_n(&format!("op:{k}"), *n);
    }
    rep.count_n("ops-ok", out.ok_ops as u64);
    rep.count_n("ops-err", out.err_ops as u64);
    if out.builtin_changed {
        rep.count("builtin-dyngroup-changed");
    }
    rep.count_n("ops-in-theorem-scope", out.covered_ops as u64);
    if out.covered_all {
        rep.count("histories-in-theorem-scope");
    }
    let nontrivial = out.grew >= 1 && out.shrank >= 1 && out.proper_subset;
    let key = ops.iter().map(|o| o.token()).collect::<Vec<_>>().join("|");
    rep.case(if nontrivial { Some(key) } else { None });
    if nontrivial && rep.samples.len() < 4 {
        rep.sample(json!({"label": label, "ops": ops.iter().map(|o| o.token()).collect::<Vec<_>>(), "grew": out.grew, "shrank": out.shrank}));
    }
    // ---- model disagreements: a handful, unshrunk beyond a prefix cut
    for e in out.events.iter().filter(|e| e.kind == "impl-vs-model") {
        let n = shrunk.entry(format!("model:{}", e.class)).or_insert(0);
        *n += 1;
        if *n <= 3 {
            let cut = &ops[..=e.at.min(ops.len() - 1)];
            rep.fail(Failure { kind: "impl-vs-model".into(), class: e.class.clone(), input: history_json(cut), expected: e.expected.clone(), observed: e.observed.clone() });
        } else {
            rep.count(&format!("more-model-disagreements:{}", e.class));
        }
    }
    // ---- oracle failures: classify on the minimised witness
    if let Some(first) = oracle_events(out).first() {
        let prefix: Vec<Op> = ops[..=first.at.min(ops.len() - 1)].to_vec();
        let class0 = classify(&args.driver, &prefix, out, watchdog);
        let n = shrunk.entry(format!("oracle:{class0}")).or_insert(0);
        *n += 1;
        rep.count(&format!("oracle-failure:{class0}"));
        if *n <= 1 || class0 == "unclassified" && *n <= 4 {
            // minimise: drop operations while an oracle failure of the same class remains
            let dp = args.driver.clone();
            let min = shrink_list(prefix.clone(), |cand| {
                if cand.is_empty() {
                    return false;
                }
                match exec_case(&dp, cand, true, watchdog) {
                    Some(o) if o.fatal.is_none() && !oracle_events(&o).is_empty() => classify(&dp, cand, &o, watchdog) == class0,
                    _ => false,
                }
            });
            let fin = exec_case(&args.driver, &min, true, watchdog).unwrap_or_default();
            let ev = oracle_events(&fin).first().map(|e| (*e).clone()).unwrap_or_else(|| (*first).clone());
            let class = if oracle_events(&fin).is_empty() { class0.clone() } else { classify(&args.driver, &min, &fin, watchdog) };
            for part in class.split('+') {
                rep.fail(Failure {
                    kind: "impl-vs-oracle".into(),
                    class: part.to_string(),
                    input: history_json(&min),
                    expected: ev.expected.clone(),
                    observed: ev.observed.clone(),
                });
            }
        }
        return Some(class0);
    }
    None
}
