//! C27 — authentication session state machine: real `IdmServer::auth` vs the Lean model
//! (`km_c27`) vs an oracle written from the property text.
//!
//! A *case* is (account configuration, validity window, step sequence). For every case the
//! harness opens a session with `auth(Init)` on a real in-memory server, sends every step,
//! canonicalises each reply, sends the same steps (with the verifier verdicts it knows by
//! construction: right/wrong password, current/previous/wrong TOTP, valid/invalid backup
//! code) to the Lean driver and compares reply by reply. Independently the oracle checks the
//! property statement on the implementation's replies alone.
//!
//! Streams (all in this one binary, one worker thread + server + driver per account config):
//!  * exhaustive step sequences up to length D over the step alphabet, for every
//!    credential configuration x validity window {none, not-yet-valid, expired};
//!  * sequences of length D+1 extending every prefix that is still live (no Denied/Success yet);
//!  * validity boundary cases (Init at valid_from/expire -1ns, +0, +1ns; second-granular too)
//!    and sessions straddling the expiry instant (observation, see notes/C27.md);
//!  * soft-lock interplay: a failure at instant t locks the credential for a second session.
use hlib::*;
use kanidmd_lib::credential::totp::{Totp, TotpAlgo, TotpDigits};
use kanidmd_lib::credential::Credential;
use kanidmd_lib::entry::{Entry, EntryInit, EntryNew};
use kanidmd_lib::idm::authentication::{AuthCredential, AuthState, ClientAuthInfo};
use kanidmd_lib::idm::delayed::DelayedAction;
use kanidmd_lib::idm::event::{
    AuthEvent, AuthEventStep, AuthEventStepCred, AuthEventStepInit, AuthEventStepMech,
};
use kanidmd_lib::idm::server::{IdmServer, IdmServerAudit, IdmServerDelayed};
use kanidmd_lib::prelude::*;
use kanidmd_lib::testkit::{setup_idm_test, TestConfiguration};
use kanidmd_lib::verif_hooks::c27 as hook;
use kanidm_proto::v1::{AuthAllowed, AuthCredential as ProtoCred, AuthIssueSession, AuthMech};
use serde_json::{json, Value as Json};
use std::time::Duration;

const PW_OK: &str = "eicieY7ahchaoCh0eeTa-c27";
const PW_BAD: &str = "this-is-not-the-password";
const BC_OK: &str = "c27-backup-code-1";
const BC_BAD: &str = "c27-backup-code-x";
const T0: u64 = 2_000_000_000;
const FAR_FUTURE: u64 = 200_000_000_000;
const LONG_AGO: u64 = 1_000_000_000;
/// Between two sequences the clock advances by more than a day so that every soft lock has reset.
const SEQ_GAP: u64 = 2 * 86_400 + 17;

#[derive(Clone, Copy, Debug, PartialEq, Eq, Hash, PartialOrd, Ord)]
enum S {
    Bpw,
    Btotp,
    Bbc,
    Banon,
    Bsk,
    Bpk,
    Boauth,
    Pok,
    Pbad,
    Tok,
    Tprev,
    Tbad,
    Cok,
    Cbad,
    Anon,
    SkJunk,
    PkJunk,
}

const ALL_S: [S; 17] = [
    S::Bpw, S::Btotp, S::Bbc, S::Banon, S::Bsk, S::Bpk, S::Boauth, S::Pok, S::Pbad, S::Tok,
    S::Tprev, S::Tbad, S::Cok, S::Cbad, S::Anon, S::SkJunk, S::PkJunk,
];
/// Quick-tier alphabet: every mechanism the harness accounts can have or lack, right and wrong
/// value of every factor, one wrong-type credential.
const QUICK_S: [S; 12] = [
    S::Bpw, S::Btotp, S::Bbc, S::Banon, S::Pok, S::Pbad, S::Tok, S::Tprev, S::Tbad, S::Cok,
    S::Anon, S::SkJunk,
];

impl S {
    fn name(self) -> String {
        format!("{self:?}")
    }
    fn parse(s: &str) -> S {
        *ALL_S.iter().find(|x| x.name() == s).unwrap_or_else(|| panic!("bad step {s}"))
    }
    fn mech(self) -> Option<AuthMech> {
        Some(match self {
            S::Bpw => AuthMech::Password,
            S::Btotp => AuthMech::PasswordTotp,
            S::Bbc => AuthMech::PasswordBackupCode,
            S::Banon => AuthMech::Anonymous,
            S::Bsk => AuthMech::PasswordSecurityKey,
            S::Bpk => AuthMech::Passkey,
            S::Boauth => AuthMech::OAuth2Trust,
            _ => return None,
        })
    }
}

/// Credential configuration of a harness account.
#[derive(Clone, Copy, Debug)]
struct Cfg {
    name: &'static str,
    /// model encoding of the primary credential
    prim: &'static str,
    anon: bool,
    has_pw: bool,
    generated: bool,
    has_totp: bool,
    has_bc: bool,
}

const CFGS: [Cfg; 6] = [
    Cfg { name: "anonymous", prim: "none", anon: true, has_pw: false, generated: false, has_totp: false, has_bc: false },
    Cfg { name: "nocred", prim: "none", anon: false, has_pw: false, generated: false, has_totp: false, has_bc: false },
    Cfg { name: "pw", prim: "pw", anon: false, has_pw: true, generated: false, has_totp: false, has_bc: false },
    Cfg { name: "gpw", prim: "gpw", anon: false, has_pw: true, generated: true, has_totp: false, has_bc: false },
    Cfg { name: "totp", prim: "mfa100", anon: false, has_pw: true, generated: false, has_totp: true, has_bc: false },
    Cfg { name: "totpbc", prim: "mfa101", anon: false, has_pw: true, generated: false, has_totp: true, has_bc: true },
];

#[derive(Clone, Copy, Debug, PartialEq, Eq)]
enum Win {
    Open,
    NotYet,
    Expired,
    /// explicit bounds in seconds (boundary stream)
    Bounds(u64, u64),
}

impl Win {
    fn bounds(self) -> (Option<u64>, Option<u64>) {
        match self {
            Win::Open => (None, None),
            Win::NotYet => (Some(FAR_FUTURE), None),
            Win::Expired => (None, Some(LONG_AGO)),
            Win::Bounds(a, b) => (Some(a), Some(b)),
        }
    }
    fn tag(self) -> String {
        match self {
            Win::Open => "open".into(),
            Win::NotYet => "notyet".into(),
            Win::Expired => "expired".into(),
            Win::Bounds(a, b) => format!("b{a}-{b}"),
        }
    }
}

struct Worker {
    cfg: Cfg,
    idms: IdmServer,
    delayed: IdmServerDelayed,
    _audit: IdmServerAudit,
    drv: Driver,
    rep: Report,
    totp: Totp,
    /// seconds
    clock: u64,
    next_uuid: u64,
}

fn reason_code(msg: &str) -> String {
    match msg {
        "incorrect password" => "badpassword".into(),
        "incorrect totp" => "badtotp".into(),
        "invalid webauthn authentication" => "badwebauthn".into(),
        "the credential no longer meets account policy requirements" => "badaccountpolicy".into(),
        "invalid backup code" => "badbackupcode".into(),
        "invalid authentication method in this context" => "badauthtype".into(),
        "invalid credential message" => "badcredentials".into(),
        "account expired" => "accountexpired".into(),
        "password is in badlist" => "pwbadlist".into(),
        "invalid credential state" => "invalidcredstate".into(),
        "Account is temporarily locked" => "locked".into(),
        other => format!("?{other}"),
    }
}

fn junk_webauthn(sk: bool) -> AuthCredential {
    let pkc = json!({
        "id": "AAAA", "rawId": "AAAA",
        "response": {"authenticatorData": "AAAA", "clientDataJSON": "AAAA", "signature": "AAAA", "userHandle": null},
        "extensions": {}, "type": "public-key"
    });
    let v = if sk { json!({"securitykey": pkc}) } else { json!({"passkey": pkc}) };
    let p: ProtoCred = serde_json::from_value(v).expect("junk webauthn credential");
    AuthCredential::from(p)
}

impl Worker {
    async fn new(cfg: Cfg, driver: &str) -> Worker {
        let (idms, delayed, audit) = setup_idm_test(TestConfiguration::default()).await;
        Worker {
            cfg,
            idms,
            delayed,
            _audit: audit,
            drv: Driver::spawn(driver),
            rep: Report::new("authsession", ""),
            totp: Totp::new(vec![7u8; 32], 30, TotpAlgo::Sha256, TotpDigits::Six),
            clock: T0,
            next_uuid: 1,
        }
    }

    fn credential(&self) -> Option<Credential> {
        let c = self.cfg;
        if !c.has_pw {
            return None;
        }
        let mut cred = hook::cred_password(PW_OK, c.generated).unwrap();
        if c.has_totp {
            cred = hook::cred_append_totp(&cred, "totp", self.totp.clone());
        }
        if c.has_bc {
            cred = hook::cred_set_backup_codes(&cred, &[BC_OK, "c27-backup-code-2"]).unwrap();
        }
        Some(cred)
    }

    /// Create (or return) the account for a window; returns its login name.
    async fn account(&mut self, win: Win) -> String {
        if self.cfg.anon {
            return "anonymous".into();
        }
        let name = format!("c27{}{}", self.cfg.name, self.next_uuid);
        let uuid = nat_uuid(0xC27_0000 + self.next_uuid);
        self.next_uuid += 1;
        let mut e: Entry<EntryInit, EntryNew> = Entry::new();
        e.add_ava(Attribute::Class, EntryClass::Object.to_value());
        e.add_ava(Attribute::Class, EntryClass::Account.to_value());
        e.add_ava(Attribute::Class, EntryClass::Person.to_value());
        e.add_ava(Attribute::Name, Value::new_iname(&name));
        e.add_ava(Attribute::Uuid, Value::Uuid(uuid));
        e.add_ava(Attribute::Description, Value::new_utf8s(&name));
        e.add_ava(Attribute::DisplayName, Value::new_utf8s(&name));
        if let Some(cred) = self.credential() {
            e.add_ava(Attribute::PrimaryCredential, Value::new_credential("primary", cred));
        }
        let (vf, ex) = win.bounds();
        if let Some(vf) = vf {
            e.add_ava(Attribute::AccountValidFrom, Value::new_datetime_epoch(Duration::from_secs(vf)));
        }
        if let Some(ex) = ex {
            e.add_ava(Attribute::AccountExpire, Value::new_datetime_epoch(Duration::from_secs(ex)));
        }
        let mut w = self.idms.proxy_write(Duration::from_secs(self.clock)).await.unwrap();
        w.qs_write.internal_create(vec![e]).expect("create account");
        w.commit().expect("commit account");
        name
    }

    /// Drain the delayed-action queue; returns the auth type of a recorded session, if any.
    async fn drain_delayed(delayed: &mut IdmServerDelayed) -> Option<String> {
        let mut found = None;
        loop {
            let mut buf: Vec<DelayedAction> = Vec::with_capacity(8);
            let n = tokio::select! {
                biased;
                n = delayed.recv_many(&mut buf) => n,
                _ = std::future::ready(()) => 0,
            };
            if n == 0 {
                break;
            }
            for da in buf {
                if let DelayedAction::AuthSessionRecord(asr) = da {
                    found = Some(format!("{:?}", asr.type_).to_lowercase());
                }
            }
        }
        found
    }

    async fn show(delayed: &mut IdmServerDelayed, r: Result<kanidmd_lib::idm::event::AuthResult, OperationError>) -> String {
        match r {
            Ok(ar) => match ar.state {
                AuthState::Choose(ms) => {
                    let v: Vec<String> = ms.iter().map(|m| format!("{m:?}").to_lowercase()).collect();
                    format!("choose {}", if v.is_empty() { "-".into() } else { v.join(",") })
                }
                AuthState::Continue(al) => {
                    let v: Vec<&str> = al
                        .iter()
                        .map(|a| match a {
                            AuthAllowed::Anonymous => "anonymous",
                            AuthAllowed::BackupCode => "backupcode",
                            AuthAllowed::Password => "password",
                            AuthAllowed::Totp => "totp",
                            AuthAllowed::SecurityKey(_) => "securitykey",
                            AuthAllowed::Passkey(_) => "passkey",
                        })
                        .collect();
                    format!("continue {}", if v.is_empty() { "-".into() } else { v.join(",") })
                }
                AuthState::External(_) => "external".into(),
                AuthState::Denied(msg) => format!("denied {}", reason_code(&msg)),
                AuthState::Success(_, _) => {
                    let t = Self::drain_delayed(delayed).await.unwrap_or_else(|| "anonymous".into());
                    format!("success {t}")
                }
            },
            Err(OperationError::InvalidAuthState(_)) => "err invalidauthstate".into(),
            Err(OperationError::AU0001InvalidState) => "err au0001invalidstate".into(),
            Err(OperationError::InvalidSessionState) => "err invalidsessionstate".into(),
            Err(e) => format!("err ?{e:?}"),
        }
    }

    /// The model's request line for a step (verdicts known by construction).
    fn model_line(&self, s: S, locked: bool) -> String {
        let l = locked as u8;
        let c = self.cfg;
        match s {
            S::Pok => format!("cred pw {} 0 {l}", c.has_pw as u8),
            S::Pbad => format!("cred pw 0 0 {l}"),
            S::Tok | S::Tprev => format!("cred totp {} {l}", c.has_totp as u8),
            S::Tbad => format!("cred totp 0 {l}"),
            S::Cok => format!("cred bc {} {l}", c.has_bc as u8),
            S::Cbad => format!("cred bc 0 {l}"),
            S::Anon => format!("cred anon {l}"),
            S::SkJunk => format!("cred sk 0 {l}"),
            S::PkJunk => format!("cred pk 0 0 0 {l}"),
            b => format!("begin {} {l}", format!("{:?}", b.mech().unwrap()).to_lowercase()),
        }
    }

    fn event(&self, s: S, sid: Uuid, ct: Duration) -> AuthEvent {
        let step = if let Some(mech) = s.mech() {
            AuthEventStep::Begin(AuthEventStepMech { sessionid: sid, mech })
        } else {
            let now = self.totp.do_totp_duration_from_epoch(&ct).unwrap();
            let prev = self.totp.do_totp_duration_from_epoch(&(ct - Duration::from_secs(30))).unwrap();
            // a code that is neither the current nor the previous window's
            let mut bad = (now + 1) % 1_000_000;
            while bad == now || bad == prev {
                bad = (bad + 1) % 1_000_000;
            }
            let cred = match s {
                S::Pok => AuthCredential::Password(PW_OK.into()),
                S::Pbad => AuthCredential::Password(PW_BAD.into()),
                S::Tok => AuthCredential::Totp(now),
                S::Tprev => AuthCredential::Totp(prev),
                S::Tbad => AuthCredential::Totp(bad),
                S::Cok => AuthCredential::BackupCode(BC_OK.into()),
                S::Cbad => AuthCredential::BackupCode(BC_BAD.into()),
                S::Anon => AuthCredential::Anonymous,
                S::SkJunk => junk_webauthn(true),
                S::PkJunk => junk_webauthn(false),
                _ => unreachable!(),
            };
            AuthEventStep::Cred(AuthEventStepCred { sessionid: sid, cred })
        };
        AuthEvent { ident: None, step }
    }

    fn model_new(&self, win: Win, ct_ns: u128) -> String {
        let (vf, ex) = win.bounds();
        let f = |x: Option<u64>| x.map(|v| (v as u128 * 1_000_000_000).to_string()).unwrap_or("-".into());
        format!(
            "new {} {} 0 0 0 0 {} {} {}",
            self.cfg.anon as u8,
            self.cfg.prim,
            f(vf),
            f(ex),
            ct_ns
        )
    }

    /// Run one session: Init at `ct_init`, every step at `ct_steps`. Returns (impl, model) replies,
    /// index 0 being the reply to Init.
    async fn session(
        &mut self,
        name: &str,
        win: Win,
        steps: &[S],
        ct_init: Duration,
        ct_steps: Duration,
    ) -> (Vec<String>, Vec<String>) {
        let mut imp = Vec::with_capacity(steps.len() + 1);
        let mut lines = Vec::with_capacity(steps.len() + 1);
        lines.push(self.model_new(win, ct_init.as_nanos()));
        let mut a = self.idms.auth().await.unwrap();
        a.expire_auth_sessions(ct_init).await;
        let init = AuthEvent {
            ident: None,
            step: AuthEventStep::Init(AuthEventStepInit {
                username: name.to_string(),
                issue: AuthIssueSession::Token,
                privileged: false,
            }),
        };
        let r = a.auth(&init, ct_init, ClientAuthInfo::new(Source::Internal, None, None, None)).await;
        let sid = r.as_ref().map(|x| x.sessionid).unwrap_or(Uuid::nil());
        imp.push(Self::show(&mut self.delayed, r).await);
        for s in steps {
            let ev = self.event(*s, sid, ct_steps);
            let r = a.auth(&ev, ct_steps, ClientAuthInfo::new(Source::Internal, None, None, None)).await;
            imp.push(Self::show(&mut self.delayed, r).await);
            lines.push(self.model_line(*s, false));
        }
        let _ = a.commit();
        Self::drain_delayed(&mut self.delayed).await;
        let model = self.drv.ask_batch(&lines);
        (imp, model)
    }

    /// The property statement evaluated on the implementation's replies (nothing from the model).
    fn oracle(&self, in_window: Option<bool>, steps: &[S], imp: &[String]) -> Result<(), String> {
        let c = self.cfg;
        let mfa = c.has_totp || c.has_bc;
        // (b) an account with a second factor is never offered password-only login
        if mfa && imp[0].starts_with("choose") {
            let offered: Vec<&str> = imp[0]["choose ".len()..].split(',').collect();
            if offered.contains(&"password") {
                return Err("password-only mechanism offered to an MFA account".into());
            }
        }
        // (d) once a step is denied, or after success, no further step is accepted
        if let Some(k) = imp.iter().position(|r| r.starts_with("denied") || r.starts_with("success")) {
            if let Some(j) = imp.iter().skip(k + 1).position(|r| !r.starts_with("err")) {
                return Err(format!("step {} accepted after the session ended at reply {k}", k + 1 + j));
            }
        }
        // (a)+(c): a token only after every factor of the chosen mechanism, in order, verified
        // in this session; never outside the validity window
        if let Some(k) = imp.iter().position(|r| r.starts_with("success")) {
            if in_window == Some(false) {
                return Err("token issued to an account outside its validity window".into());
            }
            if k == 0 {
                return Err("token issued by Init".into());
            }
            let acc: Vec<S> =
                (0..k).filter(|i| !imp[i + 1].starts_with("err")).map(|i| steps[i]).collect();
            let is = |s: &S, set: &[S]| set.contains(s);
            let ok = match acc.as_slice() {
                [S::Banon, f] => c.anon && is(f, &[S::Anon]),
                [S::Bpw, f] => c.has_pw && !mfa && is(f, &[S::Pok]),
                [S::Btotp, f1, f2] => c.has_totp && is(f1, &[S::Tok, S::Tprev]) && is(f2, &[S::Pok]),
                [S::Bbc, f1, f2] => c.has_bc && is(f1, &[S::Cok]) && is(f2, &[S::Pok]),
                _ => false,
            };
            if !ok {
                return Err(format!(
                    "token issued although the accepted steps {:?} are not: begin(m), then every factor of m, right and in order",
                    acc
                ));
            }
        }
        Ok(())
    }

    fn input_json(&self, win: Win, steps: &[S], kind: &str, extra: Json) -> Json {
        json!({
            "cfg": self.cfg.name, "window": win.tag(), "kind": kind,
            "steps": steps.iter().map(|s| s.name()).collect::<Vec<_>>(),
            "extra": extra,
        })
    }

    fn check(
        &mut self,
        win: Win,
        in_window: Option<bool>,
        steps: &[S],
        imp: &[String],
        model: &[String],
        kind: &str,
        extra: Json,
    ) {
        let began = imp.iter().skip(1).any(|r| r.starts_with("continue"));
        let key = format!("{}|{}|{}|{}", self.cfg.name, win.tag(), kind, steps.iter().map(|s| s.name()).collect::<Vec<_>>().join(","));
        self.rep.case(if began { Some(key) } else { None });
        self.rep.count(&format!("cfg:{}", self.cfg.name));
        self.rep.count(&format!("window:{}", match win { Win::Bounds(..) => "bounds".to_string(), w => w.tag() }));
        self.rep.count(&format!("len:{}", steps.len()));
        let outcome = if imp.iter().any(|r| r.starts_with("success")) {
            "success"
        } else if imp.iter().any(|r| r.starts_with("denied")) {
            "denied"
        } else if began {
            "in-progress"
        } else {
            "never-began"
        };
        self.rep.count(&format!("outcome:{outcome}"));
        for r in imp.iter().skip(1) {
            let k: String = r.split(' ').take(2).collect::<Vec<_>>().join(" ");
            self.rep.count(&format!("reply:{}", if r.starts_with("continue") || r.starts_with("success") || r.starts_with("denied") || r.starts_with("err") { k } else { r.clone() }));
        }
        if self.rep.evaluations % 4001 == 7 || (outcome == "success" && self.rep.samples.len() < 2) {
            self.rep.sample(json!({"cfg": self.cfg.name, "window": win.tag(),
                "steps": steps.iter().map(|s| s.name()).collect::<Vec<_>>(), "impl": imp, "model": model}));
        }
        if let Err(what) = self.oracle(in_window, steps, imp) {
            self.rep.fail(Failure {
                kind: "impl-vs-oracle".into(),
                class: "unclassified".into(),
                input: self.input_json(win, steps, kind, extra.clone()),
                expected: what,
                observed: imp.join(" | "),
            });
        }
        if imp != model {
            self.rep.fail(Failure {
                kind: "impl-vs-model".into(),
                class: "unclassified".into(),
                input: self.input_json(win, steps, kind, extra),
                expected: model.join(" | "),
                observed: imp.join(" | "),
            });
        }
    }

    /// One ordinary case: the whole session at one instant, a fresh instant per case.
    async fn case(&mut self, name: &str, win: Win, steps: &[S]) -> Vec<String> {
        self.clock += SEQ_GAP;
        let ct = Duration::from_secs(self.clock);
        let (imp, model) = self.session(name, win, steps, ct, ct).await;
        let in_window = match win {
            Win::Open => Some(true),
            Win::NotYet | Win::Expired => Some(false),
            Win::Bounds(..) => None,
        };
        self.check(win, in_window, steps, &imp, &model, "seq", json!(null));
        imp
    }
}

impl Worker {
    async fn do_init(&mut self, name: &str, ct: Duration) -> (Uuid, String) {
        let mut a = self.idms.auth().await.unwrap();
        let init = AuthEvent {
            ident: None,
            step: AuthEventStep::Init(AuthEventStepInit {
                username: name.to_string(),
                issue: AuthIssueSession::Token,
                privileged: false,
            }),
        };
        let r = a.auth(&init, ct, ClientAuthInfo::new(Source::Internal, None, None, None)).await;
        let sid = r.as_ref().map(|x| x.sessionid).unwrap_or(Uuid::nil());
        (sid, Self::show(&mut self.delayed, r).await)
    }

    async fn do_step(&mut self, sid: Uuid, s: S, ct: Duration) -> String {
        let ev = self.event(s, sid, ct);
        let mut a = self.idms.auth().await.unwrap();
        let r = a.auth(&ev, ct, ClientAuthInfo::new(Source::Internal, None, None, None)).await;
        Self::show(&mut self.delayed, r).await
    }
}

/// Soft-lock interplay (the lock itself is C28; here: where `auth` consults it and that a
/// locked credential ends the session). A wrong first factor in session 1 at instant t locks
/// the credential; at the same instant a second session is refused at Begin (A), or at its
/// next credential if it had begun before (B), or at a repeated Begin (C); two seconds later
/// the lock is open again (D). `locked` is known by construction.
async fn run_softlock(w: &mut Worker) {
    let (begin, wrong, right): (S, S, Vec<S>) = match w.cfg.name {
        "pw" | "gpw" => (S::Bpw, S::Pbad, vec![S::Pok]),
        "totp" | "totpbc" => (S::Btotp, S::Tbad, vec![S::Tok, S::Pok]),
        _ => return,
    };
    let win = Win::Open;
    let name = w.account(win).await;
    for scenario in ["A", "B", "C", "D"] {
        w.clock += SEQ_GAP;
        let ct = Duration::from_secs(w.clock);
        // every session: (steps, locked flags, impl replies)
        let mut s1: (Vec<S>, Vec<bool>, Vec<String>) = (vec![], vec![], vec![]);
        let mut s2: (Vec<S>, Vec<bool>, Vec<String>) = (vec![], vec![], vec![]);
        let (sid1, r) = w.do_init(&name, ct).await;
        s1.2.push(r);
        // distinct session ids need distinct instants
        let ct2 = ct + Duration::from_nanos(1);
        let (sid2, r) = w.do_init(&name, ct2).await;
        s2.2.push(r);
        if scenario == "B" || scenario == "C" {
            s2.0.push(begin); s2.1.push(false);
            s2.2.push(w.do_step(sid2, begin, ct2).await);
        }
        for st in [begin, wrong] {
            s1.0.push(st); s1.1.push(false);
            s1.2.push(w.do_step(sid1, st, ct2).await);
        }
        match scenario {
            "A" => {
                s2.0.push(begin); s2.1.push(true);
                s2.2.push(w.do_step(sid2, begin, ct2).await);
                s2.0.push(right[0]); s2.1.push(true);
                s2.2.push(w.do_step(sid2, right[0], ct2).await);
            }
            "B" => {
                s2.0.push(right[0]); s2.1.push(true);
                s2.2.push(w.do_step(sid2, right[0], ct2).await);
            }
            "C" => {
                s2.0.push(begin); s2.1.push(true);
                s2.2.push(w.do_step(sid2, begin, ct2).await);
            }
            _ => {
                let later = ct2 + Duration::from_secs(2);
                s2.0.push(begin); s2.1.push(false);
                s2.2.push(w.do_step(sid2, begin, later).await);
                for st in &right {
                    s2.0.push(*st); s2.1.push(false);
                    s2.2.push(w.do_step(sid2, *st, later).await);
                }
            }
        }
        Worker::drain_delayed(&mut w.delayed).await;
        for (k, sess) in [s1, s2].into_iter().enumerate() {
            let mut lines = vec![w.model_new(win, ct.as_nanos())];
            for (st, l) in sess.0.iter().zip(sess.1.iter()) {
                lines.push(w.model_line(*st, *l));
            }
            let model = w.drv.ask_batch(&lines);
            if sess.2.iter().any(|r| r == "denied locked") {
                w.rep.count("softlock:denied-locked");
            }
            w.check(win, Some(true), &sess.0, &sess.2, &model, "softlock", json!({"scenario": scenario, "session": k + 1}));
        }
    }
}

/// Still live = nothing so far ended the session, judged from the implementation's replies.
fn live(steps: &[S], imp: &[String]) -> bool {
    if !imp[0].starts_with("choose") {
        return false;
    }
    for (i, r) in imp.iter().enumerate().skip(1) {
        if r.starts_with("denied") || r.starts_with("success") {
            return false;
        }
        if steps[i - 1].mech().is_some() && r == "err au0001invalidstate" {
            return false;
        }
    }
    true
}

async fn run_sequences(w: &mut Worker, alphabet: &[S], depth: usize, extra_depth: usize, shard: usize, nshards: usize) {
    let wins: &[Win] = if w.cfg.anon { &[Win::Open] } else { &[Win::Open, Win::NotYet, Win::Expired] };
    for win in wins {
        let name = w.account(*win).await;
        // out-of-window accounts answer Denied at Init and nothing is stored: shorter sequences suffice
        let d = if *win == Win::Open { depth } else { depth.min(3) };
        let mut frontier: Vec<Vec<S>> = vec![vec![]];
        let mut live_set: Vec<Vec<S>> = vec![];
        for level in 1..=(d + extra_depth) {
            let base = if level <= d { std::mem::take(&mut frontier) } else { std::mem::take(&mut live_set) };
            let mut next = Vec::new();
            let mut next_live = Vec::new();
            for p in &base {
                for (ai, a) in alphabet.iter().enumerate() {
                    if level == 1 && ai % nshards != shard {
                        continue;
                    }
                    let mut s = p.clone();
                    s.push(*a);
                    let imp = w.case(&name, *win, &s).await;
                    if live(&s, &imp) {
                        next_live.push(s.clone());
                    }
                    if level < d {
                        next.push(s);
                    }
                }
            }
            frontier = next;
            live_set = next_live;
            if *win != Win::Open && level >= d {
                break;
            }
        }
    }
}

/// Validity boundaries: Init exactly at / 1 ns / 1 s around valid_from and expire, then the
/// account's shortest successful sequence; and sessions that straddle the expiry instant.
async fn run_boundaries(w: &mut Worker) {
    let good: Vec<S> = match w.cfg.name {
        "pw" | "gpw" => vec![S::Bpw, S::Pok],
        "totp" | "totpbc" => vec![S::Btotp, S::Tok, S::Pok],
        _ => return,
    };
    for round in 0..3u64 {
        w.clock += SEQ_GAP;
        let vf = w.clock + 1000 + round;
        let ex = vf + 500;
        let win = Win::Bounds(vf, ex);
        let name = w.account(win).await;
        let ns = Duration::from_nanos(1);
        let s1 = Duration::from_secs(1);
        let vfd = Duration::from_secs(vf);
        let exd = Duration::from_secs(ex);
        let points = [
            (vfd - s1, Some(false)), (vfd - ns, Some(false)), (vfd, None), (vfd + ns, Some(true)), (vfd + s1, Some(true)),
            (exd - s1, Some(true)), (exd - ns, Some(true)), (exd, None), (exd + ns, Some(false)), (exd + s1, Some(false)),
        ];
        for (ct, inw) in points {
            let (imp, model) = w.session(&name, win, &good, ct, ct).await;
            w.rep.count(&format!("boundary:{}", if imp[0].starts_with("choose") { "admitted" } else { "refused" }));
            w.check(win, inw, &good, &imp, &model, "boundary", json!({"ct_ns": ct.as_nanos().to_string()}));
        }
        // straddle: Init inside the window, steps after the expiry instant (the code checks the
        // window in AuthSession::new only). Interpretation (notes/C27.md): "outside its validity
        // window" is judged at session start; the observation is counted, not failed.
        let (imp, model) = w.session(&name, win, &good, exd, exd + Duration::from_secs(10)).await;
        if imp.iter().any(|r| r.starts_with("success")) {
            w.rep.count("observation:session-started-in-window-finished-after-expiry-succeeds");
        }
        w.check(win, Some(true), &good, &imp, &model, "straddle", json!({"init": ex, "steps": ex + 10}));
    }
}

fn merge(into: &mut Report, from: Report) {
    into.evaluations += from.evaluations;
    into.nontrivial_keys.extend(from.nontrivial_keys);
    for (k, v) in from.histogram {
        *into.histogram.entry(k).or_insert(0) += v;
    }
    for s in from.samples {
        into.sample(s);
    }
    for f in from.failures {
        into.fail(f);
    }
    into.notes.extend(from.notes);
    into.model_requests += from.model_requests;
}

fn worker_thread(cfg: Cfg, driver: String, thorough: bool, replay: Option<Json>, shard: usize, nshards: usize) -> Report {
    let rt = tokio::runtime::Builder::new_current_thread().enable_all().build().unwrap();
    rt.block_on(async move {
        let mut w = Worker::new(cfg, &driver).await;
        if let Some(inp) = replay {
            let steps: Vec<S> = inp["steps"].as_array().unwrap().iter().map(|s| S::parse(s.as_str().unwrap())).collect();
            let win = match inp["window"].as_str().unwrap() {
                "open" => Win::Open,
                "notyet" => Win::NotYet,
                "expired" => Win::Expired,
                _ => Win::Open,
            };
            if inp["kind"] == "seq" {
                let name = w.account(win).await;
                w.case(&name, win, &steps).await;
            } else if inp["kind"] == "softlock" {
                run_softlock(&mut w).await;
            } else {
                run_boundaries(&mut w).await;
            }
        } else {
            let (alphabet, depth): (&[S], usize) = if thorough { (&ALL_S, 4) } else { (&QUICK_S, 3) };
            run_sequences(&mut w, alphabet, depth, 1, shard, nshards).await;
            if shard == 0 {
                run_boundaries(&mut w).await;
                run_softlock(&mut w).await;
            }
        }
        w.rep.model_requests = w.drv.requests;
        w.rep
    })
}

fn main() {
    if std::env::var("RUST_LOG").is_err() {
        std::env::set_var("RUST_LOG", "off");
    }
    let args = Args::parse();
    let mut rep = Report::new(
        "authsession",
        "case = (credential configuration, validity window, step sequence) through IdmServer::auth; \
         non-trivial = a Begin was accepted (a handler went InProgress); distinct = distinct (cfg, window, sequence)",
    );
    let replay: Option<Json> = args.replay.as_ref().map(|p| {
        let v: Json = serde_json::from_str(&std::fs::read_to_string(p).unwrap()).unwrap();
        v["input"].clone()
    });
    let mut handles = vec![];
    for cfg in CFGS {
        if let Some(r) = &replay {
            if r["cfg"] != cfg.name {
                continue;
            }
        }
        let nshards = if replay.is_some() { 1 } else if args.thorough() { 3 } else { 2 };
        for shard in 0..nshards {
            let driver = args.driver.clone();
            let thorough = args.thorough();
            let replay = replay.clone();
            handles.push(std::thread::spawn(move || worker_thread(cfg, driver, thorough, replay, shard, nshards)));
        }
    }
    for h in handles {
        merge(&mut rep, h.join().expect("worker panicked"));
    }
    rep.exhaustive = replay.is_none();
    rep.note(if args.thorough() {
        "exhaustive: all step sequences of length <= 4 over 17 steps + all length-5 extensions of live prefixes, x 6 credential configurations x 3 windows; boundary and straddle cases"
    } else {
        "exhaustive: all step sequences of length <= 3 over 12 steps + all length-4 extensions of live prefixes, x 6 credential configurations x 3 windows; boundary and straddle cases"
    });
    rep.write(&args.out);
    println!("c27: {} cases, {} non-trivial, {} failures", rep.evaluations, rep.nontrivial_keys.len(), rep.failures.len());
}
